(* LatexFacts.v — the align blocks written by print_latex decode, token by token,
   to one row per clause / constraint, for every row split and both layouts. *)
From Coq Require Import String ZArith List Bool Ascii Lia ZifyBool.
From Cnfgen Require Import Sem SemFacts Text TextFacts Dimacs DimacsFacts OpbText OpbTextFacts Latex.
Import ListNotations.
Open Scope Z_scope.

(* ------------------------------------------------------------------ *)
(* equality test on texts *)

Lemma text_eqb_eq : forall a b, text_eqb a b = true <-> a = b.
Proof.
  unfold text_eqb. induction a as [|x a IH]; intros [|y b]; cbn; try (split; [discriminate|discriminate]).
  - split; reflexivity.
  - specialize (IH b). destruct (Nat.eqb (length a) (length b)) eqn:El.
    + cbn [andb] in *. destruct (Ascii.eqb_spec x y) as [->|N].
      * cbn [andb]. split; intros H; [f_equal; apply IH, H | apply IH; congruence].
      * cbn [andb]. split; [discriminate | congruence].
    + cbn [andb] in *. split; [discriminate|]. intros H. inversion H; subst.
      rewrite Nat.eqb_refl in El. discriminate.
Qed.

Lemma text_eqb_refl a : text_eqb a a = true.
Proof. apply text_eqb_eq. reflexivity. Qed.

Lemma text_eqb_neq a b : a <> b -> text_eqb a b = false.
Proof. intros H. destruct (text_eqb a b) eqn:E; [apply text_eqb_eq in E; contradiction|reflexivity]. Qed.

Definition structural_list : list text :=
  [lit "\\"; lit "\land"; lit "\left("; lit "\right)"; lit "\lor"; lit "+";
   lit "\begin{align}"; lit "\end{align}"; lit "\end{align}\pagebreak"].

Lemma structural_In t : structural t = true <-> In t structural_list.
Proof.
  unfold structural. fold structural_list. rewrite existsb_exists. split.
  - intros (x & Hx & E). apply text_eqb_eq in E. subst. exact Hx.
  - intros H. exists t. split; [exact H | apply text_eqb_refl].
Qed.

(* a token whose first character is none of '\' and '+' is not structure;
   after '\' the letters o, g, s do not start a structural token either *)
Lemma not_structural_head c r :
  Ascii.eqb c "\"%char = false -> Ascii.eqb c "+"%char = false -> structural (c :: r) = false.
Proof.
  intros H1 H2. destruct (structural (c :: r)) eqn:E; [|reflexivity].
  apply structural_In in E. cbn in E.
  repeat (destruct E as [E|E]; [inversion E; subst; cbn in H1, H2; discriminate|]). contradiction.
Qed.

Lemma not_structural_backslash c r :
  (Ascii.eqb c "o"%char || Ascii.eqb c "g"%char || Ascii.eqb c "s"%char) = true ->
  structural ("\"%char :: c :: r) = false.
Proof.
  intros H. destruct (structural ("\"%char :: c :: r)) eqn:E; [|reflexivity].
  apply structural_In in E. cbn in E.
  repeat (destruct E as [E|E]; [inversion E; subst; cbn in H; discriminate|]). contradiction.
Qed.

Lemma not_amp_head c r : Ascii.eqb c "&"%char = false -> is_amp (c :: r) = false.
Proof.
  intros H. unfold is_amp. apply text_eqb_neq. intros E. inversion E; subst. cbn in H. discriminate.
Qed.

(* ------------------------------------------------------------------ *)
(* texts that are white space and tokens, alternating *)

Definition all_space (w : text) : bool := forallb is_space w.
Definition render (items : list (text * text)) : text :=
  concat (map (fun p => fst p ++ snd p) items).
Definition item_ok (p : text * text) : Prop :=
  all_space (fst p) = true /\ fst p <> [] /\ token (snd p) = true.

Lemma render_app a b : render (a ++ b) = render a ++ render b.
Proof. unfold render. rewrite map_app, concat_app. reflexivity. Qed.

Lemma render_cons p r : render (p :: r) = fst p ++ snd p ++ render r.
Proof. unfold render. cbn [map concat]. rewrite <- app_assoc. reflexivity. Qed.

Lemma split_ws_skip : forall w s, all_space w = true -> split_ws (w ++ s) = split_ws s.
Proof.
  induction w as [|c w IH]; intros s H; [reflexivity|].
  cbn [all_space forallb] in H. apply andb_true_iff in H as [Hc Hw].
  cbn [app]. rewrite split_ws_space by exact Hc. apply IH, Hw.
Qed.

Lemma split_ws_tok_render : forall items t, token t = true -> Forall item_ok items ->
  split_ws (t ++ render items) = t :: map snd items.
Proof.
  induction items as [|[w t'] items IH]; intros t Ht Hok.
  - cbn [render map concat]. rewrite app_nil_r. apply split_ws_token, Ht.
  - inversion Hok as [|? ? (Hw & Hne & Ht') Hok']; subst. cbn [fst snd] in *.
    rewrite render_cons. cbn [fst snd map].
    destruct w as [|c w]; [congruence|].
    cbn [all_space forallb] in Hw. apply andb_true_iff in Hw as [Hc Hw].
    cbn [app]. rewrite split_ws_token_sep by assumption. f_equal.
    rewrite split_ws_skip by exact Hw. apply IH; assumption.
Qed.

Lemma split_ws_render items : Forall item_ok items -> split_ws (render items) = map snd items.
Proof.
  destruct items as [|[w t] items]; intros Hok; [reflexivity|].
  inversion Hok as [|? ? (Hw & Hne & Ht) Hok']; subst. cbn [fst snd] in *.
  rewrite render_cons. cbn [fst snd map]. rewrite split_ws_skip by exact Hw.
  apply split_ws_tok_render; assumption.
Qed.

(* ------------------------------------------------------------------ *)
(* cutting a token stream at the '&' tokens *)

Definition noamp (ts : list text) : bool := forallb (fun t => negb (is_amp t)) ts.
Definition stream (qbs : list (list text * list text)) : list text :=
  concat (map (fun qb => fst qb ++ lit "&" :: snd qb) qbs).
Fixpoint glue (x : list text) (qbs : list (list text * list text)) (e : list text) : list (list text) :=
  match qbs with
  | [] => [x ++ e]
  | qb :: rest => (x ++ fst qb) :: glue (snd qb) rest e
  end.

Lemma noamp_app a b : noamp (a ++ b) = noamp a && noamp b.
Proof. apply forallb_app. Qed.

Lemma split_stream : forall qbs x e,
  noamp x = true -> noamp e = true -> e <> [] ->
  Forall (fun qb => noamp (fst qb) = true /\ noamp (snd qb) = true) qbs ->
  split_on is_amp (x ++ stream qbs ++ e) = glue x qbs e.
Proof.
  induction qbs as [|[q b] qbs IH]; intros x e Hx He Hne Hq.
  - cbn [stream map concat app glue]. apply split_on_last.
    + fold (noamp (x ++ e)). rewrite noamp_app, Hx, He. reflexivity.
    + destruct x; [exact Hne | discriminate].
  - inversion Hq as [|? ? [Hq1 Hb1] Hq']; subst. cbn [fst snd] in *.
    unfold stream. cbn [map concat fst snd glue]. fold (stream qbs).
    replace (x ++ ((q ++ lit "&" :: b) ++ stream qbs) ++ e)
      with ((x ++ q) ++ lit "&" :: (b ++ stream qbs ++ e))
      by (repeat rewrite <- app_assoc; cbn [app]; repeat rewrite <- app_assoc; reflexivity).
    rewrite split_on_piece.
    + f_equal. apply IH; assumption.
    + fold (noamp (x ++ q)). rewrite noamp_app, Hx, Hq1. reflexivity.
    + reflexivity.
Qed.

(* ------------------------------------------------------------------ *)
(* rows in the abstract: what the loop of _print_latex needs from a row writer *)

Definition all_structural (s : list text) : bool := forallb structural s.

Lemma structural_not_amp t : structural t = true -> is_amp t = false.
Proof.
  intros H. apply structural_In in H. cbn in H.
  repeat (destruct H as [H|H]; [subst; reflexivity|]). contradiction.
Qed.

Lemma all_structural_noamp s : all_structural s = true -> noamp s = true.
Proof.
  unfold all_structural, noamp. intros H. rewrite forallb_forall in *. intros t Ht.
  rewrite (structural_not_amp t (H t Ht)). reflexivity.
Qed.

Lemma filter_structural s : all_structural s = true ->
  filter (fun t => negb (structural t)) s = [].
Proof.
  induction s as [|t s IH]; intros H; [reflexivity|].
  cbn [all_structural forallb] in H. apply andb_true_iff in H as [Ht Hs].
  cbn [filter]. rewrite Ht. cbn. apply IH, Hs.
Qed.

Lemma decode_row_junk opb b s : all_structural s = true -> decode_row opb (b ++ s) = decode_row opb b.
Proof. intros H. unfold decode_row. rewrite filter_app, (filter_structural s H), app_nil_r. reflexivity. Qed.

(* w b = the text written for the row when it is (b = true) or is not the first of its block *)
Definition good_row (opb : bool) (w : bool -> text) (r : lrow) : Prop :=
  forall b, exists items q body,
    w b = render items /\ Forall item_ok items /\
    map snd items = q ++ lit "&" :: body /\
    all_structural q = true /\ noamp body = true /\ (b = true -> q = []) /\
    decode_row opb body = r.

Definition qb_ok (qb : list text * list text) : Prop :=
  noamp (fst qb) = true /\ noamp (snd qb) = true.

Lemma rows_text_stream opb split : forall ws rs, Forall2 (good_row opb) ws rs -> forall i,
  exists items qbs,
    rows_text split i ws = render items /\ Forall item_ok items /\
    map snd items = stream qbs /\
    Forall qb_ok qbs /\ Forall (fun qb => all_structural (fst qb) = true) qbs /\
    (i = 0 -> match qbs with qb :: _ => fst qb = [] | [] => True end) /\
    Forall2 (fun qb r => decode_row opb (snd qb) = r) qbs rs.
Proof.
  induction 1 as [|w r ws rs Hg Hrest IH]; intros i.
  - exists [], []. cbn. repeat split; constructor.
  - destruct (IH (i + 1)) as (items' & qbs' & E' & Hok' & Hs' & Hqb' & Hst' & _ & Hd').
    cbn [rows_text]. rewrite E'.
    destruct ((0 <? split) && (i mod split =? 0) && negb (i =? 0)) eqn:Hc.
    + destruct (Hg true) as (it & q & body & Ew & Hit & Hm & Hq & Hb & Hq0 & Hdec).
      specialize (Hq0 eq_refl). subst q.
      exists ([([LF], lit "\end{align}\pagebreak"); ([LF], lit "\begin{align}")] ++ it ++ items'),
             (([lit "\end{align}\pagebreak"; lit "\begin{align}"], body) :: qbs').
      split.
      { rewrite !render_app, Ew. cbn [render map concat fst snd app].
        rewrite <- !app_assoc. cbn [app]. rewrite <- !app_assoc. reflexivity. }
      split.
      { apply Forall_app. split.
        - repeat constructor; cbn; try reflexivity; discriminate.
        - apply Forall_app. split; assumption. }
      split.
      { rewrite !map_app, Hm, Hs'. cbn [map fst snd app]. unfold stream. cbn [map concat fst snd app].
        reflexivity. }
      split; [constructor; [split; [reflexivity|exact Hb]|exact Hqb']|].
      split; [constructor; [reflexivity|exact Hst']|].
      split.
      { intros ->. cbn in Hc. rewrite andb_false_r in Hc. discriminate. }
      constructor; [exact Hdec|exact Hd'].
    + destruct (Hg (i =? 0)) as (it & q & body & Ew & Hit & Hm & Hq & Hb & Hq0 & Hdec).
      exists (it ++ items'), ((q, body) :: qbs').
      split; [rewrite render_app, Ew; reflexivity|].
      split; [apply Forall_app; split; assumption|].
      split.
      { rewrite map_app, Hm, Hs'. unfold stream. cbn [map concat fst snd].
        rewrite <- app_assoc. reflexivity. }
      split; [constructor; [split; [apply all_structural_noamp, Hq|exact Hb]|exact Hqb']|].
      split; [constructor; [exact Hq|exact Hst']|].
      split; [intros ->; apply Hq0; reflexivity|].
      constructor; [exact Hdec|exact Hd'].
Qed.

Lemma glue_decode opb e : all_structural e = true -> forall qbs rs b,
  Forall (fun qb => all_structural (fst qb) = true) qbs ->
  Forall2 (fun qb r => decode_row opb (snd qb) = r) qbs rs ->
  map (decode_row opb) (glue b qbs e) = decode_row opb b :: rs.
Proof.
  intros He. induction qbs as [|[q b'] qbs IH]; intros rs b Hq Hd.
  - inversion Hd; subst. cbn [glue map]. rewrite decode_row_junk by exact He. reflexivity.
  - inversion Hd as [|? r' ? rs' Hd1 Hd2 E1 E2]; subst rs. inversion Hq; subst. cbn [fst snd] in *.
    cbn [glue map fst snd]. rewrite decode_row_junk by assumption. f_equal.
    rewrite IH with (rs := rs') by assumption. reflexivity.
Qed.

Theorem print_align_decodes opb split ws rs : Forall2 (good_row opb) ws rs ->
  rows_of_latex opb (print_align split ws) = (negb (nonempty rs), rs).
Proof.
  intros H. destruct ws as [|w ws].
  - inversion H; subst. destruct opb; vm_compute; reflexivity.
  - assert (Hrs : exists r0 rs0, rs = r0 :: rs0) by (inversion H; eauto).
    destruct Hrs as (r0 & rs0 & ->).
    destruct (rows_text_stream opb split (w :: ws) (r0 :: rs0) H 0)
      as (items & qbs & E & Hok & Hs & Hqb & Hst & H0 & Hd).
    unfold print_align. rewrite E.
    replace (render items ++ LF :: lit "\end{align}")
      with (render (items ++ [([LF], lit "\end{align}")]))
      by (rewrite render_app; cbn [render map concat fst snd app]; rewrite app_nil_r; reflexivity).
    unfold rows_of_latex. rewrite split_ws_tok_render.
    + rewrite map_app, Hs. cbn [map snd].
      change (lit "\begin{align}" :: stream qbs ++ [lit "\end{align}"])
        with ([lit "\begin{align}"] ++ stream qbs ++ [lit "\end{align}"]).
      rewrite split_stream; [|reflexivity|reflexivity|discriminate|exact Hqb].
      destruct qbs as [|[q b] qbs']; [inversion Hd|].
      specialize (H0 eq_refl). simpl in H0. subst q.
      inversion Hd as [|? r ? rs' Hd1 Hd2]; subst. cbn [fst snd] in *.
      inversion Hst as [|? ? Hst1 Hst2]; subst. cbn [glue fst snd app]. f_equal.
      rewrite glue_decode with (rs := rs0) by (try assumption; reflexivity). reflexivity.
    + reflexivity.
    + apply Forall_app. split; [exact Hok|].
      repeat constructor; cbn; try reflexivity; discriminate.
Qed.

(* ------------------------------------------------------------------ *)
(* the literal table *)

Lemma nthZ_In {A} : forall (l : list A) i x, nthZ l i = Some x -> In x l.
Proof.
  induction l as [|y l IH]; intros i x H; [discriminate|]. cbn [nthZ] in H.
  destruct (i =? 0); [inversion H; left; reflexivity | right; eapply IH; eauto].
Qed.

(* what a literal token must be for the decoder: one token, not LaTeX structure,
   not '&', not \square, ending in a closing brace *)
Definition lit_tok_ok (t : text) : Prop :=
  token t = true /\ structural t = false /\ is_amp t = false /\
  text_eqb t (lit "\square") = false /\ exists a, t = a ++ ["}"%char].

Lemma no_ws_app a b : no_ws (a ++ b) = no_ws a && no_ws b.
Proof. apply forallb_app. Qed.

Lemma no_ws_firstn k s : no_ws s = true -> no_ws (firstn k s) = true.
Proof.
  unfold no_ws. intros H. rewrite forallb_forall in *. intros c Hc. apply H.
  rewrite <- (firstn_skipn k s). apply in_or_app. left. exact Hc.
Qed.
Lemma no_ws_skipn k s : no_ws s = true -> no_ws (skipn k s) = true.
Proof.
  unfold no_ws. intros H. rewrite forallb_forall in *. intros c Hc. apply H.
  rewrite <- (firstn_skipn k s). apply in_or_app. right. exact Hc.
Qed.

Lemma tok_pos_ok nm : no_ws nm = true -> lit_tok_ok ("{"%char :: nm ++ ["}"%char]).
Proof.
  intros H. split; [|split; [|split; [|split]]].
  - unfold token. cbn [nonempty andb]. change ("{"%char :: nm ++ ["}"%char]) with (["{"%char] ++ nm ++ ["}"%char]).
    rewrite !no_ws_app, H. reflexivity.
  - apply not_structural_head; reflexivity.
  - apply not_amp_head; reflexivity.
  - apply text_eqb_neq. intros E. inversion E.
  - exists ("{"%char :: nm). reflexivity.
Qed.

Lemma tok_over_ok nm : no_ws nm = true -> lit_tok_ok (lit "\overline{" ++ nm ++ ["}"%char]).
Proof.
  intros H. split; [|split; [|split; [|split]]].
  - unfold token. apply andb_true_iff. split; [reflexivity|].
    rewrite !no_ws_app, H. reflexivity.
  - cbn [lit list_ascii_of_string app]. apply not_structural_backslash. reflexivity.
  - cbn [lit list_ascii_of_string app]. apply not_amp_head. reflexivity.
  - apply text_eqb_neq. cbn [lit list_ascii_of_string app]. intros E. inversion E.
  - exists (lit "\overline{" ++ nm). rewrite <- app_assoc. reflexivity.
Qed.

Lemma tok_split_ok a b : no_ws a = true -> no_ws b = true ->
  lit_tok_ok (lit "{\overline{" ++ a ++ lit "}" ++ b ++ lit "}").
Proof.
  intros Ha Hb. split; [|split; [|split; [|split]]].
  - unfold token. apply andb_true_iff. split; [reflexivity|].
    rewrite !no_ws_app, Ha, Hb. reflexivity.
  - cbn [lit list_ascii_of_string app]. apply not_structural_head; reflexivity.
  - cbn [lit list_ascii_of_string app]. apply not_amp_head. reflexivity.
  - apply text_eqb_neq. cbn [lit list_ascii_of_string app]. intros E. inversion E.
  - exists (lit "{\overline{" ++ a ++ lit "}" ++ b). rewrite <- !app_assoc. reflexivity.
Qed.

Lemma lstrip_pad : forall pad t, all_space pad = true -> lstrip (pad ++ t) = lstrip t.
Proof.
  induction pad as [|c pad IH]; intros t H; [reflexivity|].
  cbn [all_space forallb] in H. apply andb_true_iff in H as [Hc Hp].
  cbn [app lstrip]. rewrite Hc. apply IH, Hp.
Qed.

Lemma strip_pad_token pad t : all_space pad = true -> token t = true -> strip (pad ++ t) = t.
Proof.
  intros Hp Ht. unfold strip. rewrite lstrip_pad by exact Hp.
  unfold token in Ht. apply andb_true_iff in Ht as [Hne Hws].
  destruct t as [|c r]; [discriminate|].
  unfold no_ws in Hws. assert (Hc : is_space c = false).
  { cbn [forallb] in Hws. apply andb_true_iff in Hws as [Hc _]. apply negb_true_iff in Hc. exact Hc. }
  rewrite lstrip_nonspace by exact Hc.
  destruct (@exists_last _ (c :: r)) as (a & ch & E); [discriminate|]. rewrite E.
  apply rstrip_app_nonspace. rewrite E, forallb_app in Hws.
  apply andb_true_iff in Hws as [_ Hl]. cbn in Hl. rewrite andb_true_r in Hl.
  apply negb_true_iff in Hl. exact Hl.
Qed.

Lemma littext_shape names l lt : latex_names_ok names = true ->
  littext false names l = Some lt ->
  exists pad tok, lt = pad ++ tok /\ all_space pad = true /\
                  littext true names l = Some tok /\ lit_tok_ok tok.
Proof.
  intros Hn H. unfold littext in *. destruct (l =? 0); [discriminate|].
  destruct (nthZ names (Z.abs l - 1)) as [nm|] eqn:En; [|discriminate].
  assert (Hnm : no_ws nm = true).
  { unfold latex_names_ok in Hn. rewrite forallb_forall in Hn. apply (Hn nm). eapply nthZ_In; eauto. }
  inversion H; subst lt. clear H.
  assert (K : forall pad tok, all_space pad = true -> lit_tok_ok tok ->
              exists pad' tok', pad ++ tok = pad' ++ tok' /\ all_space pad' = true /\
                                Some (strip (pad ++ tok)) = Some tok' /\ lit_tok_ok tok').
  { intros pad tok Hp Ht. exists pad, tok.
    split; [reflexivity | split; [exact Hp | split; [|exact Ht]]].
    f_equal. apply strip_pad_token; [exact Hp | apply Ht]. }
  destruct (0 <? l).
  - unfold littext_pos.
    change (lit "           {" ++ nm ++ lit "}") with (lit "           " ++ ("{"%char :: nm ++ ["}"%char])).
    apply K; [reflexivity | apply tok_pos_ok, Hnm].
  - unfold littext_neg. destruct (split_point nm) as [k|].
    + change (lit "{\overline{" ++ firstn k nm ++ lit "}" ++ skipn k nm ++ lit "}")
        with ([] ++ (lit "{\overline{" ++ firstn k nm ++ lit "}" ++ skipn k nm ++ lit "}")).
      apply K; [reflexivity | apply tok_split_ok; [apply no_ws_firstn | apply no_ws_skipn]; exact Hnm].
    + change (lit "  \overline{" ++ nm ++ lit "}") with (lit "  " ++ (lit "\overline{" ++ nm ++ ["}"%char])).
      apply K; [reflexivity | apply tok_over_ok, Hnm].
Qed.

(* lists of literals *)
Lemma all_some_shape {A B C} (f : A -> option B) (f' : A -> option C) (R : B -> C -> Prop) :
  (forall x y, f x = Some y -> exists z, f' x = Some z /\ R y z) ->
  forall l ys, all_some (map f l) = Some ys ->
  exists zs, all_some (map f' l) = Some zs /\ Forall2 R ys zs.
Proof.
  intros Hf. induction l as [|x l IH]; intros ys H.
  - inversion H. exists []. split; [reflexivity|constructor].
  - cbn [map all_some] in H. destruct (f x) as [y|] eqn:Ex; [|discriminate].
    destruct (all_some (map f l)) as [ys'|] eqn:El; [|discriminate]. inversion H; subst ys.
    destruct (Hf x y Ex) as (z & Ez & Rz). destruct (IH ys' eq_refl) as (zs & Ezs & Rzs).
    exists (z :: zs). cbn [map all_some]. rewrite Ez, Ezs. split; [reflexivity|constructor; assumption].
Qed.

(* ------------------------------------------------------------------ *)
(* clause rows *)

Definition ptext (p : text * text) : text := fst p ++ snd p.
Definition pt_ok (p : text * text) : Prop := all_space (fst p) = true /\ lit_tok_ok (snd p).

Definition lor_items (rest : list (text * text)) : list (text * text) :=
  concat (map (fun p => [([SP], lit "\lor"); (SP :: fst p, snd p)]) rest).
Definition lits_items (w : text) (pts : list (text * text)) : list (text * text) :=
  match pts with
  | [] => []
  | p :: rest => (w ++ fst p, snd p) :: lor_items rest
  end.

Lemma join_lor : forall rest,
  concat (map (fun x => lit " \lor " ++ x) (map ptext rest)) = render (lor_items rest).
Proof.
  induction rest as [|p rest IH]; [reflexivity|].
  cbn [map concat]. rewrite IH. unfold lor_items. cbn [map concat]. fold (lor_items rest).
  rewrite render_app. unfold ptext. cbn [render map concat fst snd lit list_ascii_of_string app].
  rewrite <- !app_assoc. cbn [app]. reflexivity.
Qed.

Lemma join_items w p rest :
  w ++ join (lit " \lor ") (map ptext (p :: rest)) = render (lits_items w (p :: rest)).
Proof.
  cbn [map join lits_items]. rewrite join_lor, render_cons. cbn [fst snd]. unfold ptext.
  rewrite <- !app_assoc. reflexivity.
Qed.

Lemma all_space_app a b : all_space (a ++ b) = all_space a && all_space b.
Proof. apply forallb_app. Qed.

Lemma lor_items_ok rest : Forall pt_ok rest -> Forall item_ok (lor_items rest).
Proof.
  induction 1 as [|p rest [Hp Ht] _ IH]; [constructor|].
  unfold lor_items. cbn [map concat]. fold (lor_items rest).
  constructor; [repeat split; cbn; try reflexivity; discriminate|].
  constructor; [|exact IH].
  split; [|split]; cbn [fst snd];
    [change (all_space (SP :: fst p)) with (is_space SP && all_space (fst p)); rewrite Hp; reflexivity
    | discriminate | apply Ht].
Qed.

Lemma lits_items_ok w pts : all_space w = true -> w <> [] -> Forall pt_ok pts ->
  Forall item_ok (lits_items w pts).
Proof.
  intros Hw Hne H. destruct H as [|p rest [Hp Ht] Hr]; [constructor|].
  cbn [lits_items]. constructor; [|apply lor_items_ok, Hr].
  split; [|split]; cbn [fst snd].
  - rewrite all_space_app, Hw, Hp. reflexivity.
  - destruct w; [congruence|discriminate].
  - apply Ht.
Qed.

Definition nonstruct (ts : list text) : list text := filter (fun t => negb (structural t)) ts.

Lemma nonstruct_lor rest : Forall pt_ok rest ->
  nonstruct (map snd (lor_items rest)) = map snd rest /\ noamp (map snd (lor_items rest)) = true.
Proof.
  induction 1 as [|p rest [Hp Ht] _ [IH1 IH2]]; [split; reflexivity|].
  unfold lor_items. cbn [map concat]. fold (lor_items rest). rewrite map_app.
  destruct Ht as (_ & Hs & Ha & _). split.
  - unfold nonstruct in *. rewrite filter_app.
    cbn [map fst snd filter]. change (structural (lit "\lor")) with true. rewrite Hs.
    cbn [negb app]. f_equal. exact IH1.
  - rewrite noamp_app, IH2. cbn [map fst snd noamp forallb]. rewrite Ha. reflexivity.
Qed.

Lemma nonstruct_lits w pts : Forall pt_ok pts ->
  nonstruct (map snd (lits_items w pts)) = map snd pts /\ noamp (map snd (lits_items w pts)) = true.
Proof.
  intros H. destruct H as [|p rest [Hp Ht] Hr]; [split; reflexivity|].
  cbn [lits_items map fst snd]. destruct (nonstruct_lor rest Hr) as [E1 E2].
  destruct Ht as (_ & Hs & Ha & _). split.
  - unfold nonstruct in *. cbn [filter]. rewrite Hs. cbn [negb]. rewrite E1. reflexivity.
  - cbn [noamp forallb]. rewrite Ha. exact E2.
Qed.

Definition head_items (b : bool) : list (text * text) :=
  if b then [([LF], lit "&")] else [([SP], lit "\\"); ([LF], lit "&")].

Definition body_items (compact b : bool) (pts : list (text * text)) : list (text * text) :=
  let plain := negb compact || b in
  let w := if plain then lit "       " else [SP] in
  (if plain then [] else [([SP], lit "\land")]) ++
  match pts with
  | [] => [(w, lit "\square")]
  | _ => if compact then (w, lit "\left(") :: lits_items [SP] pts ++ [([SP], lit "\right)")]
         else lits_items w pts
  end.

Lemma left_right_render w p rest :
  w ++ lit "\left( " ++ join (lit " \lor ") (map ptext (p :: rest)) ++ lit " \right)" =
  render ((w, lit "\left(") :: lits_items [SP] (p :: rest) ++ [([SP], lit "\right)")]).
Proof.
  rewrite render_cons, render_app, <- join_items. cbn [fst snd render map concat lit list_ascii_of_string app].
  repeat rewrite <- app_assoc. cbn [app]. reflexivity.
Qed.

Lemma body_items_render compact b pts :
  (if negb compact || b then lit "       " else lit " \land ") ++ clause_body compact (map ptext pts) =
  render (body_items compact b pts).
Proof.
  unfold clause_body, body_items. destruct pts as [|p rest].
  - destruct compact, b; reflexivity.
  - destruct compact, b; cbn [negb orb map app].
    + apply left_right_render.
    + rewrite render_cons. cbn [fst snd]. rewrite <- left_right_render. reflexivity.
    + apply join_items.
    + apply join_items.
Qed.

Lemma write_clause_render compact b pts :
  write_clause compact (map ptext pts) b = render (head_items b ++ body_items compact b pts).
Proof.
  unfold write_clause. rewrite render_app, <- body_items_render.
  destruct b; cbn [head_items render map concat fst snd app lit list_ascii_of_string];
    repeat rewrite <- app_assoc; reflexivity.
Qed.

Lemma head_items_facts b :
  Forall item_ok (head_items b) /\
  exists q, map snd (head_items b) = q ++ [lit "&"] /\ all_structural q = true /\ (b = true -> q = []).
Proof.
  destruct b; split.
  - repeat constructor; cbn; try reflexivity; discriminate.
  - exists []. repeat split.
  - repeat constructor; cbn; try reflexivity; discriminate.
  - exists [lit "\\"]. repeat split. discriminate.
Qed.

Lemma body_items_facts compact b pts : Forall pt_ok pts ->
  Forall item_ok (body_items compact b pts) /\
  noamp (map snd (body_items compact b pts)) = true /\
  nonstruct (map snd (body_items compact b pts)) =
    match pts with [] => [lit "\square"] | _ => map snd pts end.
Proof.
  intros H. unfold body_items.
  set (plain := negb compact || b). set (w := if plain then lit "       " else [SP]).
  assert (Hw : all_space w = true /\ w <> []) by (subst w; destruct plain; split; (reflexivity || discriminate)).
  destruct Hw as [Hw1 Hw2].
  assert (Hpre : Forall item_ok (if plain then [] else [([SP], lit "\land")]) /\
                 noamp (map snd (if plain then [] else [([SP], lit "\land")])) = true /\
                 nonstruct (map snd (if plain then [] else [([SP], lit "\land")])) = []).
  { destruct plain; repeat split; repeat constructor; cbn; try reflexivity; discriminate. }
  destruct Hpre as (P1 & P2 & P3).
  rewrite map_app, noamp_app, P2. unfold nonstruct in *. rewrite filter_app, P3. cbn [app andb].
  destruct pts as [|p rest].
  - split; [apply Forall_app; split; [exact P1|]|split; reflexivity].
    repeat constructor; cbn [fst snd]; try assumption; try reflexivity.
  - destruct compact.
    + destruct (nonstruct_lits [SP] (p :: rest) H) as [E1 E2]. unfold nonstruct in E1.
      split; [apply Forall_app; split; [exact P1|]|split].
      * constructor; [repeat split; cbn [fst snd]; try assumption; reflexivity|].
        apply Forall_app. split; [apply lits_items_ok; [reflexivity|discriminate|exact H]|].
        repeat constructor; cbn; try reflexivity; discriminate.
      * cbn [map fst snd]. rewrite map_app. cbn [noamp forallb]. fold (noamp (map snd (lits_items [SP] (p :: rest)) ++ map snd [([SP], lit "\right)")])).
        rewrite noamp_app, E2. reflexivity.
      * cbn [map fst snd filter]. change (structural (lit "\left(")) with true. cbn [negb].
        rewrite map_app, filter_app, E1. cbn [map fst snd filter].
        change (structural (lit "\right)")) with true. cbn [negb]. rewrite app_nil_r. reflexivity.
    + destruct (nonstruct_lits w (p :: rest) H) as [E1 E2]. unfold nonstruct in E1.
      split; [apply Forall_app; split; [exact P1|apply lits_items_ok; assumption]|split; assumption].
Qed.

Lemma decode_clause_lits ts : ts <> [] ->
  Forall (fun t => text_eqb t (lit "\square") = false) ts -> decode_clause ts = RClause ts.
Proof.
  intros Hne H. destruct ts as [|t [|t' r]]; [congruence| |reflexivity].
  inversion H; subst. cbn [decode_clause]. rewrite H2. reflexivity.
Qed.

Lemma all_some_map_some {A B} (f : A -> B) l : all_some (map (fun x => Some (f x)) l) = Some (map f l).
Proof. induction l as [|x l IH]; [reflexivity|]. cbn [map all_some]. rewrite IH. reflexivity. Qed.

Lemma all_some_length {A B} (f : A -> option B) : forall l ys,
  all_some (map f l) = Some ys -> length l = length ys.
Proof.
  induction l as [|x l IH]; intros ys H; [inversion H; reflexivity|].
  cbn [map all_some] in H. destruct (f x); [|discriminate].
  destruct (all_some (map f l)) eqn:E; [|discriminate].
  inversion H. cbn [length]. f_equal. apply IH. reflexivity.
Qed.

Lemma clause_row_good compact names c w : latex_names_ok names = true ->
  clause_row compact names c = Some w ->
  exists r, clause_lrow names c = Some r /\ good_row false w r.
Proof.
  intros Hn H. unfold clause_row in H.
  destruct (all_some (map (littext false names) c)) as [lts|] eqn:El; [|discriminate].
  inversion H; subst w. clear H.
  destruct (all_some_shape (littext false names) (littext true names)
              (fun lt tok => exists pad, lt = pad ++ tok /\ all_space pad = true /\ lit_tok_ok tok))
    with (l := c) (ys := lts) as (toks & Et & Hr).
  { intros x y Hx. destruct (littext_shape names x y Hn Hx) as (pad & tok & E & Hp & Ht & Hk).
    exists tok. split; [exact Ht|]. exists pad. auto. }
  { exact El. }
  (* pair up pads and tokens *)
  assert (Hpts : exists pts, lts = map ptext pts /\ toks = map snd pts /\ Forall pt_ok pts).
  { clear El Et. induction Hr as [|lt tok lts toks (pad & E & Hp & Hk) _ (pts & E1 & E2 & E3)].
    - exists []. repeat split; constructor.
    - exists ((pad, tok) :: pts). subst. repeat split; [constructor; [split; assumption|assumption]]. }
  destruct Hpts as (pts & -> & -> & Hok).
  assert (Hlen : length c = length pts).
  { rewrite (all_some_length _ _ _ Et), map_length. reflexivity. }
  exists (match pts with [] => RSquare | _ => RClause (map snd pts) end). split.
  - unfold clause_lrow. change (lit_token names) with (littext true names).
    destruct c as [|l c]; destruct pts as [|p pts]; try discriminate Hlen; [reflexivity|].
    rewrite Et. reflexivity.
  - intros b. destruct (head_items_facts b) as (H1 & q & Hq1 & Hq2 & Hq3).
    destruct (body_items_facts compact b pts Hok) as (B1 & B2 & B3).
    exists (head_items b ++ body_items compact b pts), q, (map snd (body_items compact b pts)).
    split; [apply write_clause_render|].
    split; [apply Forall_app; split; assumption|].
    split; [rewrite map_app, Hq1, <- app_assoc; reflexivity|].
    split; [exact Hq2|]. split; [exact B2|]. split; [exact Hq3|].
    unfold decode_row. fold (nonstruct (map snd (body_items compact b pts))). rewrite B3.
    destruct pts as [|p rest]; [reflexivity|].
    apply decode_clause_lits; [discriminate|].
    rewrite Forall_forall. intros t Ht. apply in_map_iff in Ht as (p' & <- & Hp').
    rewrite Forall_forall in Hok. destruct (Hok p' Hp') as (_ & _ & _ & _ & Hsq & _). exact Hsq.
Qed.

(* ------------------------------------------------------------------ *)
(* constraint rows *)

Lemma littext_true_ok names l tok : latex_names_ok names = true ->
  littext true names l = Some tok -> lit_tok_ok tok.
Proof.
  intros Hn H.
  assert (E : exists lt, littext false names l = Some lt).
  { unfold littext in *. destruct (l =? 0); [discriminate|].
    destruct (nthZ names (Z.abs l - 1)); [eexists; reflexivity|discriminate]. }
  destruct E as (lt & E). destruct (littext_shape names l lt Hn E) as (pad & tok' & _ & _ & Ht & Hk).
  rewrite Ht in H. inversion H; subst. exact Hk.
Qed.

Definition term_tok_ok (t : text) : Prop :=
  token t = true /\ structural t = false /\ is_amp t = false /\ exists a, t = a ++ ["}"%char].

Lemma coef_term_ok c tok : lit_tok_ok tok -> term_tok_ok (coef_text c ++ tok).
Proof.
  intros (Ht & Hs & Ha & _ & (a & Ea)). unfold coef_text. destruct (1 <? c).
  - destruct (print_Z_head c) as (ch & r & E & Hch). split; [|split; [|split]].
    + apply token_app; [|exact Ht]. pose proof (print_Z_token c) as T. unfold token in T.
      apply andb_true_iff in T as [_ T]. exact T.
    + rewrite E. cbn [app]. apply not_structural_head; apply (num_char_not ch _ Hch); reflexivity.
    + rewrite E. cbn [app]. apply not_amp_head. apply (num_char_not ch _ Hch); reflexivity.
    + exists (print_Z c ++ a). rewrite Ea, app_assoc. reflexivity.
  - cbn [app]. split; [exact Ht|split; [exact Hs|split; [exact Ha|exists a; exact Ea]]].
Qed.

Definition plus_items (rest : list text) : list (text * text) :=
  concat (map (fun t => [([SP], lit "+"); ([SP], t)]) rest).
Definition sum_items (ts : list text) : list (text * text) :=
  match ts with
  | [] => [([SP], lit "0")]
  | t :: rest => ([SP], t) :: plus_items rest
  end.
Definition cbody_items (ts : list text) (o : pbop) (v : Z) : list (text * text) :=
  sum_items ts ++ [([SP], rel_text o); ([SP], print_Z v)].

Lemma plus_render : forall rest,
  concat (map (fun x => lit " + " ++ x) rest) = render (plus_items rest).
Proof.
  induction rest as [|t rest IH]; [reflexivity|].
  cbn [map concat]. rewrite IH. unfold plus_items. cbn [map concat]. fold (plus_items rest).
  rewrite render_app. cbn [render map concat fst snd lit list_ascii_of_string app].
  rewrite <- !app_assoc. cbn [app]. reflexivity.
Qed.

Lemma cbody_render terms o v :
  [SP] ++ constraint_body terms o v =
  render (cbody_items (map (fun ct => coef_text (fst ct) ++ snd ct) terms) o v).
Proof.
  unfold constraint_body, cbody_items. rewrite render_app.
  assert (E : forall ts, [SP] ++ match ts with [] => lit "0" | _ => join (lit " + ") ts end = render (sum_items ts)).
  { intros [|t rest]; [reflexivity|]. cbn [join sum_items]. rewrite plus_render, render_cons. reflexivity. }
  destruct terms as [|ct terms].
  - cbn [map]. rewrite <- E. cbn [render map concat fst snd app].
    repeat rewrite <- app_assoc. repeat rewrite app_nil_r. reflexivity.
  - rewrite <- E. cbn [map]. cbn [render map concat fst snd app].
    repeat rewrite <- app_assoc. repeat rewrite app_nil_r. reflexivity.
Qed.

Lemma write_constraint_render terms o v b :
  write_constraint terms o v b =
  render (head_items b ++ cbody_items (map (fun ct => coef_text (fst ct) ++ snd ct) terms) o v).
Proof.
  unfold write_constraint. rewrite render_app, <- cbody_render.
  destruct b; cbn [head_items render map concat fst snd app lit list_ascii_of_string];
    repeat rewrite <- app_assoc; reflexivity.
Qed.

Lemma plus_items_facts rest : Forall term_tok_ok rest ->
  Forall item_ok (plus_items rest) /\ noamp (map snd (plus_items rest)) = true /\
  nonstruct (map snd (plus_items rest)) = rest.
Proof.
  induction 1 as [|t rest (Ht & Hs & Ha & _) _ (I1 & I2 & I3)]; [repeat split; constructor|].
  unfold plus_items. cbn [map concat]. fold (plus_items rest). split; [|split].
  - constructor; [repeat split; cbn; try reflexivity; discriminate|].
    constructor; [repeat split; cbn [fst snd]; try reflexivity; try discriminate; exact Ht|exact I1].
  - rewrite map_app, noamp_app, I2. cbn [map fst snd noamp forallb]. rewrite Ha. reflexivity.
  - unfold nonstruct in *. rewrite map_app, filter_app.
    cbn [map fst snd filter]. change (structural (lit "+")) with true. rewrite Hs.
    cbn [negb app]. f_equal. exact I3.
Qed.

Lemma rel_text_facts o : token (rel_text o) = true /\ structural (rel_text o) = false /\ is_amp (rel_text o) = false.
Proof. destruct o; repeat split; reflexivity. Qed.

Lemma print_Z_not_structural v : structural (print_Z v) = false /\ is_amp (print_Z v) = false.
Proof.
  destruct (print_Z_head v) as (ch & r & -> & H). split.
  - apply not_structural_head; apply (num_char_not ch _ H); reflexivity.
  - apply not_amp_head. apply (num_char_not ch _ H); reflexivity.
Qed.

Lemma cbody_items_facts ts o v : Forall term_tok_ok ts ->
  Forall item_ok (cbody_items ts o v) /\ noamp (map snd (cbody_items ts o v)) = true /\
  nonstruct (map snd (cbody_items ts o v)) =
    (match ts with [] => [lit "0"] | _ => ts end) ++ [rel_text o; print_Z v].
Proof.
  intros H. unfold cbody_items. destruct (rel_text_facts o) as (R1 & R2 & R3).
  destruct (print_Z_not_structural v) as (V1 & V2).
  assert (Hs : Forall item_ok (sum_items ts) /\ noamp (map snd (sum_items ts)) = true /\
               nonstruct (map snd (sum_items ts)) = match ts with [] => [lit "0"] | _ => ts end).
  { destruct H as [|t rest (Ht & Hs & Ha & _) Hr].
    - repeat split. repeat constructor; cbn; try reflexivity; discriminate.
    - destruct (plus_items_facts rest Hr) as (I1 & I2 & I3). cbn [sum_items]. split; [|split].
      + constructor; [repeat split; cbn [fst snd]; try reflexivity; try discriminate; exact Ht|exact I1].
      + cbn [map fst snd noamp forallb]. rewrite Ha. exact I2.
      + unfold nonstruct in *. cbn [map fst snd filter]. rewrite Hs. cbn [negb]. f_equal. exact I3. }
  destruct Hs as (S1 & S2 & S3). split; [|split].
  - apply Forall_app. split; [exact S1|].
    constructor; [repeat split; cbn [fst snd]; try reflexivity; try discriminate; exact R1|].
    constructor; [repeat split; cbn [fst snd]; try reflexivity; try discriminate; apply print_Z_token|constructor].
  - rewrite map_app, noamp_app, S2. cbn [map fst snd noamp forallb]. rewrite R3, V2. reflexivity.
  - unfold nonstruct in *. rewrite map_app, filter_app, S3. cbn [map fst snd filter]. rewrite R2, V1. reflexivity.
Qed.

Lemma decode_constraint_terms : forall ts o v,
  decode_constraint (ts ++ [rel_text o; print_Z v]) =
  RConstraint ts (match o with PGe => PGe | _ => PEq end) (print_Z v).
Proof.
  induction ts as [|t ts IH]; intros o v.
  - destruct o; reflexivity.
  - cbn [app]. specialize (IH o v).
    destruct (ts ++ [rel_text o; print_Z v]) as [|x [|y r]] eqn:E.
    + destruct ts; discriminate.
    + destruct ts as [|? [|? ?]]; discriminate.
    + cbn [decode_constraint]. cbn [decode_constraint] in IH. rewrite IH. reflexivity.
Qed.

Lemma constraint_row_good names c w : latex_names_ok names = true ->
  constraint_row names c = Some w ->
  exists r, constraint_lrow names c = Some r /\ good_row true w r.
Proof.
  intros Hn H. unfold constraint_row in H.
  destruct (all_some (map (fun cl => littext true names (snd cl)) (pb_terms c))) as [lts|] eqn:El; [|discriminate].
  inversion H; subst w. clear H.
  set (terms := combine (map fst (pb_terms c)) lts).
  set (ts := map (fun ct => coef_text (fst ct) ++ snd ct) terms).
  assert (Hlts : Forall lit_tok_ok lts).
  { clear terms ts. revert lts El. induction (pb_terms c) as [|cl l IH]; intros lts El.
    - inversion El. constructor.
    - cbn [map all_some] in El. destruct (littext true names (snd cl)) as [tok|] eqn:Et; [|discriminate].
      destruct (all_some (map (fun cl0 => littext true names (snd cl0)) l)) as [r|] eqn:Er; [|discriminate].
      inversion El; subst. constructor; [eapply littext_true_ok; eauto|apply IH; reflexivity]. }
  assert (Hts : Forall term_tok_ok ts).
  { subst ts terms. clear El. revert lts Hlts. induction (map fst (pb_terms c)) as [|k ks IH]; intros lts Hl.
    - constructor.
    - destruct Hl as [|tok lts Ht Hl]; [constructor|]. cbn [combine map fst snd].
      constructor; [apply coef_term_ok, Ht|apply IH, Hl]. }
  exists (RConstraint ts (match pb_op c with PGe => PGe | _ => PEq end) (print_Z (pb_deg c))). split.
  - unfold constraint_lrow. change (fun cl : Z * Z => lit_token names (snd cl)) with (fun cl : Z * Z => littext true names (snd cl)).
    rewrite El. reflexivity.
  - intros b. destruct (head_items_facts b) as (H1 & q & Hq1 & Hq2 & Hq3).
    destruct (cbody_items_facts ts (pb_op c) (pb_deg c) Hts) as (B1 & B2 & B3).
    exists (head_items b ++ cbody_items ts (pb_op c) (pb_deg c)), q, (map snd (cbody_items ts (pb_op c) (pb_deg c))).
    split; [apply write_constraint_render|].
    split; [apply Forall_app; split; assumption|].
    split; [rewrite map_app, Hq1, <- app_assoc; reflexivity|].
    split; [exact Hq2|]. split; [exact B2|]. split; [exact Hq3|].
    unfold decode_row. fold (nonstruct (map snd (cbody_items ts (pb_op c) (pb_deg c)))). rewrite B3.
    rewrite decode_constraint_terms.
    destruct Hts as [|t [|t' rest] (_ & _ & _ & (a & Ea)) Hr]; try reflexivity.
    cbn [drop_zero_sum]. rewrite text_eqb_neq; [reflexivity|].
    rewrite Ea. intros E. destruct a as [|x [|y a']]; discriminate E.
Qed.

(* ------------------------------------------------------------------ *)
(* the theorem *)

Theorem latex_rows_proved names split compact f t :
  latex_names_ok names = true ->
  print_latex names split compact f = Some t ->
  exists rows, formula_lrows names f = Some rows /\
               rows_of_latex (is_opb f) t = (negb (nonempty rows), rows).
Proof.
  intros Hn H. unfold print_latex in H.
  destruct (formula_rows compact names f) as [ws|] eqn:Ew; [|discriminate].
  inversion H; subst t. clear H. destruct f as [n F|n C]; cbn [formula_rows formula_lrows is_opb] in *.
  - destruct (all_some_shape (clause_row compact names) (clause_lrow names) (good_row false))
      with (l := F) (ys := ws) as (rows & Er & Hg); [|exact Ew|].
    + intros c w Hc. destruct (clause_row_good compact names c w Hn Hc) as (r & E & G). exists r. auto.
    + exists rows. split; [exact Er|]. apply print_align_decodes, Hg.
  - destruct (all_some_shape (constraint_row names) (constraint_lrow names) (good_row true))
      with (l := C) (ys := ws) as (rows & Er & Hg); [|exact Ew|].
    + intros c w Hc. destruct (constraint_row_good names c w Hn Hc) as (r & E & G). exists r. auto.
    + exists rows. split; [exact Er|]. apply print_align_decodes, Hg.
Qed.

(* the number of rows is the number of clauses / constraints *)
Lemma formula_lrows_length names f rows : formula_lrows names f = Some rows ->
  length rows = length (constraints f).
Proof.
  destruct f as [n F|n C]; cbn [formula_lrows constraints]; intros H.
  - rewrite map_length. symmetry. eapply all_some_length; eauto.
  - symmetry. eapply all_some_length; eauto.
Qed.

(* the writer fails (KeyError) exactly when some literal has no name *)
Lemma print_latex_defined names split compact f :
  (forall c l, In c (constraints f) -> In l (map snd (pb_terms c)) -> l <> 0 /\ Z.abs l <= len names) ->
  exists t, print_latex names split compact f = Some t.
Proof.
  intros H.
  assert (Hlit : forall st l, l <> 0 -> Z.abs l <= len names -> exists lt, littext st names l = Some lt).
  { intros st l Hnz Hle. unfold littext. destruct (l =? 0) eqn:E; [lia|].
    assert (Hn : forall (ns : list (list ascii)) i, 0 <= i < len ns -> exists nm, nthZ ns i = Some nm).
    { induction ns as [|x ns IH]; intros i Hi; [unfold len in Hi; cbn in Hi; lia|].
      cbn [nthZ]. destruct (i =? 0) eqn:Ei; [eexists; reflexivity|].
      apply IH. rewrite len_cons in Hi. lia. }
    destruct (Hn names (Z.abs l - 1)) as (nm & ->); [lia|]. eexists; reflexivity. }
  assert (Hall : forall {A B} (g : A -> option B) l, (forall x, In x l -> exists y, g x = Some y) ->
                 exists ys, all_some (map g l) = Some ys).
  { intros A B g l. induction l as [|x l IH]; intros Hx; [exists []; reflexivity|].
    destruct (Hx x (or_introl eq_refl)) as (y & Ey). destruct IH as (ys & Eys); [intros z Hz; apply Hx; right; exact Hz|].
    exists (y :: ys). cbn [map all_some]. rewrite Ey, Eys. reflexivity. }
  unfold print_latex. destruct f as [n F|n C]; cbn [formula_rows constraints] in *.
  - destruct (Hall _ _ (clause_row compact names) F) as (ws & ->); [|eexists; reflexivity].
    intros c Hc. unfold clause_row.
    destruct (Hall _ _ (littext false names) c) as (lts & ->); [|eexists; reflexivity].
    intros l Hl. destruct (H (clause_pbc c) l) as [Hnz Hle].
    + apply in_map. exact Hc.
    + cbn [clause_pbc pb_terms]. rewrite map_map. cbn [snd]. rewrite map_id. exact Hl.
    + apply Hlit; assumption.
  - destruct (Hall _ _ (constraint_row names) C) as (ws & ->); [|eexists; reflexivity].
    intros c Hc. unfold constraint_row.
    destruct (Hall _ _ (fun cl : Z * Z => littext true names (snd cl)) (pb_terms c)) as (lts & ->); [|eexists; reflexivity].
    intros cl Hcl. destruct (H c (snd cl) Hc) as [Hnz Hle]; [apply in_map; exact Hcl|].
    apply Hlit; assumption.
Qed.

(* ------------------------------------------------------------------ *)
(* from a literal token back to the literal *)

Lemma strip_prefix_app : forall p s, strip_prefix p (p ++ s) = Some s.
Proof.
  induction p as [|c p IH]; intros s; [reflexivity|].
  cbn [app strip_prefix]. rewrite Ascii.eqb_refl. apply IH.
Qed.

Lemma strip_last_app c a : strip_last c (a ++ [c]) = Some a.
Proof. unfold strip_last. rewrite rev_app_distr. cbn [rev app]. rewrite Ascii.eqb_refl, rev_involutive. reflexivity. Qed.

(* a text that does not begin with p still does not after one more character
   that does not occur in p *)
Lemma strip_prefix_none_snoc d : forall p s, Forall (fun c => Ascii.eqb c d = false) p ->
  strip_prefix p s = None -> strip_prefix p (s ++ [d]) = None.
Proof.
  induction p as [|c p IH]; intros s Hp H; [discriminate H|].
  inversion Hp as [|? ? Hc Hp']; subst. destruct s as [|x s]; cbn [app strip_prefix] in *.
  - rewrite Hc. reflexivity.
  - destruct (Ascii.eqb c x); [apply IH; assumption|reflexivity].
Qed.

Lemma find_char_lt ch : forall s j, find_char ch s = Some j -> (j < length s)%nat.
Proof.
  induction s as [|x s IH]; intros j H; [discriminate H|]. cbn [find_char] in H.
  destruct (Ascii.eqb x ch); [inversion H; cbn; lia|].
  destruct (find_char ch s) as [k|]; [|discriminate H]. inversion H; subst. specialize (IH k eq_refl). cbn. lia.
Qed.

(* looking for ch in a name in which a closing brace has been inserted at position k *)
Lemma find_char_insert ch : Ascii.eqb "}"%char ch = false -> forall nm k,
  find_char ch (firstn k nm ++ "}"%char :: skipn k nm) =
  match find_char ch nm with
  | Some j => if (j <? k)%nat then Some j else Some (S j)
  | None => None
  end.
Proof.
  intros Hb. induction nm as [|x nm IH]; intros k.
  - rewrite firstn_nil, skipn_nil. cbn [app find_char]. rewrite Hb. reflexivity.
  - destruct k as [|k].
    + cbn [firstn skipn app]. cbn [find_char]. rewrite Hb.
      destruct (Ascii.eqb x ch); [reflexivity|]. destruct (find_char ch nm); reflexivity.
    + cbn [firstn skipn app find_char]. destruct (Ascii.eqb x ch); [reflexivity|].
      rewrite IH. destruct (find_char ch nm) as [j|]; [|reflexivity].
      change (S j <? S k)%nat with (j <? k)%nat. destruct (j <? k)%nat; reflexivity.
Qed.

Lemma pos_find_pos ch s j : pos_find ch s = Some j -> (0 < j)%nat.
Proof. unfold pos_find. destruct (find_char ch s) as [[|k]|]; intros H; inversion H; lia. Qed.

Lemma pos_find_lt ch s j : pos_find ch s = Some j -> (j < length s)%nat.
Proof.
  unfold pos_find. destruct (find_char ch s) as [[|k]|] eqn:E; intros H; inversion H; subst.
  apply (find_char_lt ch s _ E).
Qed.

Lemma pos_find_insert ch nm k : Ascii.eqb "}"%char ch = false -> (0 < k)%nat ->
  (forall j, pos_find ch nm = Some j -> (k <= j)%nat) ->
  pos_find ch (firstn k nm ++ "}"%char :: skipn k nm) = option_map S (pos_find ch nm).
Proof.
  intros Hb Hk Hj. unfold pos_find in *. rewrite find_char_insert by exact Hb.
  destruct (find_char ch nm) as [[|j]|]; cbn [option_map].
  - destruct (0 <? k)%nat eqn:E; [reflexivity|apply Nat.ltb_ge in E; lia].
  - specialize (Hj (S j) eq_refl). destruct (S j <? k)%nat eqn:E; [apply Nat.ltb_lt in E; lia|reflexivity].
  - reflexivity.
Qed.

Lemma split_point_pos nm k : split_point nm = Some k -> (0 < k < length nm)%nat.
Proof.
  unfold split_point.
  destruct (pos_find "_"%char nm) as [a|] eqn:Ea; destruct (pos_find "^"%char nm) as [b|] eqn:Eb;
    intros H; inversion H; subst;
    repeat match goal with
           | E : pos_find _ _ = Some _ |- _ => pose proof (pos_find_pos _ _ _ E); pose proof (pos_find_lt _ _ _ E); clear E
           end; lia.
Qed.

Lemma split_point_insert nm k : split_point nm = Some k ->
  split_point (firstn k nm ++ "}"%char :: skipn k nm) = Some (S k).
Proof.
  intros H. pose proof (split_point_pos nm k H) as [Hk _]. unfold split_point in *.
  assert (Ha : forall j, pos_find "_"%char nm = Some j -> (k <= j)%nat).
  { intros j Ej. rewrite Ej in H. destruct (pos_find "^"%char nm); inversion H; lia. }
  assert (Hb : forall j, pos_find "^"%char nm = Some j -> (k <= j)%nat).
  { intros j Ej. rewrite Ej in H. destruct (pos_find "_"%char nm); inversion H; lia. }
  rewrite !pos_find_insert by (try reflexivity; assumption).
  destruct (pos_find "_"%char nm) as [a|]; destruct (pos_find "^"%char nm) as [b|];
    cbn [option_map]; inversion H; subst; reflexivity.
Qed.

Lemma strip_braced pad c mid d : all_space pad = true -> is_space c = false -> is_space d = false ->
  strip (pad ++ c :: mid ++ [d]) = c :: mid ++ [d].
Proof.
  intros Hp Hc Hd. unfold strip. rewrite lstrip_pad by exact Hp. rewrite lstrip_nonspace by exact Hc.
  change (c :: mid ++ [d]) with ((c :: mid) ++ [d]). apply rstrip_app_nonspace, Hd.
Qed.

(* the three shapes of a stripped literal token *)
Lemma lit_token_shapes names l tok : lit_token names l = Some tok ->
  exists nm, nthZ names (Z.abs l - 1) = Some nm /\ l <> 0 /\
    ((0 < l /\ tok = lit "{" ++ nm ++ lit "}") \/
     (l < 0 /\ split_point nm = None /\ tok = lit "\overline{" ++ nm ++ lit "}") \/
     (l < 0 /\ exists k, split_point nm = Some k /\
               tok = lit "{\overline{" ++ firstn k nm ++ lit "}" ++ skipn k nm ++ lit "}")).
Proof.
  unfold lit_token, littext. intros H. destruct (l =? 0) eqn:E0; [discriminate H|].
  destruct (nthZ names (Z.abs l - 1)) as [nm|]; [|discriminate H]. exists nm. split; [reflexivity|].
  split; [lia|]. inversion H as [Ht]. clear H. destruct (0 <? l) eqn:Epos.
  - left. split; [lia|]. unfold littext_pos.
    change (lit "           {" ++ nm ++ lit "}") with (lit "           " ++ "{"%char :: nm ++ ["}"%char]).
    apply strip_braced; reflexivity.
  - right. unfold littext_neg. destruct (split_point nm) as [k|] eqn:Es.
    + right. split; [lia|]. exists k. split; [reflexivity|].
      assert (E : lit "{\overline{" ++ firstn k nm ++ lit "}" ++ skipn k nm ++ lit "}" =
                  [] ++ "{"%char :: (lit "\overline{" ++ firstn k nm ++ lit "}" ++ skipn k nm) ++ ["}"%char]).
      { cbn [lit list_ascii_of_string app]. rewrite <- !app_assoc. cbn [app]. reflexivity. }
      rewrite E. rewrite strip_braced by reflexivity. reflexivity.
    + left. split; [lia|]. split; [reflexivity|].
      assert (E : lit "  \overline{" ++ nm ++ lit "}" = lit "  " ++ "\"%char :: (lit "overline{" ++ nm) ++ ["}"%char]).
      { cbn [lit list_ascii_of_string app]. reflexivity. }
      rewrite E. rewrite strip_braced by reflexivity. cbn [lit list_ascii_of_string app]. reflexivity.
Qed.

Lemma nthZ_forallb {A} (p : A -> bool) : forall (l : list A) i x,
  forallb p l = true -> nthZ l i = Some x -> p x = true.
Proof.
  intros l i x H E. rewrite forallb_forall in H. apply H. eapply nthZ_In; eauto.
Qed.

Lemma strip_prefix_cons c p s : strip_prefix (c :: p) (c :: s) = strip_prefix p s.
Proof. cbn [strip_prefix]. rewrite Ascii.eqb_refl. reflexivity. Qed.

Lemma decode_pos nm : starts_overline nm = false ->
  decode_lit (lit "{" ++ nm ++ lit "}") = Some (true, nm).
Proof.
  intros H. unfold decode_lit.
  assert (E1 : strip_prefix (lit "{\overline{") (lit "{" ++ nm ++ lit "}") = None).
  { change (lit "{\overline{") with ("{"%char :: lit "\overline{").
    change (lit "{" ++ nm ++ lit "}") with ("{"%char :: nm ++ ["}"%char]). rewrite strip_prefix_cons.
    unfold starts_overline in H. apply strip_prefix_none_snoc.
    - repeat constructor.
    - destruct (strip_prefix (lit "\overline{") nm); [discriminate H|reflexivity]. }
  rewrite E1.
  assert (E2 : strip_prefix (lit "\overline{") (lit "{" ++ nm ++ lit "}") = None) by reflexivity.
  rewrite E2. rewrite strip_prefix_app. cbn [lit list_ascii_of_string]. rewrite strip_last_app. reflexivity.
Qed.

Lemma decode_neg_plain nm : decode_lit (lit "\overline{" ++ nm ++ lit "}") = Some (false, nm).
Proof.
  unfold decode_lit.
  assert (E1 : strip_prefix (lit "{\overline{") (lit "\overline{" ++ nm ++ lit "}") = None) by reflexivity.
  rewrite E1, strip_prefix_app. cbn [lit list_ascii_of_string]. rewrite strip_last_app. reflexivity.
Qed.

Lemma decode_neg_split nm k : split_point nm = Some k ->
  decode_lit (lit "{\overline{" ++ firstn k nm ++ lit "}" ++ skipn k nm ++ lit "}") = Some (false, nm).
Proof.
  intros H. unfold decode_lit. rewrite strip_prefix_app.
  replace (firstn k nm ++ lit "}" ++ skipn k nm ++ lit "}")
    with ((firstn k nm ++ "}"%char :: skipn k nm) ++ ["}"%char])
    by (cbn [lit list_ascii_of_string app]; rewrite <- app_assoc; reflexivity).
  rewrite strip_last_app, (split_point_insert nm k H).
  pose proof (split_point_pos nm k H) as [_ Hlt].
  assert (Hl : length (firstn k nm) = k) by (apply firstn_length_le; lia).
  rewrite skipn_app, firstn_app, Hl, Nat.sub_diag, skipn_all2, firstn_all2 by lia.
  cbn [skipn firstn app]. rewrite Ascii.eqb_refl, app_nil_r, firstn_skipn. reflexivity.
Qed.

(* THE inverse: a literal token decodes to the polarity and the name of its literal *)
Lemma decode_lit_token names l tok : latex_names_decodable names = true ->
  lit_token names l = Some tok ->
  exists pl, lit_name names l = Some pl /\ decode_lit tok = Some pl /\
             exists ch r, tok = ch :: r /\ is_digit ch = false.
Proof.
  intros Hn H. destruct (lit_token_shapes names l tok H) as (nm & En & Hnz & Hs).
  unfold lit_name. rewrite En. destruct (l =? 0) eqn:E0; [lia|].
  exists (0 <? l, nm). split; [reflexivity|].
  destruct Hs as [[Hl ->]|[(Hl & Hsp & ->)|(Hl & k & Hsp & ->)]].
  - replace (0 <? l) with true by lia. split; [|eexists _, _; split; reflexivity].
    apply decode_pos. unfold latex_names_decodable in Hn.
    pose proof (nthZ_forallb _ names _ nm Hn En) as Hd. apply negb_true_iff in Hd. exact Hd.
  - replace (0 <? l) with false by lia. split; [apply decode_neg_plain|eexists _, _; split; reflexivity].
  - replace (0 <? l) with false by lia. split; [apply decode_neg_split, Hsp|eexists _, _; split; reflexivity].
Qed.

(* lists of literal tokens *)
Lemma decode_lits names : latex_names_decodable names = true -> forall c ts,
  all_some (map (lit_token names) c) = Some ts ->
  exists pls, all_some (map (lit_name names) c) = Some pls /\ all_some (map decode_lit ts) = Some pls /\
              Forall (fun t => exists ch r, t = ch :: r /\ is_digit ch = false) ts.
Proof.
  intros Hn. induction c as [|l c IH]; intros ts H.
  - inversion H. exists []. repeat split; constructor.
  - cbn [map all_some] in H. destruct (lit_token names l) as [tok|] eqn:Et; [|discriminate H].
    destruct (all_some (map (lit_token names) c)) as [ts'|] eqn:Ec; [|discriminate H]. inversion H; subst ts.
    destruct (decode_lit_token names l tok Hn Et) as (pl & E1 & E2 & E3).
    destruct (IH ts' eq_refl) as (pls & F1 & F2 & F3).
    exists (pl :: pls). cbn [map all_some]. rewrite E1, F1, E2, F2. repeat split. constructor; assumption.
Qed.

(* coefficients *)
Lemma span_digits_app : forall d t, forallb is_digit d = true ->
  (exists ch r, t = ch :: r /\ is_digit ch = false) -> span_digits (d ++ t) = (d, t).
Proof.
  induction d as [|c d IH]; intros t Hd Ht.
  - destruct Ht as (ch & r & -> & Hch). cbn [app span_digits]. rewrite Hch. reflexivity.
  - cbn [forallb] in Hd. apply andb_true_iff in Hd as [Hc Hd].
    cbn [app span_digits]. rewrite Hc, (IH t Hd Ht). reflexivity.
Qed.

Lemma coef_text_digits c : forallb is_digit (coef_text c) = true.
Proof.
  unfold coef_text. destruct (1 <? c) eqn:E; [|reflexivity].
  rewrite print_Z_nonneg by lia. pose proof (print_nonneg_all_digits c) as H.
  unfold all_digits in H. apply andb_true_iff in H as [_ H]. exact H.
Qed.

Lemma decode_terms : forall cs ts pls, all_some (map decode_lit ts) = Some pls ->
  Forall (fun t => exists ch r, t = ch :: r /\ is_digit ch = false) ts ->
  all_some (map decode_term (map (fun ct => coef_text (fst ct) ++ snd ct) (combine cs ts))) =
  Some (combine (map coef_text cs) pls).
Proof.
  induction cs as [|c cs IH]; intros ts pls H Hts; [reflexivity|].
  destruct ts as [|t ts]; [inversion H; reflexivity|]. cbn [map all_some] in H.
  destruct (decode_lit t) as [pl|] eqn:Et; [|discriminate H].
  destruct (all_some (map decode_lit ts)) as [pls'|] eqn:Ets; [|discriminate H]. inversion H; subst pls.
  inversion Hts as [|? ? Ht Hts']; subst.
  cbn [combine map fst snd all_some]. unfold decode_term at 1.
  rewrite span_digits_app by (try apply coef_text_digits; exact Ht). rewrite Et.
  rewrite (IH ts pls' Ets Hts'). reflexivity.
Qed.

Lemma clause_lrow_literals names c r : latex_names_decodable names = true ->
  clause_lrow names c = Some r ->
  exists lr, clause_litrow names c = Some lr /\ decode_lrow r = Some lr.
Proof.
  intros Hn H. unfold clause_lrow, clause_litrow in *. destruct c as [|l c].
  - inversion H. exists LSquare. split; reflexivity.
  - destruct (all_some (map (lit_token names) (l :: c))) as [ts|] eqn:E; [|discriminate H].
    inversion H; subst r. destruct (decode_lits names Hn (l :: c) ts E) as (pls & E1 & E2 & _).
    exists (LClause pls). rewrite E1. cbn [decode_lrow]. rewrite E2. split; reflexivity.
Qed.

Lemma constraint_lrow_literals names c r : latex_names_decodable names = true ->
  constraint_lrow names c = Some r ->
  exists lr, constraint_litrow names c = Some lr /\ decode_lrow r = Some lr.
Proof.
  intros Hn H. unfold constraint_lrow, constraint_litrow in *.
  rewrite <- (map_map snd (lit_token names)) in H. rewrite <- (map_map snd (lit_name names)).
  destruct (all_some (map (lit_token names) (map snd (pb_terms c)))) as [ts|] eqn:E; [|discriminate H].
  inversion H; subst r. destruct (decode_lits names Hn _ ts E) as (pls & E1 & E2 & E3).
  rewrite E1. cbn [option_map]. eexists. split; [reflexivity|].
  cbn [decode_lrow]. rewrite (decode_terms _ ts pls E2 E3). cbn [option_map].
  rewrite map_map. reflexivity.
Qed.

Lemma all_some_decode {A B C} (f : A -> option B) (g : A -> option C) (d : B -> option C) :
  (forall x y, f x = Some y -> exists z, g x = Some z /\ d y = Some z) ->
  forall l ys, all_some (map f l) = Some ys ->
  exists zs, all_some (map g l) = Some zs /\ map d ys = map Some zs.
Proof.
  intros Hf. induction l as [|x l IH]; intros ys H.
  - inversion H. exists []. split; reflexivity.
  - cbn [map all_some] in H. destruct (f x) as [y|] eqn:Ex; [|discriminate H].
    destruct (all_some (map f l)) as [ys'|] eqn:El; [|discriminate H]. inversion H; subst ys.
    destruct (Hf x y Ex) as (z & Ez & Dz). destruct (IH ys' eq_refl) as (zs & Ezs & Dzs).
    exists (z :: zs). cbn [map all_some]. rewrite Ez, Ezs, Dz, Dzs. split; reflexivity.
Qed.

Lemma formula_lrows_literals names f rows : latex_names_decodable names = true ->
  formula_lrows names f = Some rows ->
  exists lrows, formula_litrows names f = Some lrows /\ map decode_lrow rows = map Some lrows.
Proof.
  intros Hn H. destruct f as [n F|n C]; cbn [formula_lrows formula_litrows] in *.
  - apply (all_some_decode (clause_lrow names) (clause_litrow names) decode_lrow); [|exact H].
    intros c r Hc. apply clause_lrow_literals; assumption.
  - apply (all_some_decode (constraint_lrow names) (constraint_litrow names) decode_lrow); [|exact H].
    intros c r Hc. apply constraint_lrow_literals; assumption.
Qed.

(* the rows of the LaTeX text, read as literals *)
Theorem latex_rows_literals_proved names split compact f t :
  latex_names_ok names = true -> latex_names_decodable names = true ->
  print_latex names split compact f = Some t ->
  exists rows lrows,
    rows_of_latex (is_opb f) t = (negb (nonempty rows), rows) /\
    formula_litrows names f = Some lrows /\
    map decode_lrow rows = map Some lrows.
Proof.
  intros Hn Hd H. destruct (latex_rows_proved names split compact f t Hn H) as (rows & E1 & E2).
  destruct (formula_lrows_literals names f rows Hd E1) as (lrows & F1 & F2).
  exists rows, lrows. repeat split; assumption.
Qed.

(* one literal row per clause / constraint, with as many literals as the clause / constraint has *)
Lemma formula_litrows_length names f lrows : formula_litrows names f = Some lrows ->
  length lrows = length (constraints f).
Proof.
  destruct f as [n F|n C]; cbn [formula_litrows constraints]; intros H.
  - rewrite map_length. symmetry. eapply all_some_length; eauto.
  - symmetry. eapply all_some_length; eauto.
Qed.
