(* Property C10, literal-range half, for the graph-problem families of C02.
   ONLY statements; every proof is `exact <lemma>` (lemmas in FamRange_C02.v).

   Reading guide.  A family is a function into the list of builder calls the Python generator makes
   (coq/Fam_*.v; [None] = the code raises ValueError) together with [<fam>_numvar], the number of
   variables the generator allocates.  [to_cnf l] is the clause list class CNF produces from the calls;
   [lits_in_range n F = true] says every literal of F is non-zero and has absolute value at most n.
   C10_<fam>_in_range: the CNF of the family mentions only variables 1..<fam>_numvar, for ALL parameters
   and graphs (hypotheses: [edges_ok n E = true], every edge (u,v) has 1 <= u < v <= n, or
   [graph_wf n E = true], what every cnfgen Graph satisfies — the same hypotheses as the T1 theorems
   of Prop_C02.v; most families need none).
   C10_<fam>_numvar: the closed formula for the number of variables.
   iso_nontrivial and ramlb (= ramlb_spec) are the DOCUMENTED variants of Fam_iso.v / Fam_subgraph.v;
   ramlb_as_is is the code as it is.  ramlb_spec needs 0 <= N (with N < 0 and k >= 1 the unit
   clause on the selector variable would be emitted while 1 + k*N + s*N may be below 1); the other
   statements carry no sign hypothesis on the orders. *)
From Coq Require Import ZArith List Bool.
From Cnfgen Require Import Sem Comb Linear IR C02Common
  Fam_tseitin Fam_coloring Fam_domset Fam_iso Fam_subgraph FamRange_Util FamRange_C02.
Import ListNotations.
Open Scope Z_scope.

(* ---------------- tseitin ---------------- *)
Theorem C10_tseitin_in_range : forall n E ch,
  lits_in_range (tseitin_numvar E) (to_cnf (tseitin_ir n E ch)) = true.
Proof. exact tseitin_in_range. Qed.
Print Assumptions C10_tseitin_in_range.
Theorem C10_tseitin_numvar : forall E, tseitin_numvar E = len E.
Proof. exact tseitin_numvar_doc. Qed.
Print Assumptions C10_tseitin_numvar.

(* ---------------- kcolor ---------------- *)
Theorem C10_kcolor_in_range : forall n E k fn l, edges_ok n E = true -> kcolor_ir n E k fn = Some l ->
  lits_in_range (kcolor_numvar n k) (to_cnf l) = true.
Proof. exact kcolor_in_range. Qed.
Print Assumptions C10_kcolor_in_range.
Theorem C10_kcolor_numvar : forall n k, kcolor_numvar n k = n * k.
Proof. exact kcolor_numvar_doc. Qed.
Print Assumptions C10_kcolor_numvar.

(* ---------------- ec ---------------- *)
Theorem C10_ec_in_range : forall n E l, ec_ir n E = Some l ->
  lits_in_range (ec_numvar E) (to_cnf l) = true.
Proof. exact ec_in_range. Qed.
Print Assumptions C10_ec_in_range.
Theorem C10_ec_numvar : forall E, ec_numvar E = len E.
Proof. exact ec_numvar_doc. Qed.
Print Assumptions C10_ec_numvar.

(* ---------------- domset (both encodings) ---------------- *)
Theorem C10_domset_in_range : forall n E d alt l, graph_wf n E = true -> domset_ir n E d alt = Some l ->
  lits_in_range (domset_numvar n d) (to_cnf l) = true.
Proof. exact domset_in_range. Qed.
Print Assumptions C10_domset_in_range.
Theorem C10_domset_numvar : forall n d, domset_numvar n d = n + n * d.
Proof. exact domset_numvar_doc. Qed.
Print Assumptions C10_domset_numvar.

(* ---------------- tiling ---------------- *)
Theorem C10_tiling_in_range : forall n E, edges_ok n E = true ->
  lits_in_range (tiling_numvar n) (to_cnf (tiling_ir n E)) = true.
Proof. exact tiling_in_range. Qed.
Print Assumptions C10_tiling_in_range.
Theorem C10_tiling_numvar : forall n, tiling_numvar n = n.
Proof. exact tiling_numvar_doc. Qed.
Print Assumptions C10_tiling_numvar.

(* ---------------- iso ---------------- *)
Theorem C10_iso_in_range : forall n1 E1 n2 E2,
  lits_in_range (iso_numvar n1 n2) (to_cnf (iso_ir n1 E1 n2 E2)) = true.
Proof. exact iso_in_range. Qed.
Print Assumptions C10_iso_in_range.
Theorem C10_iso_numvar : forall n1 n2, iso_numvar n1 n2 = n1 * n2.
Proof. exact iso_numvar_doc. Qed.
Print Assumptions C10_iso_numvar.

(* ---------------- auto ---------------- *)
Theorem C10_auto_in_range : forall n E,
  lits_in_range (iso_numvar n n) (to_cnf (auto_ir n E)) = true.
Proof. exact auto_in_range. Qed.
Print Assumptions C10_auto_in_range.
Theorem C10_auto_numvar : forall n, iso_numvar n n = n * n.
Proof. exact auto_numvar_doc. Qed.
Print Assumptions C10_auto_numvar.

(* ---------------- iso_nontrivial (documented variant) ---------------- *)
Theorem C10_iso_nontrivial_in_range : forall n1 E1 n2 E2,
  lits_in_range (iso_numvar n1 n2) (to_cnf (iso_nontrivial_ir n1 E1 n2 E2)) = true.
Proof. exact iso_nontrivial_in_range. Qed.
Print Assumptions C10_iso_nontrivial_in_range.
Theorem C10_iso_nontrivial_numvar : forall n1 n2, iso_numvar n1 n2 = n1 * n2.
Proof. exact iso_numvar_doc. Qed.
Print Assumptions C10_iso_nontrivial_numvar.

(* ---------------- subgraph ---------------- *)
Theorem C10_subgraph_in_range : forall N EG k EH ind sb,
  lits_in_range (subgraph_numvar N k) (to_cnf (subgraph_ir N EG k EH ind sb)) = true.
Proof. exact subgraph_in_range. Qed.
Print Assumptions C10_subgraph_in_range.
Theorem C10_subgraph_numvar : forall N k, subgraph_numvar N k = k * N.
Proof. exact subgraph_numvar_doc. Qed.
Print Assumptions C10_subgraph_numvar.

(* ---------------- kclique ---------------- *)
Theorem C10_kclique_in_range : forall N E k sb l, kclique_ir N E k sb = Some l ->
  lits_in_range (kclique_numvar N k) (to_cnf l) = true.
Proof. exact kclique_in_range. Qed.
Print Assumptions C10_kclique_in_range.
Theorem C10_kclique_numvar : forall N k, kclique_numvar N k = k * N.
Proof. exact kclique_numvar_doc. Qed.
Print Assumptions C10_kclique_numvar.

(* ---------------- kcliquebin ---------------- *)
Theorem C10_kcliquebin_in_range : forall N E k sb l, kcliquebin_ir N E k sb = Some l ->
  lits_in_range (kcliquebin_numvar N k) (to_cnf l) = true.
Proof. exact kcliquebin_in_range. Qed.
Print Assumptions C10_kcliquebin_in_range.
Theorem C10_kcliquebin_numvar : forall N k, kcliquebin_numvar N k = k * Z.log2_up N.
Proof. exact kcliquebin_numvar_doc. Qed.
Print Assumptions C10_kcliquebin_numvar.

(* ---------------- ramlb (documented variant ramlb_spec) ---------------- *)
Theorem C10_ramlb_in_range : forall N E k s sb l, 0 <= N -> ramlb_spec N E k s sb = Some l ->
  lits_in_range (ramlb_spec_numvar N k s) (to_cnf l) = true.
Proof. exact ramlb_spec_in_range. Qed.
Print Assumptions C10_ramlb_in_range.
Theorem C10_ramlb_numvar : forall N k s, ramlb_spec_numvar N k s = 1 + k * N + s * N.
Proof. exact ramlb_spec_numvar_doc. Qed.
Print Assumptions C10_ramlb_numvar.

(* ---------------- ramlb, the code as it is ---------------- *)
Theorem C10_ramlb_as_is_in_range : forall N E k s sb l, ramlb_as_is N E k s sb = Some l ->
  lits_in_range (ramlb_as_is_numvar N k s) (to_cnf l) = true.
Proof. exact ramlb_as_is_in_range. Qed.
Print Assumptions C10_ramlb_as_is_in_range.
Theorem C10_ramlb_as_is_numvar : forall N k s, ramlb_as_is_numvar N k s = 1 + k * N.
Proof. exact ramlb_as_is_numvar_doc. Qed.
Print Assumptions C10_ramlb_as_is_numvar.

(* ---------------- the hypotheses are satisfiable, the Some-branches are reached ---------------- *)
(* path 1-2-3, triangle 1-2-3, 4-cycle; every instance has at least one builder call, and the bound
   is attained (the largest variable mentioned is exactly numvar) for the instances listed last *)
Example C10_families_C02_nonvacuous :
  edges_ok 3 [(1,2);(2,3)] = true /\ graph_wf 3 [(1,2);(2,3)] = true /\
  graph_wf 3 [(1,2);(1,3);(2,3)] = true /\
  tseitin_ir 3 [(1,2);(2,3)] None <> [] /\
  (exists l, kcolor_ir 3 [(1,2);(2,3)] 2 true = Some l /\ l <> []) /\
  (exists l, ec_ir 4 [(1,2);(1,4);(2,3);(3,4)] = Some l /\ l <> []) /\
  (exists l, domset_ir 3 [(1,2);(2,3)] 1 false = Some l /\ l <> []) /\
  (exists l, domset_ir 3 [(1,2);(2,3)] 2 true = Some l /\ l <> []) /\
  tiling_ir 3 [(1,2);(2,3)] <> [] /\
  iso_ir 3 [(1,2);(2,3)] 3 [(1,3);(2,3)] <> [] /\
  auto_ir 3 [(1,2);(2,3)] <> [] /\
  iso_nontrivial_ir 3 [(1,2);(2,3)] 3 [(1,3);(2,3)] <> [] /\
  subgraph_ir 3 [(1,2);(2,3)] 2 [(1,2)] true false <> [] /\
  (exists l, kclique_ir 3 [(1,2);(1,3);(2,3)] 3 true = Some l /\ l <> []) /\
  (exists l, kcliquebin_ir 3 [(1,2);(1,3);(2,3)] 3 false = Some l /\ l <> []) /\
  (exists l, ramlb_spec 3 [(1,2);(2,3)] 2 2 false = Some l /\ l <> []) /\
  (exists l, ramlb_as_is 3 [(1,2);(2,3)] 2 2 true = Some l /\ l <> []) /\
  irs_max_var (tseitin_ir 3 [(1,2);(2,3)] None) = tseitin_numvar [(1,2);(2,3)] /\
  irs_max_var (iso_ir 3 [(1,2);(2,3)] 3 [(1,3);(2,3)]) = iso_numvar 3 3 /\
  irs_max_var (subgraph_ir 3 [(1,2);(2,3)] 2 [(1,2)] true false) = subgraph_numvar 3 2.
Proof.
  vm_compute.
  repeat split; try discriminate; try (eexists; split; [reflexivity|discriminate]).
Qed.
