(* Fam_php_Facts.v — the pigeonhole families encode exactly their principle (C01). *)
From Coq Require Import ZArith List Bool Lia ZifyBool.
From Cnfgen Require Import Sem Comb Linear IR SemFacts LinearFacts IRFacts FamTab FamTabFacts Fam_php Spec_C01.
Import ListNotations.
Open Scope Z_scope.

Lemma and_iff_compat {A B C D : Prop} : (A <-> C) -> (B <-> D) -> (A /\ B <-> C /\ D).
Proof. tauto. Qed.

(* ================= PigeonholePrinciple ================= *)

Lemma php_ok m n f o : 0 <= n -> irs_ok (php_ir m n f o) = true.
Proof.
  intros Hn. unfold php_ir. rewrite !irs_ok_app.
  rewrite cm_complete_ok, cm_injective_ok by lia.
  destruct o, f; rewrite ?cm_surjective_ok, ?cm_functional_ok by lia; reflexivity.
Qed.

Theorem php_T1 a m n f o : 0 <= n ->
  (irs_hold a (php_ir m n f o) = true <-> placement m n f o (php_R a n)).
Proof.
  intros Hn. unfold php_ir, placement, php_R. rewrite !irs_hold_app_iff.
  rewrite cm_complete_sem, cm_injective_sem by lia.
  apply and_iff_compat; [reflexivity|]. apply and_iff_compat; [|apply and_iff_compat; [reflexivity|]].
  - destruct o.
    + rewrite cm_surjective_sem by lia. split; [intros H _; exact H|intros H; exact (H eq_refl)].
    + rewrite irs_hold_nil. split; [intros _; discriminate|reflexivity].
  - destruct f.
    + rewrite cm_functional_sem by lia. split; [intros H _; exact H|intros H; exact (H eq_refl)].
    + rewrite irs_hold_nil. split; [intros _; discriminate|reflexivity].
Qed.

(* the assignment describing a given relation *)
Definition php_enc (n : Z) (R : Z -> Z -> bool) : Z -> bool :=
  fun v => R ((v - 1) / n + 1) ((v - 1) mod n + 1).
Lemma php_enc_spec n R i j : 1 <= j <= n -> php_R (php_enc n R) n i j = R i j.
Proof.
  intros Hj. unfold php_R, php_enc. destruct (bvar_inv 0 n i j Hj) as [A B].
  replace (bvar 0 n i j - 1) with (bvar 0 n i j - 0 - 1) by lia. now rewrite A, B.
Qed.

Lemma placement_ext m n f o R R' : (forall i j, 1 <= i <= m -> 1 <= j <= n -> R i j = R' i j) ->
  placement m n f o R -> placement m n f o R'.
Proof.
  intros E (H1 & H2 & H3 & H4). repeat split.
  - intros i Hi. destruct (H1 i Hi) as [j [Hj Hr]]. exists j. split; auto. now rewrite <- E.
  - intros Ho j Hj. destruct (H2 Ho j Hj) as [i [Hi Hr]]. exists i. split; auto. now rewrite <- E.
  - intros j i1 i2 Hj Hi1 Hi2 A B. apply (H3 j); auto; now rewrite E.
  - intros Hf i j1 j2 Hi Hj1 Hj2 A B. apply (H4 Hf i); auto; now rewrite E.
Qed.

Theorem php_T2 m n f o R : 0 <= n -> placement m n f o R ->
  exists a, irs_hold a (php_ir m n f o) = true /\
            forall i j, 1 <= i <= m -> 1 <= j <= n -> php_R a n i j = R i j.
Proof.
  intros Hn HP. exists (php_enc n R). split.
  - apply php_T1; [assumption|]. apply (placement_ext m n f o R); [|assumption].
    intros i j _ Hj. symmetry. now apply php_enc_spec.
  - intros i j _ Hj. now apply php_enc_spec.
Qed.

Theorem php_unique a b m n : 0 <= m -> 0 <= n ->
  (forall i j, 1 <= i <= m -> 1 <= j <= n -> php_R a n i j = php_R b n i j) ->
  forall v, 1 <= v <= php_numvar m n -> a v = b v.
Proof.
  intros Hm Hn H v Hv. unfold php_numvar in Hv.
  destruct (bvar_surj 0 m n v) as (i & j & Hi & Hj & ->); [lia|assumption|assumption|]. now apply H.
Qed.

Corollary php_sat_iff_exists m n f o : 0 <= n ->
  ((exists a, irs_hold a (php_ir m n f o) = true) <-> exists R, placement m n f o R).
Proof.
  intros Hn. split.
  - intros [a Ha]. exists (php_R a n). now apply php_T1.
  - intros [R HR]. destruct (php_T2 m n f o R Hn HR) as [a [Ha _]]. eauto.
Qed.

(* ---------- the pigeonhole principle itself ---------- *)
Lemma first_such_spec (p : Z -> bool) lo hi : (exists x, lo <= x < hi /\ p x = true) ->
  lo <= first_such p lo hi < hi /\ p (first_such p lo hi) = true.
Proof.
  intros [x [Hx Px]]. unfold first_such. destruct (find p (zrange lo hi)) as [y|] eqn:E.
  - apply find_some in E as [Hy Py]. apply In_zrange in Hy. auto.
  - exfalso. pose proof (find_none _ _ E x (proj2 (In_zrange x lo hi) Hx)). congruence.
Qed.

(* an injection from 1..m into 1..n forces m <= n *)
Lemma pigeonhole_core (h : Z -> Z) m n : 0 <= m -> 0 <= n ->
  (forall i, 1 <= i <= m -> 1 <= h i <= n) ->
  (forall i1 i2, 1 <= i1 <= m -> 1 <= i2 <= m -> h i1 = h i2 -> i1 = i2) -> m <= n.
Proof.
  intros Hm Hn Hr Hinj.
  assert (NoDup (map h (upto m))) as Hnd.
  { apply NoDup_map_inj_in; [|apply NoDup_upto]. intros x y Hx Hy. apply In_upto in Hx, Hy. now apply Hinj. }
  assert (incl (map h (upto m)) (upto n)) as Hincl.
  { intros y Hy. apply in_map_iff in Hy as [x [<- Hx]]. apply In_upto in Hx. apply In_upto. auto. }
  pose proof (NoDup_incl_length Hnd Hincl) as Hlen. rewrite map_length in Hlen.
  pose proof (len_upto m Hm) as E1. pose proof (len_upto n Hn) as E2. unfold len in E1, E2. lia.
Qed.

Theorem php_sat_iff m n f o : 0 <= m -> 0 <= n ->
  ((exists a, irs_hold a (php_ir m n f o) = true) <-> php_criterion m n f o).
Proof.
  intros Hm Hn. rewrite php_sat_iff_exists by assumption. unfold php_criterion. split.
  - intros [R (H1 & H2 & H3 & H4)].
    set (h := fun i => first_such (R i) 1 (n + 1)).
    assert (Hh : forall i, 1 <= i <= m -> 1 <= h i <= n /\ R i (h i) = true).
    { intros i Hi. destruct (H1 i Hi) as [j [Hj Hr]].
      destruct (first_such_spec (R i) 1 (n + 1)) as [A B]; [exists j; split; [lia|assumption]|]. unfold h. split; [lia|assumption]. }
    split.
    + apply (pigeonhole_core h); [assumption|assumption|intros i Hi; apply Hh, Hi|].
      intros i1 i2 Hi1 Hi2 E. destruct (Hh i1 Hi1) as [A1 B1]. destruct (Hh i2 Hi2) as [A2 B2].
      apply (H3 (h i1)); auto. now rewrite E.
    + intros Ho. specialize (H2 Ho). destruct f.
      * specialize (H4 eq_refl).
        set (g := fun j => first_such (fun i => R i j) 1 (m + 1)).
        assert (Hg : forall j, 1 <= j <= n -> 1 <= g j <= m /\ R (g j) j = true).
        { intros j Hj. destruct (H2 j Hj) as [i [Hi Hr]].
          destruct (first_such_spec (fun i => R i j) 1 (m + 1)) as [A B]; [exists i; split; [lia|assumption]|].
          unfold g. split; [lia|assumption]. }
        apply (pigeonhole_core g); [assumption|assumption|intros j Hj; apply Hg, Hj|].
        intros j1 j2 Hj1 Hj2 E. destruct (Hg j1 Hj1) as [A1 B1]. destruct (Hg j2 Hj2) as [A2 B2].
        apply (H4 (g j1)); auto. now rewrite E.
      * destruct (Z.eq_dec n 0) as [->|Hne]; [now right|left].
        destruct (H2 1 ltac:(lia)) as [i [Hi _]]. lia.
  - intros [Hmn Hcrit]. destruct o, f.
    + (* matching: m = n, identity *)
      specialize (Hcrit eq_refl). exists (fun i j => i =? j). repeat split.
      * intros i Hi. exists i. split; lia.
      * intros _ j Hj. exists j. split; lia.
      * intros; lia.
      * intros; lia.
    + (* onto: pigeon m also takes all the holes beyond m *)
      specialize (Hcrit eq_refl). exists (fun i j => (i =? j) || ((i =? m) && (m <=? j))). repeat split.
      * intros i Hi. exists i. split; lia.
      * intros _ j Hj. destruct (Z.le_gt_cases j m); [exists j; split; lia|exists m; split; lia].
      * intros; lia.
      * discriminate.
    + exists (fun i j => i =? j). repeat split.
      * intros i Hi. exists i. split; lia.
      * discriminate.
      * intros; lia.
      * intros; lia.
    + exists (fun i j => i =? j). repeat split.
      * intros i Hi. exists i. split; lia.
      * discriminate.
      * intros; lia.
      * discriminate.
Qed.

(* ================= GraphPigeonholePrinciple ================= *)

Lemma bip_wf_rows adj R : bip_wf adj R = true ->
  forall vs, In vs adj -> NoDup vs /\ forall v, In v vs -> 1 <= v <= R.
Proof.
  unfold bip_wf. rewrite forallb_forall. intros H vs Hvs. specialize (H vs Hvs).
  apply andb_true_iff in H as [H1 H2]. split; [apply strictly_increasing_spec, H1|].
  rewrite forallb_forall in H2. intros v Hv. specialize (H2 v Hv). lia.
Qed.
Lemma bip_index_NoDup adj R : bip_wf adj R = true -> NoDup (bip_index adj).
Proof. intros H. apply NoDup_bip_rows. intros vs Hvs. apply (bip_wf_rows adj R H vs Hvs). Qed.

Lemma gphp_tab_pos adj e : In e (gphp_tab adj) -> 0 < snd e.
Proof. apply number_pos. lia. Qed.
Lemma gphp_tab_NoDup adj R : bip_wf adj R = true -> NoDup (map fst (gphp_tab adj)).
Proof. intros H. unfold gphp_tab. rewrite number_fst. now apply (bip_index_NoDup adj R). Qed.

Lemma gphp_ok adj R f o : irs_ok (gphp_ir adj R f o) = true.
Proof.
  unfold gphp_ir. cbv zeta. rewrite !irs_ok_app.
  rewrite sm_complete_ok, sm_injective_ok by apply gphp_tab_pos.
  destruct o, f; rewrite ?sm_surjective_ok, ?sm_functional_ok by apply gphp_tab_pos; reflexivity.
Qed.

Theorem gphp_T1 a adj R f o : bip_wf adj R = true ->
  (irs_hold a (gphp_ir adj R f o) = true <-> graph_placement (len adj) R f o (gphp_sel a adj)).
Proof.
  intros Hwf. pose proof (gphp_tab_NoDup adj R Hwf) as Hnd.
  unfold gphp_ir, graph_placement, gphp_sel. cbv zeta. rewrite !irs_hold_app_iff.
  rewrite sm_complete_sem by apply gphp_tab_pos.
  rewrite sm_injective_sem by (try apply gphp_tab_pos; assumption).
  apply and_iff_compat; [reflexivity|]. apply and_iff_compat; [|apply and_iff_compat; [reflexivity|]].
  - destruct o.
    + rewrite sm_surjective_sem by apply gphp_tab_pos. split; [intros H _; exact H|intros H; exact (H eq_refl)].
    + rewrite irs_hold_nil. split; [intros _; discriminate|reflexivity].
  - destruct f.
    + rewrite sm_functional_sem by (try apply gphp_tab_pos; assumption). split; [intros H _; exact H|intros H; exact (H eq_refl)].
    + rewrite irs_hold_nil. split; [intros _; discriminate|reflexivity].
Qed.

(* the chosen pairs are edges of the graph, without repetition *)
Lemma gphp_sel_edges a adj : incl (gphp_sel a adj) (bip_index adj).
Proof.
  intros x Hx. apply In_sel in Hx as [v [Hv _]]. unfold gphp_tab in Hv.
  rewrite <- (number_fst (bip_index adj) 0). change x with (fst (x, v)). now apply in_map.
Qed.
Lemma gphp_sel_NoDup a adj R : bip_wf adj R = true -> NoDup (gphp_sel a adj).
Proof. intros H. apply sel_NoDup. now apply (gphp_tab_NoDup adj R). Qed.

(* T2: every set of edges (given by its characteristic function) is described by an assignment *)
Theorem gphp_T2 adj R f o (obj : Z * Z -> bool) : bip_wf adj R = true ->
  graph_placement (len adj) R f o (filter obj (bip_index adj)) ->
  exists a, irs_hold a (gphp_ir adj R f o) = true /\ gphp_sel a adj = filter obj (bip_index adj).
Proof.
  intros Hwf HP. exists (enc (gphp_tab adj) obj).
  assert (E : gphp_sel (enc (gphp_tab adj) obj) adj = filter obj (bip_index adj)).
  { unfold gphp_sel. rewrite sel_enc by apply number_NoDup_snd. unfold gphp_tab. now rewrite number_fst. }
  split; [|exact E]. apply gphp_T1; [assumption|]. now rewrite E.
Qed.

Theorem gphp_unique a b adj R : bip_wf adj R = true ->
  (forall e, In e (gphp_sel a adj) <-> In e (gphp_sel b adj)) ->
  forall v, 1 <= v <= gphp_numvar adj -> a v = b v.
Proof.
  intros Hwf H v Hv. unfold gphp_numvar in Hv.
  destruct (number_surj (bip_index adj) 0 v ltac:(lia)) as [x Hx].
  apply (sel_inj a b (gphp_tab adj) (gphp_tab_NoDup adj R Hwf) H (x, v) Hx).
Qed.

Corollary gphp_sat_iff_exists adj R f o : bip_wf adj R = true ->
  ((exists a, irs_hold a (gphp_ir adj R f o) = true) <->
   exists obj, graph_placement (len adj) R f o (filter obj (bip_index adj))).
Proof.
  intros Hwf. split.
  - intros [a Ha]. apply (gphp_T1 a adj R f o Hwf) in Ha.
    exists (fun e => existsb (fun e' => (fst e =? fst e') && (snd e =? snd e')) (gphp_sel a adj)).
    assert (E : forall e, In e (filter (fun e => existsb (fun e' => (fst e =? fst e') && (snd e =? snd e')) (gphp_sel a adj)) (bip_index adj))
                <-> In e (gphp_sel a adj)).
    { intros e. rewrite filter_In, existsb_exists. split.
      - intros [_ [e' [He' Heq]]]. destruct e, e'. cbn in Heq. assert (z = z1) by lia. assert (z0 = z2) by lia. now subst.
      - intros He. split; [now apply gphp_sel_edges in He|]. exists e. split; [assumption|]. destruct e. cbn. lia. }
    destruct Ha as (H1 & H2 & H3 & H4). repeat split.
    + intros u Hu. destruct (H1 u Hu) as [v Hv]. exists v. now apply E.
    + intros Ho v Hv. destruct (H2 Ho v Hv) as [u Hu]. exists u. now apply E.
    + intros v u1 u2 Hv A B. apply E in A, B. eauto.
    + intros Hf u v1 v2 Hu A B. apply E in A, B. eauto.
  - intros [obj Hobj]. destruct (gphp_T2 adj R f o obj Hwf Hobj) as [a [Ha _]]. eauto.
Qed.

(* ================= BinaryPigeonholePrinciple ================= *)

Lemma mod_pow2_succ j k : 0 <= j -> 0 <= k ->
  j mod 2 ^ (k + 1) = (if Z.testbit j k then 2 ^ k else 0) + j mod 2 ^ k.
Proof.
  intros Hj Hk. rewrite Z.add_1_r, Z.pow_succ_r by assumption.
  assert (0 < 2 ^ k) as HP by (apply Z.pow_pos_nonneg; lia).
  set (P := 2 ^ k) in *.
  pose proof (Z.div_mod j P ltac:(lia)) as E. pose proof (Z.mod_pos_bound j P HP) as B.
  pose proof (Z.div_mod (j / P) 2 ltac:(lia)) as E2. pose proof (Z.mod_pos_bound (j / P) 2 ltac:(lia)) as B2.
  destruct (Z.testbit j k) eqn:T.
  - apply Z.testbit_true in T; [|assumption]. fold P in T. symmetry.
    apply (Z.mod_unique j (2 * P) (j / P / 2) (P + j mod P)); [lia|].
    rewrite T in E2. rewrite E2 in E at 1. lia.
  - apply Z.testbit_false in T; [|assumption]. fold P in T. symmetry.
    apply (Z.mod_unique j (2 * P) (j / P / 2) (0 + j mod P)); [lia|].
    rewrite T in E2. rewrite E2 in E at 1. lia.
Qed.

Lemma bits_value_range a K i k : 0 <= bphp_bits_value a K i k < 2 ^ Z.of_nat k.
Proof.
  induction k as [|k IH]; [cbn; lia|]. cbn [bphp_bits_value].
  rewrite Nat2Z.inj_succ, Z.pow_succ_r by lia.
  assert (0 < 2 ^ Z.of_nat k) by (apply Z.pow_pos_nonneg; lia).
  destruct (a (bitvar K i (Z.of_nat k))); lia.
Qed.

Lemma bitvar_pos K i b : 1 <= i -> 0 <= b < K -> 0 < bitvar K i b.
Proof. intros Hi Hb. unfold bitvar. assert (0 <= (i - 1) * K) by (apply Z.mul_nonneg_nonneg; lia). lia. Qed.

Lemma forbid_from_sem a K i j : 1 <= i -> 0 <= j -> forall k, Z.of_nat k <= K ->
  clause_sat a (bphp_forbid_from K i j k) = negb (bphp_bits_value a K i k =? j mod 2 ^ Z.of_nat k).
Proof.
  intros Hi Hj. induction k as [|k IH]; intros Hk.
  - cbn. rewrite Z.mod_1_r. reflexivity.
  - cbn [bphp_forbid_from bphp_bits_value]. rewrite clause_sat_cons, IH by lia.
    rewrite Nat2Z.inj_succ, <- Z.add_1_r. rewrite (mod_pow2_succ j (Z.of_nat k)) by lia.
    pose proof (bits_value_range a K i k) as B.
    assert (0 < 2 ^ Z.of_nat k) as HP by (apply Z.pow_pos_nonneg; lia).
    pose proof (Z.mod_pos_bound j (2 ^ Z.of_nat k) HP) as Bj.
    assert (0 < bitvar K i (Z.of_nat k)) as Hv by (apply bitvar_pos; lia).
    destruct (Z.testbit j (Z.of_nat k)); [rewrite lit_true_neg by assumption|rewrite lit_true_pos by assumption];
      destruct (a (bitvar K i (Z.of_nat k))); cbn [negb orb]; lia.
Qed.

Lemma forbid_sem a K i j : 0 <= K -> 1 <= i -> 0 <= j < 2 ^ K ->
  clause_sat a (bphp_forbid K i j) = negb (bphp_bits_value a K i (Z.to_nat K) =? j).
Proof.
  intros HK Hi Hj. unfold bphp_forbid. rewrite forbid_from_sem by lia. rewrite Z2Nat.id by assumption.
  now rewrite Z.mod_small by assumption.
Qed.

Lemma forbid_from_ok K i j : 1 <= i -> forall k, Z.of_nat k <= K -> lits_ok (bphp_forbid_from K i j k) = true.
Proof.
  intros Hi. induction k as [|k IH]; intros Hk; [reflexivity|]. cbn [bphp_forbid_from lits_ok forallb].
  fold (lits_ok (bphp_forbid_from K i j k)). rewrite IH by lia. rewrite andb_true_r. apply nonzero_spec.
  assert (0 < bitvar K i (Z.of_nat k)) by (apply bitvar_pos; lia). destruct (Z.testbit j (Z.of_nat k)); lia.
Qed.
Lemma forbid_ok K i j : 0 <= K -> 1 <= i -> lits_ok (bphp_forbid K i j) = true.
Proof. intros HK Hi. unfold bphp_forbid. apply forbid_from_ok; lia. Qed.

Lemma bphp_bits_spec n : 1 <= n -> 0 <= bphp_bits n /\ n <= 2 ^ bphp_bits n.
Proof.
  intros Hn. unfold bphp_bits. split; [apply Z.log2_up_nonneg|].
  destruct (Z.eq_dec n 1) as [->|Hne]; [cbn; lia|]. apply Z.log2_up_spec. lia.
Qed.

Lemma bphp_ok m n : 1 <= n -> irs_ok (bphp_ir m n) = true.
Proof.
  intros Hn. destruct (bphp_bits_spec n Hn) as [HK _]. unfold bphp_ir. cbv zeta. apply irs_ok_app_intro.
  - apply irs_ok_flat_map. intros i Hi. apply In_upto in Hi. apply irs_ok_map. intros j _. apply forbid_ok; lia.
  - apply irs_ok_flat_map. intros y _. apply irs_ok_map. intros [x1 x2] Hx. apply In_pairs_upto in Hx.
    unfold ir_ok. cbn [ir_lits fst snd]. rewrite lits_ok_app, !forbid_ok by lia. reflexivity.
Qed.

Theorem bphp_T1 a m n : 1 <= n ->
  (irs_hold a (bphp_ir m n) = true <-> binary_placement m n (bphp_hole a n)).
Proof.
  intros Hn. destruct (bphp_bits_spec n Hn) as [HK Hpow].
  assert (Hrange : forall i, 0 <= bphp_hole a n i < 2 ^ bphp_bits n).
  { intros i. unfold bphp_hole. pose proof (bits_value_range a (bphp_bits n) i (Z.to_nat (bphp_bits n))) as B.
    rewrite Z2Nat.id in B by assumption. exact B. }
  unfold bphp_ir, binary_placement. cbv zeta. rewrite irs_hold_app_iff, !irs_hold_flat_map.
  split.
  - intros [H1 H2].
    assert (Hlt : forall i, 1 <= i <= m -> 0 <= bphp_hole a n i < n).
    { intros i Hi. specialize (H1 i (proj2 (In_upto i m) Hi)). rewrite irs_hold_map in H1.
      destruct (Z.lt_ge_cases (bphp_hole a n i) n) as [Hl|Hge]; [specialize (Hrange i); lia|exfalso].
      specialize (H1 (bphp_hole a n i)). cbn [ir_holds] in H1.
      rewrite forbid_sem in H1 by (try apply Hrange; lia). fold (bphp_hole a n i) in H1.
      rewrite Z.eqb_refl in H1. cbn in H1. assert (false = true) as F; [|discriminate]. apply H1.
      apply In_zrange. specialize (Hrange i). lia. }
    split; [exact Hlt|]. intros i1 i2 Hi1 Hi2 E.
    destruct (Z.lt_trichotomy i1 i2) as [Hlt12|[Heq|Hgt]]; [exfalso|assumption|exfalso].
    + specialize (H2 (bphp_hole a n i1) (proj2 (In_zrange _ 0 n) (Hlt i1 Hi1))). rewrite irs_hold_map in H2.
      specialize (H2 (i1, i2) (proj2 (In_pairs_upto m i1 i2) ltac:(lia))). cbn [ir_holds fst snd] in H2.
      rewrite clause_sat_app, !forbid_sem in H2 by (try lia; specialize (Hlt i1 Hi1); lia).
      fold (bphp_hole a n i1) in H2. fold (bphp_hole a n i2) in H2. rewrite <- E, Z.eqb_refl in H2. discriminate.
    + specialize (H2 (bphp_hole a n i1) (proj2 (In_zrange _ 0 n) (Hlt i1 Hi1))). rewrite irs_hold_map in H2.
      specialize (H2 (i2, i1) (proj2 (In_pairs_upto m i2 i1) ltac:(lia))). cbn [ir_holds fst snd] in H2.
      rewrite clause_sat_app, !forbid_sem in H2 by (try lia; specialize (Hlt i1 Hi1); lia).
      fold (bphp_hole a n i1) in H2. fold (bphp_hole a n i2) in H2. rewrite <- E, Z.eqb_refl in H2. discriminate.
  - intros [Hlt Hinj]. split.
    + intros i Hi. apply In_upto in Hi. rewrite irs_hold_map. intros j Hj. apply In_zrange in Hj. cbn [ir_holds].
      rewrite forbid_sem by lia. fold (bphp_hole a n i). specialize (Hlt i Hi). lia.
    + intros y Hy. apply In_zrange in Hy. rewrite irs_hold_map. intros [x1 x2] Hx. apply In_pairs_upto in Hx.
      cbn [ir_holds fst snd]. rewrite clause_sat_app, !forbid_sem by lia.
      fold (bphp_hole a n x1). fold (bphp_hole a n x2).
      destruct (Z.eqb_spec (bphp_hole a n x1) y) as [E1|]; [|reflexivity].
      destruct (Z.eqb_spec (bphp_hole a n x2) y) as [E2|]; [|reflexivity].
      exfalso. assert (x1 = x2) by (apply Hinj; lia). lia.
Qed.

(* ================= RelativizedPigeonholePrinciple ================= *)

Lemma rp_pos r u v : 0 <= r -> 1 <= u -> 1 <= v -> 0 < rp r u v.
Proof. intros. unfold rp. apply bvar_pos; lia. Qed.
Lemma rq_pos m r n v w : 0 <= m -> 0 <= r -> 0 <= n -> 1 <= v -> 1 <= w -> 0 < rq m r n v w.
Proof. intros. unfold rq. apply bvar_pos; first [lia | apply Z.mul_nonneg_nonneg; lia]. Qed.
Lemma rr_pos m r n v : 0 <= m -> 0 <= r -> 0 <= n -> 1 <= v -> 0 < rr m r n v.
Proof.
  intros. unfold rr. pose proof (Z.mul_nonneg_nonneg m r). pose proof (Z.mul_nonneg_nonneg r n). lia.
Qed.

Lemma clause2 a x y : clause_sat a [x; y] = lit_true a x || lit_true a y.
Proof. unfold clause_sat. cbn [existsb]. now rewrite orb_false_r. Qed.
Lemma clause4 a x y z w : clause_sat a [x; y; z; w] = lit_true a x || (lit_true a y || (lit_true a z || lit_true a w)).
Proof. unfold clause_sat. cbn [existsb]. now rewrite orb_false_r. Qed.

Lemma rphp_ok m r n : 0 <= m -> 0 <= r -> 0 <= n -> irs_ok (rphp_ir m r n) = true.
Proof.
  intros Hm Hr Hn. unfold rphp_ir. assert (0 <= m * r) as Hmr by (apply Z.mul_nonneg_nonneg; lia).
  repeat apply irs_ok_app_intro.
  - apply cm_complete_ok; lia.
  - apply cm_injective_ok; lia.
  - apply irs_ok_flat_map. intros v Hv. apply In_upto in Hv. apply irs_ok_map. intros u Hu. apply In_upto in Hu.
    apply lits_ok_forall. pose proof (rp_pos r u v Hr ltac:(lia) ltac:(lia)). pose proof (rr_pos m r n v Hm Hr Hn ltac:(lia)).
    intros l [<-|[<-|[]]]; lia.
  - apply irs_ok_map. intros v Hv. apply In_upto in Hv. unfold ir_ok. cbn [ir_lits lits_ok forallb].
    pose proof (rr_pos m r n v Hm Hr Hn ltac:(lia)). apply andb_true_iff. split; [apply nonzero_spec; lia|].
    apply (lits_ok_map_pos (bvar (m * r) n v)). apply blk_row_pos; lia.
  - apply irs_ok_flat_map. intros w Hw. apply In_upto in Hw. apply irs_ok_map. intros [v1 v2] Hv. apply In_pairs_upto in Hv.
    apply lits_ok_forall. cbn [fst snd].
    pose proof (rr_pos m r n v1 Hm Hr Hn ltac:(lia)). pose proof (rr_pos m r n v2 Hm Hr Hn ltac:(lia)).
    pose proof (rq_pos m r n v1 w Hm Hr Hn ltac:(lia) ltac:(lia)). pose proof (rq_pos m r n v2 w Hm Hr Hn ltac:(lia) ltac:(lia)).
    intros l [<-|[<-|[<-|[<-|[]]]]]; lia.
Qed.

Theorem rphp_T1 a m r n : 0 <= m -> 0 <= r -> 0 <= n ->
  (irs_hold a (rphp_ir m r n) = true <->
   relativized_placement m r n (rphp_P a r) (rphp_Q a m r n) (rphp_S a m r n)).
Proof.
  intros Hm Hr Hn. assert (0 <= m * r) as Hmr by (apply Z.mul_nonneg_nonneg; lia).
  unfold rphp_ir, relativized_placement, rphp_P, rphp_Q, rphp_S. rewrite !irs_hold_app_iff.
  rewrite cm_complete_sem, cm_injective_sem by lia. fold (rp r).
  apply and_iff_compat; [reflexivity|]. apply and_iff_compat; [reflexivity|].
  apply and_iff_compat; [|apply and_iff_compat].
  - rewrite irs_hold_flat_map. split.
    + intros H u v Hu Hv Pt. specialize (H v (proj2 (In_upto v r) Hv)). rewrite irs_hold_map in H.
      specialize (H u (proj2 (In_upto u m) Hu)). cbn [ir_holds] in H. rewrite clause2 in H.
      rewrite lit_true_neg, lit_true_pos in H by (try apply rp_pos; try apply rr_pos; lia). rewrite Pt in H. exact H.
    + intros H v Hv. apply In_upto in Hv. rewrite irs_hold_map. intros u Hu. apply In_upto in Hu. cbn [ir_holds].
      rewrite clause2, lit_true_neg, lit_true_pos by (try apply rp_pos; try apply rr_pos; lia).
      destruct (a (rp r u v)) eqn:Pt; [|reflexivity]. cbn. now apply (H u v).
  - rewrite irs_hold_map. split.
    + intros H v Hv St. specialize (H v (proj2 (In_upto v r) Hv)). cbn [ir_holds] in H.
      rewrite clause_sat_cons, lit_true_neg, St in H by (apply rr_pos; lia). cbn [negb orb] in H.
      unfold blk_row in H. apply clause_sat_map_pos in H; [|apply blk_row_pos; lia].
      destruct H as [w [Hw Qt]]. apply In_upto in Hw. eauto.
    + intros H v Hv. apply In_upto in Hv. cbn [ir_holds]. rewrite clause_sat_cons, lit_true_neg by (apply rr_pos; lia).
      destruct (a (rr m r n v)) eqn:St; [|reflexivity]. cbn [negb orb]. unfold blk_row.
      apply clause_sat_map_pos; [apply blk_row_pos; lia|]. destruct (H v Hv St) as [w [Hw Qt]].
      exists w. split; [now apply In_upto|exact Qt].
  - rewrite irs_hold_flat_map.
    assert (Hcl : forall w v1 v2, 1 <= w <= n -> 1 <= v1 -> 1 <= v2 ->
              clause_sat a [- rr m r n v1; - rr m r n v2; - rq m r n v1 w; - rq m r n v2 w] =
              negb (a (rr m r n v1) && a (rr m r n v2) && a (rq m r n v1 w) && a (rq m r n v2 w))).
    { intros w v1 v2 Hw H1 H2. rewrite clause4, !lit_true_neg by (try apply rr_pos; try apply rq_pos; lia).
      destruct (a (rr m r n v1)), (a (rr m r n v2)), (a (rq m r n v1 w)), (a (rq m r n v2 w)); reflexivity. }
    split.
    + intros H w v1 v2 Hw Hv1 Hv2 S1 S2 Q1 Q2. specialize (H w (proj2 (In_upto w n) Hw)). rewrite irs_hold_map in H.
      destruct (Z.lt_trichotomy v1 v2) as [Hlt|[Heq|Hgt]]; [exfalso|assumption|exfalso].
      * specialize (H (v1, v2) (proj2 (In_pairs_upto r v1 v2) ltac:(lia))). cbn [ir_holds fst snd] in H.
        rewrite Hcl, S1, S2, Q1, Q2 in H by lia. discriminate.
      * specialize (H (v2, v1) (proj2 (In_pairs_upto r v2 v1) ltac:(lia))). cbn [ir_holds fst snd] in H.
        rewrite Hcl, S1, S2, Q1, Q2 in H by lia. discriminate.
    + intros H w Hw. apply In_upto in Hw. rewrite irs_hold_map. intros [v1 v2] Hv. apply In_pairs_upto in Hv.
      cbn [ir_holds fst snd]. rewrite Hcl by lia.
      destruct (a (rr m r n v1)) eqn:S1; [|reflexivity]. destruct (a (rr m r n v2)) eqn:S2; [|reflexivity].
      destruct (a (rq m r n v1 w)) eqn:Q1; [|reflexivity]. destruct (a (rq m r n v2 w)) eqn:Q2; [|reflexivity].
      exfalso. assert (v1 = v2) by (apply (H w); auto; lia). lia.
Qed.

(* ---------- bphp: T2 ---------- *)
Definition bphp_enc (n : Z) (h : Z -> Z) : Z -> bool :=
  fun v => let K := bphp_bits n in Z.testbit (h ((v - 1) / K + 1)) (K - 1 - (v - 1) mod K).

Lemma bphp_enc_bit n h i b : 0 <= b < bphp_bits n ->
  bphp_enc n h (bitvar (bphp_bits n) i b) = Z.testbit (h i) b.
Proof.
  intros Hb. unfold bphp_enc, bitvar. cbv zeta. set (K := bphp_bits n) in *.
  replace (i * K - b - 1) with (K * (i - 1) + (K - 1 - b)) by lia.
  rewrite <- (Z.div_unique (K * (i - 1) + (K - 1 - b)) K (i - 1) (K - 1 - b)) by lia.
  rewrite <- (Z.mod_unique (K * (i - 1) + (K - 1 - b)) K (i - 1) (K - 1 - b)) by lia.
  replace (i - 1 + 1) with i by lia. replace (K - 1 - (K - 1 - b)) with b by lia. reflexivity.
Qed.

Lemma bphp_enc_value n h i : 0 <= h i -> forall k, Z.of_nat k <= bphp_bits n ->
  bphp_bits_value (bphp_enc n h) (bphp_bits n) i k = h i mod 2 ^ Z.of_nat k.
Proof.
  intros Hh. induction k as [|k IH]; intros Hk.
  - cbn. now rewrite Z.mod_1_r.
  - cbn [bphp_bits_value]. rewrite IH by lia. rewrite bphp_enc_bit by lia.
    rewrite Nat2Z.inj_succ, <- Z.add_1_r. rewrite (mod_pow2_succ (h i) (Z.of_nat k)) by lia. reflexivity.
Qed.

Theorem bphp_T2 m n h : 1 <= n -> binary_placement m n h ->
  exists a, irs_hold a (bphp_ir m n) = true /\ forall i, 1 <= i <= m -> bphp_hole a n i = h i.
Proof.
  intros Hn HP. destruct (bphp_bits_spec n Hn) as [HK Hpow]. exists (bphp_enc n h).
  assert (E : forall i, 1 <= i <= m -> bphp_hole (bphp_enc n h) n i = h i).
  { intros i Hi. destruct HP as [Hr _]. specialize (Hr i Hi). unfold bphp_hole.
    rewrite bphp_enc_value by lia. rewrite Z2Nat.id by assumption. apply Z.mod_small. lia. }
  split; [|exact E]. apply bphp_T1; [assumption|]. destruct HP as [Hr Hinj]. split.
  - intros i Hi. rewrite E by assumption. auto.
  - intros i1 i2 Hi1 Hi2. rewrite !E by assumption. auto.
Qed.

(* ---------- rphp: T2 ---------- *)
Definition rphp_enc (m r n : Z) (P Q : Z -> Z -> bool) (S : Z -> bool) : Z -> bool :=
  fun v => if v <=? m * r then P ((v - 1) / r + 1) ((v - 1) mod r + 1)
           else if v <=? m * r + r * n then Q ((v - m * r - 1) / n + 1) ((v - m * r - 1) mod n + 1)
           else S (v - m * r - r * n).

Lemma rphp_enc_P m r n P Q S u v : 1 <= u <= m -> 1 <= v <= r -> rphp_P (rphp_enc m r n P Q S) r u v = P u v.
Proof.
  intros Hu Hv. unfold rphp_P, rphp_enc, rp. pose proof (bvar_range 0 m r u v Hu Hv) as B.
  destruct (Z.leb_spec (bvar 0 r u v) (m * r)); [|lia].
  destruct (bvar_inv 0 r u v Hv) as [A1 A2]. replace (bvar 0 r u v - 0 - 1) with (bvar 0 r u v - 1) in * by lia.
  now rewrite A1, A2.
Qed.
Lemma rphp_enc_Q m r n P Q S v w : 1 <= v <= r -> 1 <= w <= n -> rphp_Q (rphp_enc m r n P Q S) m r n v w = Q v w.
Proof.
  intros Hv Hw. unfold rphp_Q, rphp_enc, rq. pose proof (bvar_range (m * r) r n v w Hv Hw) as B.
  destruct (Z.leb_spec (bvar (m * r) n v w) (m * r)); [lia|].
  destruct (Z.leb_spec (bvar (m * r) n v w) (m * r + r * n)); [|lia].
  destruct (bvar_inv (m * r) n v w Hw) as [A1 A2]. now rewrite A1, A2.
Qed.
Lemma rphp_enc_S m r n P Q S v : 0 <= r -> 0 <= n -> 1 <= v -> rphp_S (rphp_enc m r n P Q S) m r n v = S v.
Proof.
  intros Hr Hn Hv. unfold rphp_S, rphp_enc, rr. pose proof (Z.mul_nonneg_nonneg r n Hr Hn).
  destruct (Z.leb_spec (m * r + r * n + v) (m * r)); [lia|].
  destruct (Z.leb_spec (m * r + r * n + v) (m * r + r * n)); [lia|]. f_equal. lia.
Qed.

Lemma relativized_placement_ext m r n P Q S P' Q' S' :
  (forall u v, 1 <= u <= m -> 1 <= v <= r -> P u v = P' u v) ->
  (forall v w, 1 <= v <= r -> 1 <= w <= n -> Q v w = Q' v w) ->
  (forall v, 1 <= v <= r -> S v = S' v) ->
  relativized_placement m r n P Q S -> relativized_placement m r n P' Q' S'.
Proof.
  intros EP EQ ES (H1 & H2 & H3 & H4 & H5). repeat split.
  - intros u Hu. destruct (H1 u Hu) as [v [Hv Pt]]. exists v. split; auto. now rewrite <- EP.
  - intros v u1 u2 Hv Hu1 Hu2 A B. apply (H2 v); auto; now rewrite EP.
  - intros u v Hu Hv A. rewrite <- ES by assumption. apply (H3 u v); auto. now rewrite EP.
  - intros v Hv A. destruct (H4 v Hv) as [w [Hw Qt]]; [now rewrite ES|]. exists w. split; auto. now rewrite <- EQ.
  - intros w v1 v2 Hw Hv1 Hv2 A1 A2 B1 B2. apply (H5 w); auto; try (now rewrite ES); now rewrite EQ.
Qed.

Theorem rphp_T2 m r n P Q S : 0 <= m -> 0 <= r -> 0 <= n -> relativized_placement m r n P Q S ->
  exists a, irs_hold a (rphp_ir m r n) = true /\
    (forall u v, 1 <= u <= m -> 1 <= v <= r -> rphp_P a r u v = P u v) /\
    (forall v w, 1 <= v <= r -> 1 <= w <= n -> rphp_Q a m r n v w = Q v w) /\
    (forall v, 1 <= v <= r -> rphp_S a m r n v = S v).
Proof.
  intros Hm Hr Hn HP. exists (rphp_enc m r n P Q S).
  assert (EP : forall u v, 1 <= u <= m -> 1 <= v <= r -> rphp_P (rphp_enc m r n P Q S) r u v = P u v)
    by (intros; now apply rphp_enc_P).
  assert (EQ : forall v w, 1 <= v <= r -> 1 <= w <= n -> rphp_Q (rphp_enc m r n P Q S) m r n v w = Q v w)
    by (intros; now apply rphp_enc_Q).
  assert (ES : forall v, 1 <= v <= r -> rphp_S (rphp_enc m r n P Q S) m r n v = S v)
    by (intros; apply rphp_enc_S; lia).
  split; [|auto]. apply rphp_T1; try assumption.
  apply (relativized_placement_ext m r n P Q S); auto; intros; symmetry; auto.
Qed.

(* ================= T3: classical criteria ================= *)

(* ---------- gphp: satisfiable iff the graph has a matching saturating the left side ---------- *)
Lemma In_bip_index adj u v : In (u, v) (bip_index adj) <-> 1 <= u <= len adj /\ In v (bip_nbrs adj u).
Proof. unfold bip_index, bip_nbrs. rewrite In_bip_rows. split; intros [H1 H2]; (split; [lia|exact H2]). Qed.

Lemma bip_nbrs_range adj R u v : bip_wf adj R = true -> 1 <= u <= len adj -> In v (bip_nbrs adj u) -> 1 <= v <= R.
Proof.
  intros Hwf Hu Hv. unfold bip_nbrs in Hv.
  assert (In (nth (Z.to_nat (u - 1)) adj []) adj) as Hin by (apply nth_In; unfold len in Hu; lia).
  apply (bip_wf_rows adj R Hwf _ Hin). exact Hv.
Qed.

Theorem gphp_sat_iff_matching adj R f : bip_wf adj R = true ->
  ((exists a, irs_hold a (gphp_ir adj R f false) = true) <-> exists h, left_saturating adj h).
Proof.
  intros Hwf. split.
  - intros [a Ha]. apply (gphp_T1 a adj R f false Hwf) in Ha. destruct Ha as (H1 & _ & H3 & _).
    set (h := fun u => first_such (fun v => existsb (pair_eqb (u, v)) (gphp_sel a adj)) 1 (R + 1)).
    assert (Hh : forall u, 1 <= u <= len adj -> In (u, h u) (gphp_sel a adj) /\ 1 <= h u <= R).
    { intros u Hu. destruct (H1 u Hu) as [v Hv].
      assert (1 <= v <= R) as Hvr.
      { pose proof (gphp_sel_edges a adj _ Hv) as He. apply In_bip_index in He as [_ He].
        apply (bip_nbrs_range adj R u v Hwf Hu He). }
      destruct (first_such_spec (fun v => existsb (pair_eqb (u, v)) (gphp_sel a adj)) 1 (R + 1)) as [A B].
      { exists v. split; [lia|]. apply existsb_exists. exists (u, v). split; [assumption|now apply pair_eqb_spec]. }
      fold (h u) in A, B. apply existsb_exists in B as [e [He Heq]]. apply pair_eqb_spec in Heq. subst e. split; [assumption|lia]. }
    exists h. split.
    + intros u Hu. destruct (Hh u Hu) as [Hin _]. apply gphp_sel_edges, In_bip_index in Hin. tauto.
    + intros u1 u2 Hu1 Hu2 E. destruct (Hh u1 Hu1) as [A1 B1]. destruct (Hh u2 Hu2) as [A2 B2].
      apply (H3 (h u1)); [lia|assumption|now rewrite E].
  - intros [h [Hh Hinj]]. apply gphp_sat_iff_exists; [assumption|].
    exists (fun e => snd e =? h (fst e)). repeat split.
    + intros u Hu. exists (h u). apply filter_In. split; [apply In_bip_index; auto|cbn; lia].
    + discriminate.
    + intros v u1 u2 Hv A B. apply filter_In in A as [A1 A2]. apply filter_In in B as [B1 B2]. cbn in A2, B2.
      apply In_bip_index in A1 as [A1 _]. apply In_bip_index in B1 as [B1 _]. apply Hinj; auto. lia.
    + intros _ u v1 v2 Hu A B. apply filter_In in A as [_ A]. apply filter_In in B as [_ B]. cbn in A, B. lia.
Qed.

(* ---------- rphp ---------- *)
Theorem rphp_sat_iff m r n : 0 <= m -> 0 <= r -> 0 <= n ->
  ((exists a, irs_hold a (rphp_ir m r n) = true) <-> m <= r /\ m <= n).
Proof.
  intros Hm Hr Hn. split.
  - intros [a Ha]. apply rphp_T1 in Ha; try assumption. destruct Ha as (H1 & H2 & H3 & H4 & H5).
    set (P := rphp_P a r) in *. set (Q := rphp_Q a m r n) in *. set (S := rphp_S a m r n) in *.
    set (h := fun u => first_such (P u) 1 (r + 1)).
    assert (Hh : forall u, 1 <= u <= m -> 1 <= h u <= r /\ P u (h u) = true).
    { intros u Hu. destruct (H1 u Hu) as [v [Hv Pt]].
      destruct (first_such_spec (P u) 1 (r + 1)) as [A B]; [exists v; split; [lia|assumption]|]. split; [unfold h; lia|exact B]. }
    assert (Hhinj : forall u1 u2, 1 <= u1 <= m -> 1 <= u2 <= m -> h u1 = h u2 -> u1 = u2).
    { intros u1 u2 Hu1 Hu2 E. destruct (Hh u1 Hu1) as [A1 B1]. destruct (Hh u2 Hu2) as [A2 B2].
      apply (H2 (h u1)); auto. now rewrite E. }
    set (g := fun u => first_such (Q (h u)) 1 (n + 1)).
    assert (Hg : forall u, 1 <= u <= m -> 1 <= g u <= n /\ Q (h u) (g u) = true).
    { intros u Hu. destruct (Hh u Hu) as [A B]. assert (S (h u) = true) as St by (apply (H3 u (h u)); auto).
      destruct (H4 (h u) A St) as [w [Hw Qt]].
      destruct (first_such_spec (Q (h u)) 1 (n + 1)) as [A' B']; [exists w; split; [lia|assumption]|]. split; [unfold g; lia|exact B']. }
    split.
    + apply (pigeonhole_core h); auto. intros u Hu. apply Hh, Hu.
    + apply (pigeonhole_core g); auto; [intros u Hu; apply Hg, Hu|].
      intros u1 u2 Hu1 Hu2 E. destruct (Hh u1 Hu1) as [A1 B1]. destruct (Hh u2 Hu2) as [A2 B2].
      destruct (Hg u1 Hu1) as [C1 D1]. destruct (Hg u2 Hu2) as [C2 D2].
      apply Hhinj; auto. apply (H5 (g u1)); auto; try (apply (H3 u1); auto; fail); try (apply (H3 u2); auto; fail).
      now rewrite E.
  - intros [Hmr Hmn].
    destruct (rphp_T2 m r n (fun u v => u =? v) (fun v w => (v =? w) && (v <=? m)) (fun v => v <=? m) Hm Hr Hn) as [a [Ha _]]; [|eauto].
    repeat split.
    + intros u Hu. exists u. split; lia.
    + intros; lia.
    + intros; lia.
    + intros v Hv St. exists v. split; lia.
    + intros; lia.
Qed.

(* ---------- bphp ---------- *)
Theorem bphp_sat_iff m n : 0 <= m -> 1 <= n ->
  ((exists a, irs_hold a (bphp_ir m n) = true) <-> m <= n).
Proof.
  intros Hm Hn. split.
  - intros [a Ha]. apply bphp_T1 in Ha; [|assumption]. destruct Ha as [Hr Hinj].
    apply (pigeonhole_core (fun i => bphp_hole a n i + 1));
      [lia|lia|intros i Hi; specialize (Hr i Hi); lia|intros i1 i2 Hi1 Hi2 E; apply Hinj; auto; lia].
  - intros Hmn. destruct (bphp_T2 m n (fun i => i - 1) Hn) as [a [Ha _]]; [|eauto]. split; intros; lia.
Qed.

(* ---------- bphp, documented domain (the repaired behaviour, D30) ---------- *)
Theorem bphp_spec_sat_iff m n : 0 <= m -> 0 <= n ->
  ((exists a, irs_hold a (bphp_spec_ir m n) = true) <-> m <= n).
Proof.
  intros Hm Hn. unfold bphp_spec_ir. destruct (Z.eqb_spec m 0) as [->|Hm0].
  - split; [intros _; assumption|intros _; exists (fun _ => false); reflexivity].
  - destruct (Z.eqb_spec n 0) as [->|Hn0].
    + split; [intros [a Ha]; cbn in Ha; discriminate|lia].
    + apply bphp_sat_iff; lia.
Qed.
Lemma bphp_spec_ok m n : 0 <= n -> irs_ok (bphp_spec_ir m n) = true.
Proof.
  intros Hn. unfold bphp_spec_ir. destruct (m =? 0); [reflexivity|]. destruct (Z.eqb_spec n 0); [reflexivity|].
  apply bphp_ok. lia.
Qed.

(* ---------- rphp: one assignment per object ---------- *)
Theorem rphp_unique a b m r n : 0 <= m -> 0 <= r -> 0 <= n ->
  (forall u v, 1 <= u <= m -> 1 <= v <= r -> rphp_P a r u v = rphp_P b r u v) ->
  (forall v w, 1 <= v <= r -> 1 <= w <= n -> rphp_Q a m r n v w = rphp_Q b m r n v w) ->
  (forall v, 1 <= v <= r -> rphp_S a m r n v = rphp_S b m r n v) ->
  forall x, 1 <= x <= rphp_numvar m r n -> a x = b x.
Proof.
  intros Hm Hr Hn HP HQ HS x Hx. unfold rphp_numvar in Hx.
  destruct (Z.le_gt_cases x (m * r)) as [H1|H1].
  - destruct (bvar_surj 0 m r x) as (u & v & Hu & Hv & ->); try lia. now apply HP.
  - destruct (Z.le_gt_cases x (m * r + r * n)) as [H2|H2].
    + destruct (bvar_surj (m * r) r n x) as (v & w & Hv & Hw & ->); try lia. now apply HQ.
    + specialize (HS (x - m * r - r * n) ltac:(lia)). unfold rphp_S, rr in HS.
      replace (m * r + r * n + (x - m * r - r * n)) with x in HS by lia. exact HS.
Qed.

(* ---------- bphp: one assignment per object ---------- *)
Lemma bits_value_inj a b K i : forall k, bphp_bits_value a K i k = bphp_bits_value b K i k ->
  forall t, 0 <= t < Z.of_nat k -> a (bitvar K i t) = b (bitvar K i t).
Proof.
  induction k as [|k IH]; intros E t Ht; [lia|]. cbn [bphp_bits_value] in E.
  pose proof (bits_value_range a K i k) as Ba. pose proof (bits_value_range b K i k) as Bb.
  assert (0 < 2 ^ Z.of_nat k) as HP by (apply Z.pow_pos_nonneg; lia).
  assert (a (bitvar K i (Z.of_nat k)) = b (bitvar K i (Z.of_nat k)) /\ bphp_bits_value a K i k = bphp_bits_value b K i k) as [E1 E2].
  { destruct (a (bitvar K i (Z.of_nat k))), (b (bitvar K i (Z.of_nat k))); split; try reflexivity; lia. }
  destruct (Z.eq_dec t (Z.of_nat k)) as [->|Hne]; [exact E1|]. apply IH; [exact E2|lia].
Qed.

Theorem bphp_unique a b m n : 0 <= m -> 1 <= n ->
  (forall i, 1 <= i <= m -> bphp_hole a n i = bphp_hole b n i) ->
  forall v, 1 <= v <= bphp_numvar m n -> a v = b v.
Proof.
  intros Hm Hn H v Hv. unfold bphp_numvar in Hv. destruct (bphp_bits_spec n Hn) as [HK _].
  set (K := bphp_bits n) in *.
  assert (0 < K) as HK0 by (destruct (Z.eq_dec K 0) as [E|E]; [rewrite E in Hv; lia|lia]).
  pose proof (Z.div_mod (v - 1) K ltac:(lia)) as Edm. pose proof (Z.mod_pos_bound (v - 1) K HK0) as Bm.
  pose proof (Z.div_pos (v - 1) K ltac:(lia) HK0) as Hq.
  assert ((v - 1) / K < m) as Hqm by (apply Z.div_lt_upper_bound; lia).
  set (i := (v - 1) / K + 1). set (t := K - 1 - (v - 1) mod K).
  assert (v = bitvar K i t) as Ev by (unfold bitvar, i, t; lia). rewrite Ev.
  specialize (H i ltac:(unfold i; lia)). unfold bphp_hole in H. fold K in H.
  apply (bits_value_inj a b K i (Z.to_nat K) H). unfold t. lia.
Qed.

(* ---------- the formulas mention the documented variables only ---------- *)
Lemma php_in_range m n f o : irs_in_range (php_numvar m n) (php_ir m n f o).
Proof.
  unfold php_ir, php_numvar.
  assert (C1 : irs_in_range (m * n) (cm_complete 0 m n)).
  { apply irs_in_range_map. intros i x Hi Hx. apply In_upto in Hi. cbn [ir_lits] in Hx.
    pose proof (blk_row_range 0 m n i x ltac:(lia) Hi Hx). lia. }
  assert (C2 : irs_in_range (m * n) (cm_surjective 0 m n)).
  { apply irs_in_range_map. intros j x Hj Hx. apply In_upto in Hj. cbn [ir_lits] in Hx.
    pose proof (blk_col_range 0 m n j x ltac:(lia) Hj Hx). lia. }
  assert (C3 : irs_in_range (m * n) (cm_injective 0 m n)).
  { apply irs_in_range_map. intros j x Hj Hx. apply In_upto in Hj. cbn [ir_lits] in Hx.
    pose proof (blk_col_range 0 m n j x ltac:(lia) Hj Hx). lia. }
  assert (C4 : irs_in_range (m * n) (cm_functional 0 m n)).
  { apply irs_in_range_map. intros i x Hi Hx. apply In_upto in Hi. cbn [ir_lits] in Hx.
    pose proof (blk_row_range 0 m n i x ltac:(lia) Hi Hx). lia. }
  repeat apply irs_in_range_app; auto; [destruct o|destruct f]; auto using irs_in_range_nil.
Qed.
Lemma gphp_in_range adj R f o : irs_in_range (gphp_numvar adj) (gphp_ir adj R f o).
Proof.
  unfold gphp_ir, gphp_numvar. cbv zeta.
  assert (C : forall (g : Z -> ir) l, (forall y, exists p, ir_lits (g y) = ids_where p (gphp_tab adj)) ->
              irs_in_range (len (bip_index adj)) (map g l)).
  { intros g l Hg. apply irs_in_range_map. intros y x _ Hx. destruct (Hg y) as [p Ep]. rewrite Ep in Hx.
    now apply ids_where_range in Hx. }
  repeat apply irs_in_range_app; [| destruct o | | destruct f]; try apply irs_in_range_nil; apply C; intros y; eexists; reflexivity.
Qed.
