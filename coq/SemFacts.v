(* SemFacts.v — basic lemmas about the semantics. *)
From Coq Require Import ZArith List Bool Lia.
From Cnfgen Require Import Sem.
Import ListNotations.
Open Scope Z_scope.

Lemma forallb_map {A B} (f : A -> B) p l : forallb p (map f l) = forallb (fun x => p (f x)) l.
Proof. induction l; cbn; congruence. Qed.
Lemma forallb_ext {A} (p q : A -> bool) l : (forall x, p x = q x) -> forallb p l = forallb q l.
Proof. intros H; induction l; cbn; congruence. Qed.
Lemma forallb_ext_in {A} (p q : A -> bool) l : (forall x, In x l -> p x = q x) -> forallb p l = forallb q l.
Proof. induction l as [|x t IH]; cbn; intros H; [reflexivity|]. rewrite H by auto. f_equal. apply IH. auto. Qed.
Lemma forallb_true {A} (p : A -> bool) l : (forall x, In x l -> p x = true) -> forallb p l = true.
Proof. intros H. apply forallb_forall. exact H. Qed.
Lemma existsb_map {A B} (f : A -> B) p l : existsb p (map f l) = existsb (fun x => p (f x)) l.
Proof. induction l; cbn; congruence. Qed.
Lemma existsb_ext {A} (p q : A -> bool) l : (forall x, p x = q x) -> existsb p l = existsb q l.
Proof. intros H; induction l; cbn; congruence. Qed.

Lemma len_nil {A} : @len A [] = 0. Proof. reflexivity. Qed.
Lemma len_cons {A} (x : A) t : len (x :: t) = 1 + len t.
Proof. unfold len. cbn [length]. lia. Qed.
Lemma len_nonneg {A} (l : list A) : 0 <= len l. Proof. unfold len; lia. Qed.
Lemma len_map {A B} (f : A -> B) l : len (map f l) = len l.
Proof. unfold len. now rewrite map_length. Qed.
Lemma len_app {A} (l1 l2 : list A) : len (l1 ++ l2) = len l1 + len l2.
Proof. unfold len. rewrite app_length. lia. Qed.

Lemma nonzero_spec l : nonzero l = true <-> l <> 0.
Proof. unfold nonzero. destruct (Z.eqb_spec l 0); cbn; split; intros; congruence. Qed.

Lemma lit_true_opp a l : l <> 0 -> lit_true a (- l) = negb (lit_true a l).
Proof.
  intros H. unfold lit_true.
  destruct (Z.gtb_spec l 0); destruct (Z.gtb_spec (- l) 0); try lia.
  - now rewrite Z.opp_involutive.
  - now rewrite negb_involutive.
Qed.

Lemma lit_true_pos a v : 0 < v -> lit_true a v = a v.
Proof. intros. unfold lit_true. destruct (Z.gtb_spec v 0); [reflexivity|lia]. Qed.
Lemma lit_true_neg a v : 0 < v -> lit_true a (- v) = negb (a v).
Proof. intros. unfold lit_true. destruct (Z.gtb_spec (- v) 0); [lia|]. now rewrite Z.opp_involutive. Qed.

Lemma b2z_range b : 0 <= b2z b <= 1. Proof. destruct b; cbn; lia. Qed.
Lemma b2z_negb b : b2z (negb b) = 1 - b2z b. Proof. destruct b; reflexivity. Qed.

Lemma count_true_range a ls : 0 <= count_true a ls <= len ls.
Proof.
  induction ls as [|l t IH]; [cbn; lia|]. rewrite len_cons. cbn [count_true].
  pose proof (b2z_range (lit_true a l)). lia.
Qed.

Lemma count_true_app a l1 l2 : count_true a (l1 ++ l2) = count_true a l1 + count_true a l2.
Proof. induction l1 as [|x t IH]; cbn [count_true app]; lia. Qed.

Lemma count_true_opp a ls : lits_ok ls = true ->
  count_true a (map Z.opp ls) = len ls - count_true a ls.
Proof.
  induction ls as [|l t IH]; intros H; [reflexivity|].
  cbn in H. apply andb_true_iff in H as [H1 H2]. apply nonzero_spec in H1.
  cbn [map count_true]. rewrite len_cons, lit_true_opp, b2z_negb, IH by assumption. lia.
Qed.

Lemma clause_sat_count a c : clause_sat a c = (0 <? count_true a c).
Proof.
  induction c as [|l t IH]; [reflexivity|]. unfold clause_sat in *. cbn [existsb count_true].
  rewrite IH. pose proof (count_true_range a t).
  destruct (lit_true a l); cbn [b2z orb].
  - symmetry. apply Z.ltb_lt. lia.
  - reflexivity.
Qed.

Lemma clause_sat_cons a l c : clause_sat a (l :: c) = lit_true a l || clause_sat a c.
Proof. reflexivity. Qed.
Lemma clause_sat_app a c1 c2 : clause_sat a (c1 ++ c2) = clause_sat a c1 || clause_sat a c2.
Proof. unfold clause_sat. apply existsb_app. Qed.
Lemma cnf_sat_app a F G : cnf_sat a (F ++ G) = cnf_sat a F && cnf_sat a G.
Proof. unfold cnf_sat. apply forallb_app. Qed.
Lemma cnf_sat_cons a c F : cnf_sat a (c :: F) = clause_sat a c && cnf_sat a F.
Proof. reflexivity. Qed.
Lemma cnf_sat_nil a : cnf_sat a [] = true. Proof. reflexivity. Qed.
Lemma cnf_sat_flat_map {A} a (f : A -> cnf) l :
  cnf_sat a (flat_map f l) = forallb (fun x => cnf_sat a (f x)) l.
Proof. induction l as [|x t IH]; [reflexivity|]. cbn [flat_map forallb]. now rewrite cnf_sat_app, IH. Qed.
Lemma cnf_sat_concat a Fs : cnf_sat a (concat Fs) = forallb (cnf_sat a) Fs.
Proof. induction Fs as [|F t IH]; [reflexivity|]. cbn [concat forallb]. now rewrite cnf_sat_app, IH. Qed.
Lemma cnf_sat_map {A} a (f : A -> list Z) l :
  cnf_sat a (map f l) = forallb (fun x => clause_sat a (f x)) l.
Proof. unfold cnf_sat. apply forallb_map. Qed.

Lemma cnf_sat_true_iff a F : cnf_sat a F = true <-> forall c, In c F -> clause_sat a c = true.
Proof. unfold cnf_sat. apply forallb_forall. Qed.
Lemma clause_sat_true_iff a c : clause_sat a c = true <-> exists l, In l c /\ lit_true a l = true.
Proof. unfold clause_sat. apply existsb_exists. Qed.

(* two CNFs with the same set of clauses have the same models: justifies
   comparing canonical (sorted, deduplicated) clause sets in the correspondence *)
Lemma cnf_sat_incl a F G : incl F G -> cnf_sat a G = true -> cnf_sat a F = true.
Proof. rewrite !cnf_sat_true_iff. intros H HG c Hc. apply HG, H, Hc. Qed.
Lemma cnf_sat_set_ext a F G : incl F G -> incl G F -> cnf_sat a F = cnf_sat a G.
Proof.
  intros H1 H2. destruct (cnf_sat a G) eqn:EG.
  - eapply cnf_sat_incl; eauto.
  - destruct (cnf_sat a F) eqn:EF; [|reflexivity].
    rewrite (cnf_sat_incl a G F H2 EF) in EG. discriminate.
Qed.
Lemma clause_sat_incl a c d : incl c d -> clause_sat a c = true -> clause_sat a d = true.
Proof. rewrite !clause_sat_true_iff. intros H [l [Hl Ht]]. exists l. split; auto. Qed.
Lemma clause_sat_set_ext a c d : incl c d -> incl d c -> clause_sat a c = clause_sat a d.
Proof.
  intros H1 H2. destruct (clause_sat a d) eqn:E.
  - destruct (clause_sat a c) eqn:E2; [reflexivity|].
    rewrite (clause_sat_incl a d c H2 E) in E2. discriminate.
  - destruct (clause_sat a c) eqn:E2; [|reflexivity].
    rewrite (clause_sat_incl a c d H1 E2) in E. discriminate.
Qed.

(* assignments that agree on the variables of a formula *)
Lemma lit_true_ext a b l : a (Z.abs l) = b (Z.abs l) -> lit_true a l = lit_true b l.
Proof.
  unfold lit_true. intros H. destruct (Z.gtb_spec l 0) as [G|G].
  - now rewrite Z.abs_eq in H by lia.
  - rewrite Z.abs_neq in H by lia. now rewrite H.
Qed.
