(* IRRange.v — every literal of the CNF / OPB rendering of a list of builder calls
   is a literal (or the negation of a literal) passed to one of the calls; hence
   the renderings mention only variables up to the largest one the calls mention
   (the literal-range half of C10, generic in the family). *)
From Coq Require Import ZArith List Bool Lia ZifyBool.
From Cnfgen Require Import Sem Comb Linear SemFacts LinearFacts IR IRFacts.
Import ListNotations.
Open Scope Z_scope.

(* c uses only literals of ls, possibly negated *)
Definition from_lits (ls c : list Z) : Prop := forall x, In x c -> In x ls \/ In (- x) ls.
Definition cnf_from (ls : list Z) (F : cnf) : Prop := forall c, In c F -> from_lits ls c.

Lemma combs_incl {A} : forall (ls : list A) k c, In c (combs ls k) -> incl c ls.
Proof.
  induction ls as [|a t IH]; intros k c Hc.
  - destruct k; cbn in Hc; [destruct Hc as [<-|[]]; intros x []|destruct Hc].
  - destruct k as [|k]; cbn [combs] in Hc.
    + destruct Hc as [<-|[]]. intros x [].
    + apply in_app_or in Hc as [Hc|Hc].
      * apply in_map_iff in Hc as [d [<- Hd]]. intros x [<-|Hx]; [now left|right; now apply (IH k d Hd)].
      * intros x Hx. right. now apply (IH (S k) c Hc).
Qed.

Lemma from_lits_incl ls c : incl c ls -> from_lits ls c.
Proof. intros H x Hx. left. now apply H. Qed.
Lemma from_lits_opp ls c : from_lits (map Z.opp ls) c -> from_lits ls c.
Proof.
  intros H x Hx. destruct (H x Hx) as [E|E]; apply in_map_iff in E as [y [Ey Hy]].
  - right. replace (- x) with y by lia. exact Hy.
  - left. replace x with y by lia. exact Hy.
Qed.

Lemma add_geq_from ls k : cnf_from ls (add_geq ls k).
Proof.
  unfold add_geq. destruct (k <=? 0); [intros c []|]. destruct (k >? len ls).
  - intros c [<-|[]] x [].
  - intros c Hc. apply from_lits_incl. eapply combs_incl; eauto.
Qed.
Lemma add_leq_from ls k : cnf_from ls (add_leq ls k).
Proof. unfold add_leq. intros c Hc. apply from_lits_opp. now apply (add_geq_from (map Z.opp ls) (len ls - k) c). Qed.

Lemma from_lits_cons ls a c : (In a ls \/ In (- a) ls) -> from_lits ls c -> from_lits ls (a :: c).
Proof. intros Ha H x [<-|Hx]; auto. Qed.
Lemma from_lits_weaken a t c : from_lits t c -> from_lits (a :: t) c.
Proof. intros H x Hx. destruct (H x Hx); [left|right]; now right. Qed.

Lemma neq_clauses_from : forall ls k, cnf_from ls (neq_clauses ls k).
Proof.
  induction ls as [|a t IH]; intros k c Hc.
  - destruct k; cbn in Hc; [destruct Hc as [<-|[]]; intros x []|destruct Hc].
  - destruct k as [|k]; cbn [neq_clauses] in Hc.
    + destruct Hc as [<-|[]]. apply from_lits_incl. apply incl_refl.
    + apply in_app_or in Hc as [Hc|Hc]; apply in_map_iff in Hc as [d [<- Hd]].
      * apply from_lits_cons; [right; rewrite Z.opp_involutive; now left|]. apply from_lits_weaken. now apply (IH k).
      * apply from_lits_cons; [left; now left|]. apply from_lits_weaken. now apply (IH (S k)).
Qed.
Lemma add_neq_from ls k : cnf_from ls (add_neq ls k).
Proof. unfold add_neq. destruct ((k <? 0) || (k >? len ls)); [intros c []|apply neq_clauses_from]. Qed.

Lemma parity_clauses_from : forall ls w, cnf_from ls (parity_clauses ls w).
Proof.
  induction ls as [|a t IH]; intros w c Hc.
  - destruct w; cbn in Hc; [destruct Hc as [<-|[]]; intros x []|destruct Hc].
  - cbn [parity_clauses] in Hc. apply in_app_or in Hc as [Hc|Hc]; apply in_map_iff in Hc as [d [<- Hd]].
    + apply from_lits_cons; [left; now left|]. apply from_lits_weaken. now apply (IH w).
    + apply from_lits_cons; [right; rewrite Z.opp_involutive; now left|]. apply from_lits_weaken. now apply (IH (negb w)).
Qed.

Lemma cnf_from_app ls F G : cnf_from ls F -> cnf_from ls G -> cnf_from ls (F ++ G).
Proof. intros H1 H2 c Hc. apply in_app_or in Hc as [Hc|Hc]; auto. Qed.

Lemma add_linear_from ls o k : cnf_from ls (add_linear ls o k).
Proof.
  destruct o; cbn [add_linear]; try apply add_geq_from; try apply add_leq_from; try apply add_neq_from.
  apply cnf_from_app; [apply add_leq_from|apply add_geq_from].
Qed.

Lemma ir_cnf_from i : cnf_from (ir_lits i) (ir_cnf i).
Proof.
  destruct i; cbn [ir_cnf ir_lits].
  - intros d [<-|[]]. apply from_lits_incl, incl_refl.
  - apply add_linear_from.
  - apply parity_clauses_from.
  - apply add_linear_from.
  - apply add_linear_from.
  - apply add_linear_from.
  - apply add_linear_from.
Qed.

(* ---- range ---- *)
Lemma max_var_clause_ge c x : In x c -> Z.abs x <= max_var_clause c.
Proof. unfold max_var_clause. induction c as [|a t IH]; cbn [fold_right In]; [tauto|]. intros [<-|H]; [lia|]. specialize (IH H). lia. Qed.
Lemma max_var_clause_nonneg c : 0 <= max_var_clause c.
Proof. unfold max_var_clause. induction c as [|a t IH]; cbn [fold_right]; lia. Qed.

Lemma irs_max_var_ge l i : In i l -> max_var_clause (ir_lits i) <= irs_max_var l.
Proof. unfold irs_max_var. induction l as [|j t IH]; cbn [fold_right In]; [tauto|]. intros [<-|H]; [lia|]. specialize (IH H). lia. Qed.

Lemma lits_ok_in ls x : lits_ok ls = true -> In x ls -> x <> 0.
Proof. unfold lits_ok. rewrite forallb_forall. intros H Hx. apply nonzero_spec. auto. Qed.

Theorem to_cnf_in_range n l : irs_ok l = true -> irs_max_var l <= n -> lits_in_range n (to_cnf l) = true.
Proof.
  intros Hok Hmax. unfold lits_in_range. apply forallb_forall. intros c Hc. apply forallb_forall. intros x Hx.
  unfold to_cnf in Hc. apply in_flat_map in Hc as [i [Hi Hc]].
  unfold irs_ok in Hok. rewrite forallb_forall in Hok. specialize (Hok i Hi). unfold ir_ok in Hok.
  pose proof (irs_max_var_ge l i Hi) as Hm.
  destruct (ir_cnf_from i c Hc x Hx) as [E|E].
  - pose proof (lits_ok_in _ _ Hok E). pose proof (max_var_clause_ge _ _ E).
    apply andb_true_iff. split; [now apply nonzero_spec|]. lia.
  - pose proof (lits_ok_in _ _ Hok E). pose proof (max_var_clause_ge _ _ E).
    apply andb_true_iff. split; [apply nonzero_spec; lia|]. lia.
Qed.

(* a boolean certificate checker: running it (extracted) on the IR of one
   instance certifies that instance's CNF rendering, by the theorem below *)
Theorem irs_in_range_sound n l : irs_in_range n l = true -> lits_in_range n (to_cnf l) = true.
Proof.
  unfold irs_in_range. intros H. apply andb_true_iff in H as [H1 H2]. apply to_cnf_in_range; [assumption|lia].
Qed.

(* ---------- the pseudo-Boolean rendering ---------- *)
Definition terms_from (ls : list Z) (ts : list (Z * Z)) : Prop := forall t, In t ts -> In (snd t) ls \/ In (- snd t) ls.

Lemma norm_coeffs_from ls : forall ts v ts' v', terms_from ls ts -> norm_coeffs ts v = (ts', v') -> terms_from ls ts'.
Proof.
  induction ts as [|[c l] t IH]; intros v ts' v' H E.
  - cbn in E. inversion E; subst. intros x [].
  - cbn [norm_coeffs] in E. destruct (norm_coeffs t v) as [t1 v1] eqn:E1.
    assert (Ht : terms_from ls t) by (intros x Hx; apply H; now right).
    specialize (IH v t1 v1 Ht E1).
    assert (Hl : In l ls \/ In (- l) ls) by (apply (H (c, l)); now left).
    destruct (c <? 0); inversion E; subst; intros x [<-|Hx]; cbn [snd]; auto.
    rewrite Z.opp_involutive. tauto.
Qed.

Lemma normalize_from ls c : terms_from ls (pb_terms c) -> terms_from ls (pb_terms (normalize_opb c)).
Proof.
  destruct c as [ts o v]. cbn [pb_terms]. intros H. unfold normalize_opb. cbn [pb_op pb_deg pb_terms].
  assert (Hneg : terms_from ls (map (fun cl : Z * Z => (- fst cl, snd cl)) ts)).
  { intros x Hx. apply in_map_iff in Hx as [y [<- Hy]]. cbn [snd]. now apply H. }
  destruct o; cbn [pb_op pb_terms pb_deg];
    match goal with |- context [norm_coeffs ?t ?w] => destruct (norm_coeffs t w) as [t3 v3] eqn:E end;
    cbn [pb_terms]; (eapply norm_coeffs_from; [|exact E]; assumption).
Qed.

Lemma unit_terms_from ls : terms_from ls (unit_terms ls).
Proof. intros t Ht. unfold unit_terms in Ht. apply in_map_iff in Ht as [l [<- Hl]]. now left. Qed.

Definition opb_from (ls : list Z) (F : list pbc) : Prop := forall c, In c F -> terms_from ls (pb_terms c).

Lemma opb_clause_from ls c : from_lits ls c -> terms_from ls (pb_terms (opb_clause c)).
Proof. intros H t Ht. cbn in Ht. apply in_map_iff in Ht as [l [<- Hl]]. cbn [snd]. now apply H. Qed.

Lemma opb_linear_from ls o k : opb_from ls (opb_linear ls o k).
Proof.
  destruct o; cbn [opb_linear]; try (intros c [<-|[]]; apply normalize_from; cbn [pb_terms]; apply unit_terms_from).
  intros c Hc. apply in_map_iff in Hc as [d [<- Hd]]. apply opb_clause_from. now apply (add_neq_from ls k).
Qed.

Lemma ir_opb_from i : opb_from (ir_lits i) (ir_opb i).
Proof.
  destruct i; cbn [ir_opb ir_lits].
  - intros d [<-|[]]. apply opb_clause_from, from_lits_incl, incl_refl.
  - apply opb_linear_from.
  - intros c Hc. unfold opb_parity in Hc. apply in_map_iff in Hc as [d [<- Hd]]. apply opb_clause_from. unfold add_parity in Hd. now apply (parity_clauses_from ls (constant =? 1) d).
  - apply opb_linear_from.
  - apply opb_linear_from.
  - apply opb_linear_from.
  - apply opb_linear_from.
Qed.

Theorem to_opb_in_range n l : irs_ok l = true -> irs_max_var l <= n -> opb_in_range n (to_opb l) = true.
Proof.
  intros Hok Hmax. unfold opb_in_range. apply forallb_forall. intros c Hc. apply forallb_forall. intros t Ht.
  unfold to_opb in Hc. apply in_flat_map in Hc as [i [Hi Hc]].
  unfold irs_ok in Hok. rewrite forallb_forall in Hok. specialize (Hok i Hi). unfold ir_ok in Hok.
  pose proof (irs_max_var_ge l i Hi) as Hm.
  destruct (ir_opb_from i c Hc t Ht) as [E|E].
  - pose proof (lits_ok_in _ _ Hok E). pose proof (max_var_clause_ge _ _ E).
    apply andb_true_iff. split; [now apply nonzero_spec|]. lia.
  - pose proof (lits_ok_in _ _ Hok E). pose proof (max_var_clause_ge _ _ E).
    apply andb_true_iff. split; [apply nonzero_spec; lia|]. lia.
Qed.
