(* PipelineOptFacts.v -- option selection in the whole-program model (coq/Pipeline.v):
   each variant option of php / op selects exactly that variant of the family model, in any
   position argparse accepts; -q and --quiet are the same switch.  Statements in Prop_C17_pipeline.v. *)
From Coq Require Import ZArith List Bool Ascii String Lia ZifyBool.
From Cnfgen Require Import Sem Comb Linear IR Text Dimacs OpbText Cli GraphSpec Subst FamTab FamFast
     Fam_php Fam_count Fam_cliquecol C03_Util Fam_ordering Fam_ramsey Fam_cpls.
From Cnfgen Require Import SemFacts CliFacts PipelineGraph Pipeline PipelineFacts.
Import ListNotations.
Open Scope Z_scope.

(* a token that does not start with "-" is an argument *)
Lemma pl_classify_pos flags t : pl_starts_dash t = false -> pl_classify flags t = PlPos t.
Proof. destruct t as [|c r]; [reflexivity|]. unfold pl_classify. cbn [pl_starts_dash pl_classify_gen]. intros ->. reflexivity. Qed.

(* a token that int() and float() read as the non-negative integer z:  "3", "+3", " 3", "03", "3_0" ... *)
Definition pl_nat_tok (t : text) (z : Z) : Prop :=
  pl_is_ascii t = true /\ pl_starts_dash t = false /\ gs_float_ok t = true /\ gs_int t = Some z /\ 0 <= z.
Definition pl_nat_token (s : String.string) (z : Z) : Prop := pl_nat_tok (lit s) z.

Lemma pl_nodash_not_T s : pl_starts_dash (lit s) = false -> String.eqb s "-T" = false.
Proof.
  destruct s as [|c s']; [reflexivity|]. unfold lit. cbn [list_ascii_of_string pl_starts_dash String.eqb].
  unfold pl_dash. intros ->. reflexivity.
Qed.

Lemma split_T_single argv : forallb (fun s => negb (String.eqb s "-T")) argv = true -> split_T argv = [argv].
Proof.
  intros H. unfold split_T. rewrite split_aux_noT_end; [reflexivity|].
  intros Hin. rewrite forallb_forall in H. specialize (H _ Hin). cbn in H. discriminate.
Qed.

Lemma cnfgen_main_single_chunk argv q b g :
  forallb (fun s => negb (String.eqb s "-T")) argv = true ->
  pl_parse_chunk0 (map lit argv) = PlOk (mk_pl_opts q b, Some g) ->
  cnfgen_main argv = pl_render q b (pl_build g).
Proof.
  intros H E. unfold cnfgen_main, pl_quiet_of, pl_opb_of, pl_formula, pl_formula_of_chunks, pl_formula_of_chunks_with, pl_chunks_of.
  rewrite (split_T_single argv H). cbn [map pl_parse_chunks]. rewrite E. reflexivity.
Qed.

Definition pl_opt (b : bool) (s : String.string) : list String.string := if b then [s] else [].
Definition pl_topt (b : bool) (s : String.string) : list text := if b then [lit s] else [].

(* ---------------- php ---------------- *)
Lemma php_chunk_after tm tn m n f o : pl_nat_tok tm m -> pl_nat_tok tn n ->
  pl_parse_chunk0 (List.app [lit "-q"; lit "php"; tm; tn] (List.app (pl_topt f "--functional") (pl_topt o "--onto")))
  = PlOk (mk_pl_opts true false, Some (FcPhp m n f o)).
Proof.
  intros (A1 & D1 & F1 & I1 & P1) (A2 & D2 & F2 & I2 & P2).
  unfold pl_parse_chunk0.
  destruct f, o; cbn [pl_topt app forallb]; rewrite A1, A2; cbn.
  all: unfold pl_parse_php; cbn [map]; rewrite !(pl_classify_pos _ tm D1), !(pl_classify_pos _ tn D2); cbn.
  all: rewrite F1; cbn; rewrite I1, I2; cbn.
  all: replace (m <? 0) with false by lia; replace (n <? 0) with false by lia; reflexivity.
Qed.

Lemma php_chunk_before tm tn m n f o : pl_nat_tok tm m -> pl_nat_tok tn n ->
  pl_parse_chunk0 (List.app [lit "-q"; lit "php"] (List.app (pl_topt f "--functional") (List.app (pl_topt o "--onto") [tm; tn])))
  = PlOk (mk_pl_opts true false, Some (FcPhp m n f o)).
Proof.
  intros (A1 & D1 & F1 & I1 & P1) (A2 & D2 & F2 & I2 & P2).
  unfold pl_parse_chunk0.
  destruct f, o; cbn [pl_topt app forallb]; rewrite A1, A2; cbn.
  all: unfold pl_parse_php; cbn [map]; rewrite !(pl_classify_pos _ tm D1), !(pl_classify_pos _ tn D2); cbn.
  all: rewrite F1; cbn; rewrite I1, I2; cbn.
  all: replace (m <? 0) with false by lia; replace (n <? 0) with false by lia; reflexivity.
Qed.

(* `php N` stands for N+1 pigeons and N holes *)
Lemma php_chunk_one tn n f o : pl_nat_tok tn n ->
  pl_parse_chunk0 (List.app [lit "-q"; lit "php"; tn] (List.app (pl_topt f "--functional") (pl_topt o "--onto")))
  = PlOk (mk_pl_opts true false, Some (FcPhp (n + 1) n f o)).
Proof.
  intros (A2 & D2 & F2 & I2 & P2).
  unfold pl_parse_chunk0.
  destruct f, o; cbn [pl_topt app forallb]; rewrite A2; cbn.
  all: unfold pl_parse_php; cbn [map]; rewrite !(pl_classify_pos _ tn D2); cbn.
  all: rewrite F2; cbn; rewrite I2; cbn.
  all: replace (n <? 0) with false by lia; reflexivity.
Qed.

Lemma php_build m n f o : 0 <= m -> 0 <= n ->
  pl_build (FcPhp m n f o) = FrOk (php_numvar m n) (to_cnf (php_ir m n f o)).
Proof. intros Hm Hn. unfold pl_build. cbn [pl_build_with]. unfold php_valid. now replace ((0 <=? m) && (0 <=? n)) with true by lia. Qed.

Theorem php_options sm sn m n f o : pl_nat_token sm m -> pl_nat_token sn n ->
  let out := POut (print_dimacs None None (php_numvar m n) (to_cnf (php_ir m n f o))) in
  cnfgen_main (List.app ["-q"%string; "php"%string; sm; sn] (List.app (pl_opt f "--functional") (pl_opt o "--onto"))) = out /\
  cnfgen_main (List.app ["-q"%string; "php"%string] (List.app (pl_opt f "--functional") (List.app (pl_opt o "--onto") [sm; sn]))) = out.
Proof.
  intros Hm Hn out. pose proof Hm as (_ & D1 & _ & _ & P1). pose proof Hn as (_ & D2 & _ & _ & P2).
  pose proof (pl_nodash_not_T _ D1) as T1. pose proof (pl_nodash_not_T _ D2) as T2.
  split.
  - rewrite (cnfgen_main_single_chunk _ true false (FcPhp m n f o)).
    + rewrite php_build by assumption. reflexivity.
    + destruct f, o; cbn [pl_opt app forallb]; rewrite T1, T2; reflexivity.
    + replace (map lit _) with (List.app [lit "-q"; lit "php"; lit sm; lit sn] (List.app (pl_topt f "--functional") (pl_topt o "--onto")))
        by (destruct f, o; reflexivity).
      now apply php_chunk_after.
  - rewrite (cnfgen_main_single_chunk _ true false (FcPhp m n f o)).
    + rewrite php_build by assumption. reflexivity.
    + destruct f, o; cbn [pl_opt app forallb]; rewrite T1, T2; reflexivity.
    + replace (map lit _) with (List.app [lit "-q"; lit "php"] (List.app (pl_topt f "--functional") (List.app (pl_topt o "--onto") [lit sm; lit sn])))
        by (destruct f, o; reflexivity).
      now apply php_chunk_before.
Qed.

Theorem php_one_argument sn n f o : pl_nat_token sn n ->
  cnfgen_main (List.app ["-q"%string; "php"%string; sn] (List.app (pl_opt f "--functional") (pl_opt o "--onto")))
  = POut (print_dimacs None None (php_numvar (n + 1) n) (to_cnf (php_ir (n + 1) n f o))).
Proof.
  intros Hn. pose proof Hn as (_ & D2 & _ & _ & P2). pose proof (pl_nodash_not_T _ D2) as T2.
  rewrite (cnfgen_main_single_chunk _ true false (FcPhp (n + 1) n f o)).
  - rewrite php_build by lia. reflexivity.
  - destruct f, o; cbn [pl_opt app forallb]; rewrite T2; reflexivity.
  - replace (map lit _) with (List.app [lit "-q"; lit "php"; lit sn] (List.app (pl_topt f "--functional") (pl_topt o "--onto")))
      by (destruct f, o; reflexivity).
    now apply php_chunk_one.
Qed.

(* ---------------- op ---------------- *)
Inductive pl_opvar := OvNone | OvTotal | OvT | OvSmart | OvS | OvKnuth2 | OvKnuth3.
Inductive pl_plantvar := PvNone | PvPlant | PvP.
Definition pl_opvar_strs (v : pl_opvar) : list String.string :=
  match v with
  | OvNone => [] | OvTotal => ["--total"%string] | OvT => ["-t"%string] | OvSmart => ["--smart"%string] | OvS => ["-s"%string]
  | OvKnuth2 => ["--knuth2"%string] | OvKnuth3 => ["--knuth3"%string]
  end.
Definition pl_plantvar_strs (v : pl_plantvar) : list String.string :=
  match v with PvNone => [] | PvPlant => ["--plant"%string] | PvP => ["-p"%string] end.
Definition pl_opvar_total (v : pl_opvar) : bool := match v with OvTotal | OvT => true | _ => false end.
Definition pl_opvar_smart (v : pl_opvar) : bool := match v with OvSmart | OvS => true | _ => false end.
Definition pl_opvar_knuth (v : pl_opvar) : Z := match v with OvKnuth2 => 2 | OvKnuth3 => 3 | _ => 0 end.
Definition pl_plantvar_on (v : pl_plantvar) : bool := match v with PvNone => false | _ => true end.

Lemma op_chunk tn n v p : pl_nat_tok tn n ->
  pl_parse_chunk0 (List.app [lit "-q"; lit "op"; tn] (map lit (List.app (pl_opvar_strs v) (pl_plantvar_strs p))))
  = PlOk (mk_pl_opts true false, Some (FcOp n (pl_opvar_total v) (pl_opvar_smart v) (pl_plantvar_on p) (pl_opvar_knuth v))) /\
  pl_parse_chunk0 (List.app [lit "-q"; lit "op"] (List.app (map lit (List.app (pl_plantvar_strs p) (pl_opvar_strs v))) [tn]))
  = PlOk (mk_pl_opts true false, Some (FcOp n (pl_opvar_total v) (pl_opvar_smart v) (pl_plantvar_on p) (pl_opvar_knuth v))).
Proof.
  intros (A2 & D2 & F2 & I2 & P2).
  unfold pl_parse_chunk0.
  split; destruct v, p; cbn [pl_opvar_strs pl_plantvar_strs app map forallb]; rewrite A2; cbn.
  all: unfold pl_parse_op; cbn [map]; rewrite !(pl_classify_pos _ tn D2); cbn.
  all: rewrite F2; cbn; rewrite I2; reflexivity.
Qed.

Theorem op_options sn n v p : pl_nat_token sn n ->
  let out := pl_render true false (pl_of_c3 to_cnf (op_formula n (pl_opvar_total v) (pl_opvar_smart v) (pl_plantvar_on p) (pl_opvar_knuth v))) in
  cnfgen_main (List.app ["-q"%string; "op"%string; sn] (List.app (pl_opvar_strs v) (pl_plantvar_strs p))) = out /\
  cnfgen_main (List.app ["-q"%string; "op"%string] (List.app (List.app (pl_plantvar_strs p) (pl_opvar_strs v)) [sn])) = out.
Proof.
  intros Hn out. pose proof Hn as (_ & D2 & _ & _ & P2). pose proof (pl_nodash_not_T _ D2) as T2.
  destruct (op_chunk (lit sn) n v p Hn) as [E1 E2].
  split.
  - rewrite (cnfgen_main_single_chunk _ true false (FcOp n (pl_opvar_total v) (pl_opvar_smart v) (pl_plantvar_on p) (pl_opvar_knuth v))).
    + reflexivity.
    + destruct v, p; cbn [pl_opvar_strs pl_plantvar_strs app forallb]; rewrite T2; reflexivity.
    + rewrite <- E1. destruct v, p; reflexivity.
  - rewrite (cnfgen_main_single_chunk _ true false (FcOp n (pl_opvar_total v) (pl_opvar_smart v) (pl_plantvar_on p) (pl_opvar_knuth v))).
    + reflexivity.
    + destruct v, p; cbn [pl_opvar_strs pl_plantvar_strs app forallb]; rewrite T2; reflexivity.
    + rewrite <- E2. destruct v, p; reflexivity.
Qed.

(* two different members of the group {total, smart, knuth2, knuth3}: a command line error *)
Theorem op_exclusive sn n v w : pl_nat_token sn n ->
  v <> OvNone -> w <> OvNone -> (pl_opvar_total v, pl_opvar_smart v, pl_opvar_knuth v) <> (pl_opvar_total w, pl_opvar_smart w, pl_opvar_knuth w) ->
  cnfgen_main (List.app ["-q"%string; "op"%string; sn] (List.app (pl_opvar_strs v) (pl_opvar_strs w))) = PCliError.
Proof.
  intros Hn Hv Hw Hd. pose proof Hn as (A2 & D2 & F2 & I2 & P2). pose proof (pl_nodash_not_T _ D2) as T2.
  unfold cnfgen_main, pl_quiet_of, pl_opb_of, pl_formula, pl_formula_of_chunks, pl_formula_of_chunks_with, pl_chunks_of.
  rewrite split_T_single by (destruct v, w; cbn [pl_opvar_strs app forallb]; rewrite T2; reflexivity).
  cbn [map pl_parse_chunks]. unfold pl_parse_chunk0.
  destruct v, w; try contradiction; try (exfalso; apply Hd; reflexivity);
    cbn [pl_opvar_strs app map forallb]; rewrite A2; cbn;
    unfold pl_parse_op; cbn [map]; rewrite !(pl_classify_pos _ (lit sn) D2); cbn;
    rewrite F2; cbn; rewrite I2; reflexivity.
Qed.

(* ---------------- -q / --quiet ---------------- *)
Lemma split_aux_snoc : forall rest cur x, x <> "-T"%string ->
  split_T_aux (List.app cur [x]) rest =
  match split_T_aux cur rest with
  | h :: tl => (x :: h) :: tl
  | [] => []
  end.
Proof.
  induction rest as [|a r IH]; intros cur x Hx; cbn [split_T_aux].
  - now rewrite rev_app_distr.
  - destruct (String.eqb a "-T").
    + now rewrite rev_app_distr.
    + apply (IH (a :: cur) x Hx).
Qed.

Lemma pl_chunks_of_cons x rest : x <> "-T"%string ->
  pl_chunks_of (x :: rest) = match pl_chunks_of rest with h :: tl => (lit x :: h) :: tl | [] => [] end.
Proof.
  intros Hx. unfold pl_chunks_of, split_T. cbn [split_T_aux].
  destruct (String.eqb x "-T") eqn:E; [apply String.eqb_eq in E; contradiction|].
  change [x] with (List.app [] [x]). rewrite (split_aux_snoc rest [] x Hx).
  destruct (split_T_aux [] rest); reflexivity.
Qed.

Theorem quiet_spellings rest :
  cnfgen_main ("--quiet"%string :: rest) = cnfgen_main ("-q"%string :: rest) /\
  cnfgen_main ("-q"%string :: "-q"%string :: rest) = cnfgen_main ("-q"%string :: rest).
Proof.
  assert (Q1 : "--quiet"%string <> "-T"%string) by discriminate.
  assert (Q2 : "-q"%string <> "-T"%string) by discriminate.
  unfold cnfgen_main, pl_quiet_of, pl_opb_of, pl_formula, pl_formula_of_chunks, pl_formula_of_chunks_with.
  rewrite !(pl_chunks_of_cons "--quiet" rest Q1), !(pl_chunks_of_cons "-q" ("-q"%string :: rest) Q2), !(pl_chunks_of_cons "-q" rest Q2).
  destruct (pl_chunks_of rest) as [|h tl]; [split; reflexivity|].
  cbn [pl_parse_chunks]. unfold pl_parse_chunk0. cbn [forallb].
  replace (pl_is_ascii (lit "--quiet")) with true by reflexivity.
  replace (pl_is_ascii (lit "-q")) with true by reflexivity. cbn [andb].
  destruct (forallb pl_is_ascii h); [|split; reflexivity]. cbn [negb].
  split; reflexivity.
Qed.

(* ---------------- -of / --output-format ---------------- *)
Definition pl_same_cmd (x y : pl_parsed (pl_opts * option pl_fcmd)) : Prop :=
  match x, y with
  | PlOk (o1, g1), PlOk (o2, g2) => g1 = g2 /\ pl_quiet o1 = pl_quiet o2
  | PlErr, PlErr => True
  | PlOutside, PlOutside => True
  | _, _ => False
  end.

Lemma pl_same_cmd_refl x : pl_same_cmd x x.
Proof. destruct x as [[o g]| |]; cbn; auto. Qed.

(* the format only ends up in the options record *)
Lemma pl_parse_main_fmt : forall toks q v b1 b2, pl_same_cmd (pl_parse_main q v b1 toks) (pl_parse_main q v b2 toks).
Proof.
  intros toks. remember (List.length toks) as k eqn:Hk. revert toks Hk.
  induction k as [k IHk] using lt_wf_ind. intros toks Hk q v b1 b2.
  destruct toks as [|t r]; cbn [pl_parse_main]; [cbn; auto|]. cbn [List.length] in Hk.
  destruct (_ || _).
  - destruct v; [exact I|]. apply (IHk (List.length r)); [lia|reflexivity].
  - destruct (_ || _).
    + destruct q; [exact I|]. apply (IHk (List.length r)); [lia|reflexivity].
    + destruct (_ || _).
      * destruct r as [|f r']; [exact I|]. cbn [List.length] in Hk.
        destruct (pl_starts_dash f); [exact I|].
        destruct (gs_teqb f (lit "dimacs")); [apply pl_same_cmd_refl|].
        destruct (gs_teqb f (lit "opb")); [apply pl_same_cmd_refl|].
        destruct (gs_teqb f (lit "latex")); exact I.
      * destruct (pl_starts_dash t); [exact I|].
        destruct (pl_parse_formula t r); cbn; auto.
Qed.

Lemma pl_run_of_same build x y tl : pl_same_cmd x y ->
  match (match x with
         | PlOk (o, g) => match pl_parse_tchunks tl with PlOk ts => PlOk (mk_pl_cmdline o g ts) | PlErr => PlErr | PlOutside => PlOutside end
         | PlErr => PlErr | PlOutside => PlOutside end) with
  | PlOk c => pl_run_with build c | PlErr => FrErr | PlOutside => FrOutside end =
  match (match y with
         | PlOk (o, g) => match pl_parse_tchunks tl with PlOk ts => PlOk (mk_pl_cmdline o g ts) | PlErr => PlErr | PlOutside => PlOutside end
         | PlErr => PlErr | PlOutside => PlOutside end) with
  | PlOk c => pl_run_with build c | PlErr => FrErr | PlOutside => FrOutside end.
Proof.
  destruct x as [[o1 g1]| |], y as [[o2 g2]| |]; cbn [pl_same_cmd]; try contradiction; try reflexivity.
  intros [-> _]. destruct (pl_parse_tchunks tl); reflexivity.
Qed.

(* the output format selects the writer and changes nothing else: same formula object, same errors *)
Theorem output_format_same_formula rest :
  pl_formula ("-q"%string :: "-of"%string :: "opb"%string :: rest) = pl_formula ("-q"%string :: rest) /\
  pl_formula ("-q"%string :: "--output-format"%string :: "opb"%string :: rest) = pl_formula ("-q"%string :: rest) /\
  pl_formula ("-q"%string :: "-of"%string :: "dimacs"%string :: rest) = pl_formula ("-q"%string :: rest).
Proof.
  assert (Q : "-q"%string <> "-T"%string) by discriminate.
  assert (O1 : "-of"%string <> "-T"%string) by discriminate.
  assert (O2 : "--output-format"%string <> "-T"%string) by discriminate.
  assert (B : "opb"%string <> "-T"%string) by discriminate.
  assert (D : "dimacs"%string <> "-T"%string) by discriminate.
  unfold pl_formula, pl_formula_of_chunks, pl_formula_of_chunks_with.
  rewrite !(pl_chunks_of_cons "-q" _ Q), !(pl_chunks_of_cons "-of" _ O1), !(pl_chunks_of_cons "--output-format" _ O2),
          !(pl_chunks_of_cons "opb" _ B), !(pl_chunks_of_cons "dimacs" _ D).
  destruct (pl_chunks_of rest) as [|h tl]; [repeat split; reflexivity|].
  cbn [pl_parse_chunks]. unfold pl_parse_chunk0. cbn [forallb].
  replace (pl_is_ascii (lit "-q")) with true by reflexivity.
  replace (pl_is_ascii (lit "-of")) with true by reflexivity.
  replace (pl_is_ascii (lit "--output-format")) with true by reflexivity.
  replace (pl_is_ascii (lit "opb")) with true by reflexivity.
  replace (pl_is_ascii (lit "dimacs")) with true by reflexivity. cbn [andb].
  destruct (forallb pl_is_ascii h); [|repeat split; reflexivity]. cbn [negb].
  change (pl_parse_main false false false (lit "-q" :: lit "-of" :: lit "opb" :: h)) with (pl_parse_main true false true h).
  change (pl_parse_main false false false (lit "-q" :: lit "--output-format" :: lit "opb" :: h)) with (pl_parse_main true false true h).
  change (pl_parse_main false false false (lit "-q" :: lit "-of" :: lit "dimacs" :: h)) with (pl_parse_main true false false h).
  change (pl_parse_main false false false (lit "-q" :: h)) with (pl_parse_main true false false h).
  repeat split; try reflexivity; apply pl_run_of_same, pl_parse_main_fmt.
Qed.

(* ... and the bytes are those of the OPB writer on that formula *)
Lemma nodash_not_lit t (s : String.string) : pl_starts_dash t = false -> pl_starts_dash (lit s) = true -> gs_teqb t (lit s) = false.
Proof.
  destruct t as [|c r]; destruct s as [|d s']; cbn; try reflexivity; try discriminate.
  unfold pl_dash. intros H1 H2. apply Ascii.eqb_eq in H2. subst d. now rewrite H1.
Qed.

Lemma pl_parse_main_name q v b t r : pl_starts_dash t = false ->
  pl_parse_main q v b (t :: r) =
  match pl_parse_formula t r with
  | PlOk c => PlOk (mk_pl_opts q b, Some c)
  | PlErr => PlErr
  | PlOutside => PlOutside
  end.
Proof.
  intros H. cbn [pl_parse_main].
  rewrite !(nodash_not_lit t _ H) by reflexivity. cbn [orb]. now rewrite H.
Qed.

Theorem output_format_opb name args n F : pl_starts_dash (lit name) = false ->
  pl_formula ("-q"%string :: name :: args) = FrOk n F ->
  cnfgen_main ("-q"%string :: name :: args) = POut (print_dimacs None None n F) /\
  cnfgen_main ("-q"%string :: "-of"%string :: "dimacs"%string :: name :: args) = POut (print_dimacs None None n F) /\
  cnfgen_main ("-q"%string :: "-of"%string :: "opb"%string :: name :: args) = POut (print_opb None None (FCnf n F)) /\
  cnfgen_main ("-q"%string :: "--output-format"%string :: "opb"%string :: name :: args) = POut (print_opb None None (FCnf n F)).
Proof.
  intros Hd E.
  assert (Q : "-q"%string <> "-T"%string) by discriminate.
  assert (O1 : "-of"%string <> "-T"%string) by discriminate.
  assert (O2 : "--output-format"%string <> "-T"%string) by discriminate.
  assert (B : "opb"%string <> "-T"%string) by discriminate.
  assert (D : "dimacs"%string <> "-T"%string) by discriminate.
  assert (Nn : name <> "-T"%string).
  { intros ->. cbn in Hd. discriminate. }
  destruct (output_format_same_formula (name :: args)) as (E1 & E2 & E3).
  unfold cnfgen_main. rewrite E1, E2, E3, E. cbn [pl_render].
  unfold pl_formula, pl_formula_of_chunks, pl_formula_of_chunks_with in E.
  unfold pl_quiet_of, pl_opb_of. revert E.
  rewrite !(pl_chunks_of_cons "-q" _ Q), !(pl_chunks_of_cons "-of" _ O1), !(pl_chunks_of_cons "--output-format" _ O2),
          !(pl_chunks_of_cons "opb" _ B), !(pl_chunks_of_cons "dimacs" _ D), !(pl_chunks_of_cons name args Nn).
  destruct (pl_chunks_of args) as [|h tl]; [discriminate|].
  cbn [pl_parse_chunks]. unfold pl_parse_chunk0. cbn [forallb].
  replace (pl_is_ascii (lit "-q")) with true by reflexivity.
  replace (pl_is_ascii (lit "-of")) with true by reflexivity.
  replace (pl_is_ascii (lit "--output-format")) with true by reflexivity.
  replace (pl_is_ascii (lit "opb")) with true by reflexivity.
  replace (pl_is_ascii (lit "dimacs")) with true by reflexivity. cbn [andb].
  destruct (negb _); [discriminate|].
  change (pl_parse_main false false false (lit "-q" :: lit "-of" :: lit "opb" :: lit name :: h)) with (pl_parse_main true false true (lit name :: h)).
  change (pl_parse_main false false false (lit "-q" :: lit "--output-format" :: lit "opb" :: lit name :: h)) with (pl_parse_main true false true (lit name :: h)).
  change (pl_parse_main false false false (lit "-q" :: lit "-of" :: lit "dimacs" :: lit name :: h)) with (pl_parse_main true false false (lit name :: h)).
  change (pl_parse_main false false false (lit "-q" :: lit name :: h)) with (pl_parse_main true false false (lit name :: h)).
  rewrite !(pl_parse_main_name _ _ _ (lit name) h Hd).
  destruct (pl_parse_formula (lit name) h) as [c| |]; try discriminate.
  destruct (pl_parse_tchunks tl); try discriminate. intros _. cbn. repeat split; reflexivity.
Qed.
