(* Property C17 (with C18 and C06) for the WHOLE PROGRAM: `cnfgen_main : argv -> bytes` (coq/Pipeline.v) is the
   composition of the command line parsers (restricted to a stated token grammar, POutside elsewhere), the family
   models, the transformation models applied left to right, and the DIMACS writer.  argv is sys.argv[1:].
   Statements only; proofs in PipelineFacts.v / PipelineOptFacts.v.  Tied to the real tool byte for byte by
   harness/c17_pipeline.py. *)
From Coq Require Import ZArith List Bool Ascii String.
From Cnfgen Require Import Sem Comb Linear IR Text Dimacs DimacsFacts OpbText Cli GraphSpec Subst Fam_php Fam_ordering C03_Util.
From Cnfgen Require Import Header PipelineGraph Pipeline PipelineFacts PipelineOptFacts PipelineHeader PipelineHeaderFacts.
Import ListNotations.
Open Scope Z_scope.

(* ------------------------------------------------------------------ *)
(* -T chains                                                           *)
(* ------------------------------------------------------------------ *)
(* [noT c]: the chunk c does not contain the token -T.
   [pl_wellformed a]: every chunk of a is accepted by its parser, a formula is named and every -T is followed by
   a transformation (implied by [pl_formula a = FrOk n F]: pipeline_ok_wellformed).
   [pl_formula argv]: the formula object that reaches the writer (number of variables, clauses in order). *)

(* one more `-T t` applies the model of t to the formula of the shorter command line -- also when that formula is an
   error, which then stays one *)
Theorem pipeline_split : forall a t tc, noT t -> pl_wellformed a ->
  pl_parse_tchunk (map lit t) = PlOk (Some tc) ->
  pl_wellformed (a ++ "-T"%string :: t) /\
  pl_formula (a ++ "-T"%string :: t) = pl_step (pl_formula a) tc.
Proof. exact pl_formula_step. Qed.
Print Assumptions pipeline_split.

Theorem pipeline_split_ok : forall a t tc n F, noT t -> pl_formula a = FrOk n F ->
  pl_parse_tchunk (map lit t) = PlOk (Some tc) ->
  pl_formula (a ++ "-T"%string :: t) = pl_transform tc n F.
Proof.
  exact (fun a t tc n F Ht E Etc =>
           eq_trans (proj2 (pl_formula_step a t tc Ht (pl_formula_ok_wellformed a n F E) Etc))
                    (f_equal (fun r => pl_step r tc) E)).
Qed.
Print Assumptions pipeline_split_ok.

(* `-T` followed by nothing, or by something the transformation parser rejects, is a command line error *)
Theorem pipeline_split_error : forall a t, noT t -> pl_wellformed a ->
  pl_parse_tchunk (map lit t) = PlErr \/ pl_parse_tchunk (map lit t) = PlOk None ->
  pl_formula (a ++ "-T"%string :: t) = FrErr.
Proof. exact pl_formula_step_error. Qed.
Print Assumptions pipeline_split_error.

(* a chain -T t1 ... -T tk is the left-to-right fold of the transformation models over the family model
   (induction over the number of chunks) *)
Theorem pipeline_chain : forall ts tcs a, pl_wellformed a -> Forall noT ts ->
  Forall2 (fun t tc => pl_parse_tchunk (map lit t) = PlOk (Some tc)) ts tcs ->
  pl_formula (a ++ flat_map (fun t => "-T"%string :: t) ts) = fold_left pl_step tcs (pl_formula a).
Proof. exact pl_formula_chain. Qed.
Print Assumptions pipeline_chain.

Theorem pipeline_ok_wellformed : forall argv n F, pl_formula argv = FrOk n F -> pl_wellformed argv.
Proof. exact pl_formula_ok_wellformed. Qed.
Print Assumptions pipeline_ok_wellformed.

(* cnfgen_main depends on argv through its chunks only: joining any non-empty list of -T-free chunks with -T and
   running the program is running the chunk-level function on them (split_T is also a LEFT inverse of join_T) *)
Theorem pipeline_chunks : forall chunks, chunks <> [] -> Forall noT chunks ->
  split_T (join_T chunks) = chunks /\
  pl_formula (join_T chunks) = pl_formula_of_chunks (map (map lit) chunks).
Proof. exact (fun chunks H1 H2 => conj (split_join_T chunks H1 H2) (pl_formula_of_join chunks H1 H2)). Qed.
Print Assumptions pipeline_chunks.

(* ------------------------------------------------------------------ *)
(* what is written is the formula: round trip and literal range        *)
(* ------------------------------------------------------------------ *)
(* whenever the program writes a text, that text is the DIMACS (or, under -of opb, OPB) rendering of the transformed
   family model, every literal is within 1..numvar, and a strict reader of that format returns exactly (numvar,
   clauses in order):  pl_reads_back false t n F := forall u, parse_dimacs u t = DOk n F  (either newline convention),
   pl_reads_back true t n F := parse_opb t = OOk n (map clause_pbc F)  (a clause is `sum of its literals >= 1`).  `printable z`: z has at most 4300 decimal digits (CPython's limit for str/int; beyond it the real tool
   raises ValueError while writing) *)
Theorem pipeline_roundtrip : forall argv text, cnfgen_main argv = POut text ->
  exists n F, pl_formula argv = FrOk n F /\ text = pl_write (pl_opb_of argv) None n F /\
              0 <= n /\ lits_in_range n F = true /\
              (printable n -> printable (len F) -> pl_reads_back (pl_opb_of argv) text n F).
Proof. exact cnfgen_main_roundtrip. Qed.
Print Assumptions pipeline_roundtrip.

Theorem pipeline_in_range : forall argv n F, pl_formula argv = FrOk n F -> 0 <= n /\ lits_in_range n F = true.
Proof. exact pl_formula_in_range. Qed.
Print Assumptions pipeline_in_range.

(* ------------------------------------------------------------------ *)
(* totality                                                            *)
(* ------------------------------------------------------------------ *)
(* for EVERY list of strings: a text, a clean command line error, or "outside the token grammar"; the crash value
   (an exception other than CLIError / ValueError escaping build_formula or transform_cnf) is never returned *)
Theorem pipeline_total : forall argv,
  (exists text, cnfgen_main argv = POut text) \/ cnfgen_main argv = PCliError \/ cnfgen_main argv = POutside.
Proof. exact cnfgen_main_total. Qed.
Print Assumptions pipeline_total.

Theorem pipeline_never_crashes : forall argv, pl_formula argv <> FrCrash.
Proof. exact pl_formula_no_crash. Qed.
Print Assumptions pipeline_never_crashes.

(* the rendering used by the driver (FamFast.to_cnf_f, no dead branches in the cardinality encodings) is the
   reference rendering *)
Theorem pipeline_fast_eq : forall argv, cnfgen_main_fast argv = cnfgen_main argv.
Proof. exact cnfgen_main_fast_eq. Qed.
Print Assumptions pipeline_fast_eq.

(* ------------------------------------------------------------------ *)
(* option selection                                                    *)
(* ------------------------------------------------------------------ *)
(* [pl_nat_token s z]: s is ASCII, does not start with "-", and Python's float() accepts it and int() reads it as
   z >= 0 (e.g. "3", "+3", " 3", "03", "3_0") *)

(* php M N [--functional] [--onto], options after or before the numbers: the family model with exactly those flags *)
Theorem pipeline_php_options : forall sm sn m n f o, pl_nat_token sm m -> pl_nat_token sn n ->
  let out := POut (print_dimacs None None (php_numvar m n) (to_cnf (php_ir m n f o))) in
  cnfgen_main (List.app ["-q"%string; "php"%string; sm; sn] (List.app (pl_opt f "--functional") (pl_opt o "--onto"))) = out /\
  cnfgen_main (List.app ["-q"%string; "php"%string] (List.app (pl_opt f "--functional") (List.app (pl_opt o "--onto") [sm; sn]))) = out.
Proof. exact php_options. Qed.
Print Assumptions pipeline_php_options.

Theorem pipeline_php_one_argument : forall sn n f o, pl_nat_token sn n ->
  cnfgen_main (List.app ["-q"%string; "php"%string; sn] (List.app (pl_opt f "--functional") (pl_opt o "--onto")))
  = POut (print_dimacs None None (php_numvar (n + 1) n) (to_cnf (php_ir (n + 1) n f o))).
Proof. exact php_one_argument. Qed.
Print Assumptions pipeline_php_one_argument.

(* op N with one of --total -t --smart -s --knuth2 --knuth3 (or none) and one of --plant -p (or none), after or
   before N: OrderingPrinciple(N, total, smart, plant, knuth) with exactly those values *)
Theorem pipeline_op_options : forall sn n v p, pl_nat_token sn n ->
  let out := pl_render true false (pl_of_c3 to_cnf (op_formula n (pl_opvar_total v) (pl_opvar_smart v) (pl_plantvar_on p) (pl_opvar_knuth v))) in
  cnfgen_main (List.app ["-q"%string; "op"%string; sn] (List.app (pl_opvar_strs v) (pl_plantvar_strs p))) = out /\
  cnfgen_main (List.app ["-q"%string; "op"%string] (List.app (List.app (pl_plantvar_strs p) (pl_opvar_strs v)) [sn])) = out.
Proof. exact op_options. Qed.
Print Assumptions pipeline_op_options.

(* two different variants together: rejected *)
Theorem pipeline_op_exclusive : forall sn n v w, pl_nat_token sn n ->
  v <> OvNone -> w <> OvNone -> (pl_opvar_total v, pl_opvar_smart v, pl_opvar_knuth v) <> (pl_opvar_total w, pl_opvar_smart w, pl_opvar_knuth w) ->
  cnfgen_main (List.app ["-q"%string; "op"%string; sn] (List.app (pl_opvar_strs v) (pl_opvar_strs w))) = PCliError.
Proof. exact op_exclusive. Qed.
Print Assumptions pipeline_op_exclusive.

(* the output format selects the writer and changes nothing else: same formula object (hence same errors) ... *)
Theorem pipeline_output_format_same_formula : forall rest,
  pl_formula ("-q"%string :: "-of"%string :: "opb"%string :: rest) = pl_formula ("-q"%string :: rest) /\
  pl_formula ("-q"%string :: "--output-format"%string :: "opb"%string :: rest) = pl_formula ("-q"%string :: rest) /\
  pl_formula ("-q"%string :: "-of"%string :: "dimacs"%string :: rest) = pl_formula ("-q"%string :: rest).
Proof. exact output_format_same_formula. Qed.
Print Assumptions pipeline_output_format_same_formula.

(* ... written by the DIMACS writer or by the OPB writer *)
Theorem pipeline_output_format : forall name args n F, pl_starts_dash (lit name) = false ->
  pl_formula ("-q"%string :: name :: args) = FrOk n F ->
  cnfgen_main ("-q"%string :: name :: args) = POut (print_dimacs None None n F) /\
  cnfgen_main ("-q"%string :: "-of"%string :: "dimacs"%string :: name :: args) = POut (print_dimacs None None n F) /\
  cnfgen_main ("-q"%string :: "-of"%string :: "opb"%string :: name :: args) = POut (print_opb None None (FCnf n F)) /\
  cnfgen_main ("-q"%string :: "--output-format"%string :: "opb"%string :: name :: args) = POut (print_opb None None (FCnf n F)).
Proof. exact output_format_opb. Qed.
Print Assumptions pipeline_output_format.

(* --quiet is -q, and repeating it changes nothing, whatever follows *)
Theorem pipeline_quiet_spellings : forall rest,
  cnfgen_main ("--quiet"%string :: rest) = cnfgen_main ("-q"%string :: rest) /\
  cnfgen_main ("-q"%string :: "-q"%string :: rest) = cnfgen_main ("-q"%string :: rest).
Proof. exact quiet_spellings. Qed.
Print Assumptions pipeline_quiet_spellings.

(* ------------------------------------------------------------------ *)
(* without -q: the comment header (C19 provenance, C06 round trip)     *)
(* ------------------------------------------------------------------ *)
(* [cnfgen_main_env version argv]: the program with or without -q; `version` is info['version'] of the installation,
   the only part of the header that is not a function of argv.  Sub-commands with a graph argument are POutside
   without -q (their description contains the name of the graph object). *)

(* -q selects the header-less variant and changes nothing else; errors do not depend on it *)
Theorem pipeline_env_extends_quiet : forall version argv t, cnfgen_main argv = POut t -> cnfgen_main_env version argv = POut t.
Proof. exact env_extends_quiet. Qed.
Print Assumptions pipeline_env_extends_quiet.

Theorem pipeline_env_error_iff : forall version argv, cnfgen_main_env version argv = PCliError <-> cnfgen_main argv = PCliError.
Proof. exact env_error_iff. Qed.
Print Assumptions pipeline_env_error_iff.

Theorem pipeline_env_total : forall version argv,
  (exists text, cnfgen_main_env version argv = POut text) \/ cnfgen_main_env version argv = PCliError \/
  cnfgen_main_env version argv = POutside.
Proof. exact env_total. Qed.
Print Assumptions pipeline_env_total.

(* with the header in front (whatever the tokens on the command line contain: line breaks are shielded), the text
   still reads back as exactly the formula *)
Theorem pipeline_env_roundtrip : forall version argv text, cnfgen_main_env version argv = POut text ->
  exists n F hh, pl_formula argv = FrOk n F /\ pl_header_choice version argv = Some hh /\
                 text = pl_write (pl_opb_of argv) hh n F /\ 0 <= n /\ lits_in_range n F = true /\
                 (printable n -> printable (len F) -> pl_reads_back (pl_opb_of argv) text n F).
Proof. exact env_roundtrip. Qed.
Print Assumptions pipeline_env_roundtrip.

(* provenance: description, generator, copyright, url of the generated formula, then `transformation 1..k` for the
   k steps that record an entry, in the order applied, then the command line -- nothing else *)
Theorem pipeline_header_shape : forall version argv g ts h, pl_header version argv g ts = Some h ->
  exists d, pl_fdesc g = Some d /\
  h = plh_render (List.app (plh_fresh version d) (List.app (number_from 0 (flat_map pl_tdesc ts))
                  [(KO "command line", String.append "cnfgen " (plh_join " " argv))])).
Proof. exact pl_header_shape. Qed.
Print Assumptions pipeline_header_shape.

Theorem pipeline_env_fast_eq : forall version argv, cnfgen_main_env_fast version argv = cnfgen_main_env version argv.
Proof. exact cnfgen_main_env_fast_eq. Qed.
Print Assumptions pipeline_env_fast_eq.

Example pipeline_env_nonvacuous :
  cnfgen_main_env "0.9.1" ["php"; "2"; "1"; "-T"; "xor"; "1"; "-T"; "none"; "-T"; "flip"]%string = POut (lit "c description: Pigeonhole principle formula for 2 pigeons and 1 holes
c generator: CNFgen (0.9.1)
c copyright: (C) 2012-2022 Massimo Lauria <massimo.lauria@uniroma1.it>
c url: https://massimolauria.net/cnfgen
c transformation 1: Substitution with XOR of arity 1
c transformation 2: All polarities have been flipped
c command line: cnfgen php 2 1 -T xor 1 -T none -T flip
c
p cnf 2 3
-1 0
-2 0
1 2 0
") /\
  cnfgen_main_env "x" ["kcolor"; "2"; "complete"; "3"]%string = POutside /\
  (exists t, cnfgen_main ["-q"; "kcolor"; "2"; "complete"; "3"]%string = POut t) /\
  cnfgen_main_env "x" ["-v"; "-q"; "true"]%string = PCliError.
Proof. repeat split; try (vm_compute; reflexivity). eexists. vm_compute. reflexivity. Qed.

(* ------------------------------------------------------------------ *)
(* the hypotheses are satisfiable, the three outcomes occur            *)
(* ------------------------------------------------------------------ *)
Example pipeline_nonvacuous :
  cnfgen_main ["-q"; "php"; "2"; "1"]%string = POut (lit "p cnf 2 3
1 0
2 0
-1 -2 0
") /\
  cnfgen_main ["-q"; "php"; "2"; "1"; "-T"; "xor"; "2"]%string = POut (lit "p cnf 4 8
1 2 0
-1 -2 0
3 4 0
-3 -4 0
1 -2 3 -4 0
1 -2 -3 4 0
-1 2 3 -4 0
-1 2 -3 4 0
") /\
  cnfgen_main ["-q"; "op"; "3"; "--total"; "--smart"]%string = PCliError /\
  cnfgen_main ["-q"; "php"; "2"; "x"]%string = PCliError /\
  cnfgen_main ["-q"; "php"; "2"; "1"; "-T"]%string = PCliError /\
  cnfgen_main ["-q"; "php"; "--help"]%string = POutside /\
  cnfgen_main ["-q"; "-of"; "opb"; "php"; "2"; "1"]%string = POut (lit "* #variable= 2 #constraint= 3
+1 x1 >= 1
+1 x2 >= 1
+1 ~x1 +1 ~x2 >= 1
") /\
  cnfgen_main ["-q"; "-of"; "png"; "php"; "2"; "1"]%string = PCliError /\
  cnfgen_main ["php"; "2"; "1"]%string = POutside /\
  pl_nat_token "3" 3 /\ pl_nat_token "+3" 3 /\ pl_nat_token " 3" 3 /\ pl_nat_token "3_0" 30 /\
  noT ["xor"; "2"]%string /\ pl_wellformed ["-q"; "php"; "2"; "1"]%string /\
  pl_parse_tchunk (map lit ["xor"; "2"]%string) = PlOk (Some (TcXor 2)) /\
  pl_parse_tchunk (map lit ["xor"]%string) = PlErr /\
  (exists n F, pl_formula ["-q"; "php"; "2"; "1"]%string = FrOk n F /\ F <> []).
Proof.
  repeat split; try (vm_compute; reflexivity); try (vm_compute; intros H; discriminate).
  - intros [H|[H|[]]]; discriminate.
  - eexists; eexists; eexists. vm_compute. repeat split; reflexivity.
  - eexists; eexists. split; [vm_compute; reflexivity|discriminate].
Qed.

(* ------------------------------------------------------------------ *)
(* sub-commands with a graph argument: instances                       *)
(* ------------------------------------------------------------------ *)
(* the general statements about them are pipeline_roundtrip / pipeline_in_range / pipeline_total / pipeline_chain
   (they hold for every argv); the selection of a variant by an option is shown here on instances: the output is
   the rendering of the family model with exactly that variant, on the graph the argument names *)
Example pipeline_graph_variants :
  let K3 := [(1, 2); (1, 3); (2, 3)] in
  let out nv l := POut (print_dimacs None None nv (to_cnf l)) in
  (exists l, Fam_domset.domset_ir 3 K3 2 false = Some l /\
     cnfgen_main ["-q"; "domset"; "2"; "complete"; "3"]%string = out (Fam_domset.domset_numvar 3 2) l) /\
  (exists l, Fam_domset.domset_ir 3 K3 2 true = Some l /\
     cnfgen_main ["-q"; "domset"; "2"; "complete"; "3"; "--alternative"]%string = out (Fam_domset.domset_numvar 3 2) l /\
     cnfgen_main ["-q"; "domset"; "-a"; "2"; "complete"; "3"]%string = out (Fam_domset.domset_numvar 3 2) l /\
     cnfgen_main ["-q"; "domset"; "2"; "-a"; "complete"; "3"]%string = out (Fam_domset.domset_numvar 3 2) l) /\
  (exists l, Fam_subgraph.kclique_ir 3 K3 2 true = Some l /\
     cnfgen_main ["-q"; "kclique"; "2"; "complete"; "3"]%string = out (Fam_subgraph.kclique_numvar 3 2) l) /\
  (exists l, Fam_subgraph.kclique_ir 3 K3 2 false = Some l /\
     cnfgen_main ["-q"; "kclique"; "2"; "complete"; "3"; "--no-symmetry-breaking"]%string = out (Fam_subgraph.kclique_numvar 3 2) l) /\
  cnfgen_main ["-q"; "tseitin"; "first"; "complete"; "3"]%string
    = out (Fam_tseitin.tseitin_numvar K3) (Fam_tseitin.tseitin_ir 3 K3 (Some [true; false; false])) /\
  cnfgen_main ["-q"; "tseitin"; "zero"; "complete"; "3"]%string
    = out (Fam_tseitin.tseitin_numvar K3) (Fam_tseitin.tseitin_ir 3 K3 (Some [false; false; false])) /\
  cnfgen_main ["-q"; "tseitin"; "one"; "complete"; "3"]%string
    = out (Fam_tseitin.tseitin_numvar K3) (Fam_tseitin.tseitin_ir 3 K3 (Some [true; true; true])) /\
  cnfgen_main ["-q"; "subsetcard"; "shift"; "2"; "3"; "0"; "1"]%string
    = out 4 (Fam_subsetcard.subsetcard_ir [[1; 2]; [2; 3]] 3 false) /\
  cnfgen_main ["-q"; "subsetcard"; "-e"; "shift"; "2"; "3"; "0"; "1"]%string
    = out 4 (Fam_subsetcard.subsetcard_ir [[1; 2]; [2; 3]] 3 true) /\
  cnfgen_main ["-q"; "php"; "shift"; "2"; "3"; "0"; "1"; "--functional"]%string
    = out 4 (gphp_ir [[1; 2]; [2; 3]] 3 true false) /\
  cnfgen_main ["-q"; "peb"; "pyramid"; "1"]%string = out 3 (clauses_ir (Fam_pebbling.peb_cnf [[]; []; [1; 2]])) /\
  cnfgen_main ["-q"; "kcolor"; "2"; "grid"; "2"; "2"]%string = POutside /\
  cnfgen_main ["-q"; "kcolor"; "2"; "complete"; "0"]%string = PCliError /\
  cnfgen_main ["-q"; "kcolor"; "2"; "path"; "3"]%string = PCliError.
Proof.
  cbv zeta. repeat split.
  all: try (eexists; split; [vm_compute; reflexivity|]; repeat split).
  all: vm_compute; reflexivity.
Qed.
