(* Property C06 — DIMACS output round-trips and the DIMACS reader never misreads.
   ONLY statements; every proof is `exact <lemma>` (or a vm_compute witness). *)
From Coq Require Import String ZArith List Bool Ascii.
From Cnfgen Require Import Sem Text TextFacts Dimacs DimacsFacts.
Import ListNotations.
Open Scope Z_scope.

(* ---- text primitives the two formats rest on ---- *)

(* int(str(z)) = z, for every integer the interpreter prints at all (at most 4300 digits) *)
Theorem C06_parse_int_print_Z : forall z, small z -> parse_int (print_Z z) = Some z.
Proof. exact parse_int_print_Z. Qed.
Print Assumptions C06_parse_int_print_Z.

Theorem C06_small_of_bound : forall z, Z.abs z < 10 ^ 4300 -> small z.
Proof. exact small_of_bound. Qed.
Print Assumptions C06_small_of_bound.

(* "t1 t2 ... tk last".split() gives the tokens back *)
Theorem C06_split_ws_joined : forall ts last, forallb token ts = true -> token last = true ->
  split_ws (concat (map (fun t => t ++ [SP]) ts) ++ last) = ts ++ [last].
Proof. exact split_ws_joined. Qed.
Print Assumptions C06_split_ws_joined.

(* ---- writer then reader ---- *)

(* print_dimacs is to_dimacs_file as it is now (after commit 7278321: every header
   field and every variable name goes through _within_comment).
   The full claim: every valid formula, ANY header, ANY variable names (line
   breaks "\n", "\r", "\r\n" included), both newline conventions of the reader
   (StringIO / file in text mode) *)
Theorem dimacs_roundtrip : forall u h names n F,
  valid n F -> printable n -> printable (len F) ->
  parse_dimacs u (print_dimacs h names n F) = DOk n F.
Proof. exact dimacs_roundtrip_proved. Qed.
Print Assumptions dimacs_roundtrip.

Example dimacs_roundtrip_nonvacuous :
  let h := Some [(lit "description", [ "x"%char; LF; "y"%char; CR; LF; "1"%char; " "%char; "0"%char; CR ]);
                 (lit "a formula: with % odd chars", lit ""); ([ "k"%char; CR; "p"%char ], lit "v")] in
  let names := Some [lit "x_{1,2}"; lit "c p cnf 1 1"; lit ""; [ "a"%char; LF; "1"%char; CR; CR; LF ]] in
  let F := [[1; -2]; []; [3]; [-3; -3; 1]] in
  valid 4 F /\ printable 4 /\ header_ok h = false /\ names_ok names = false /\
  parse_dimacs false (print_dimacs h names 4 F) = DOk 4 F /\
  parse_dimacs true (print_dimacs h names 4 F) = DOk 4 F /\
  parse_dimacs true (print_dimacs None None 0 []) = DOk 0 [].
Proof.
  cbv zeta. split; [|split; [apply printable_million; vm_compute; discriminate | vm_compute; repeat split]].
  split; [discriminate|]. unfold lit_in.
  repeat constructor; vm_compute; discriminate.
Qed.

(* what _within_comment writes, byte for byte, on the three kinds of line break *)
Example ex_within_comment_bytes :
  within_comment (lit "c ") ([ "a"%char; CR; LF; "b"%char; CR; "c"%char; LF; LF; "d"%char; CR ]) =
  [ "a"%char; LF ] ++ lit "c b" ++ [LF] ++ lit "c c" ++ [LF] ++ lit "c " ++ [LF] ++ lit "c d" ++ [LF] ++ lit "c ".
Proof. vm_compute. reflexivity. Qed.

(* ---- shape of the output ---- *)

(* the lines of the output are: comment lines, ONE problem line whose tokens are
   p, cnf, the number of variables and the true number of clauses, then one data
   line per clause -- for every header and every list of names.
   (That n bounds the literals is `valid`: property C10.)
   comment_lines = the lines of the comment part of the text *)
Theorem print_shape : forall u h names n F,
  read_lines u (print_dimacs h names n F) =
    comment_lines h names ++ spec_line n (len F) :: map clause_line F /\
  Forall (fun l => line_kind l = KComment) (comment_lines h names) /\
  line_kind (spec_line n (len F)) = KSpec /\
  split_ws (spec_line n (len F)) = [lit "p"; lit "cnf"; print_Z n; print_Z (len F)] /\
  Forall (fun l => line_kind l = KData) (map clause_line F).
Proof. exact print_shape_proved. Qed.
Print Assumptions print_shape.

(* the comment lines are one per header field, "c", one per name, "c" -- each
   field copied as it is -- when no field or name has a line break; on such
   inputs the repair changed no byte of the output *)
Theorem print_dimacs_unchanged : forall h names n F,
  header_ok h = true -> names_ok names = true ->
  print_dimacs h names n F = print_dimacs_as_found h names n F /\
  comment_lines h names = comment_lines_as_found h names.
Proof. exact DimacsFacts.print_dimacs_unchanged. Qed.
Print Assumptions print_dimacs_unchanged.

(* ---- the writer as it was found (before commit 7278321; defect D4) ---- *)

Definition dimacs_roundtrip_as_found_statement : Prop :=
  forall u h names n F, valid n F -> printable n -> printable (len F) ->
    parse_dimacs u (print_dimacs_as_found h names n F) = DOk n F.

(* what held of it: headers and names without a line break inside a field *)
Theorem dimacs_roundtrip_as_found_partial : forall u h names n F,
  valid n F -> printable n -> printable (len F) ->
  header_ok h = true -> names_ok names = true ->
  parse_dimacs u (print_dimacs_as_found h names n F) = DOk n F.
Proof. exact dimacs_roundtrip_as_found_proved. Qed.
Print Assumptions dimacs_roundtrip_as_found_partial.

(* without the restriction the claim was false: a line break in the description
   ended the comment (the writer copied the value as it was) ... *)
Theorem dimacs_header_newline_refuted : ~ dimacs_roundtrip_as_found_statement.
Proof.
  intros H.
  specialize (H false (Some [(lit "description", [ "x"%char; LF; "y"%char ])]) None 1 [[1]]).
  assert (V : valid 1 [[1]]) by (split; [discriminate | repeat constructor; vm_compute; discriminate]).
  assert (P1 : printable 1) by (apply printable_million; vm_compute; discriminate).
  specialize (H V P1 P1). vm_compute in H. discriminate H.
Qed.
Print Assumptions dimacs_header_newline_refuted.

(* ... and so did a lone carriage return when the text is read from a file,
   or a line break in a variable name *)
Theorem dimacs_header_cr_refuted : exists h,
  parse_dimacs false (print_dimacs_as_found (Some h) None 1 [[1]]) = DOk 1 [[1]] /\
  parse_dimacs true (print_dimacs_as_found (Some h) None 1 [[1]]) = Err DataBeforeSpec 2.
Proof. exists [(lit "description", [ "x"%char; CR; "y"%char ])]. vm_compute. auto. Qed.
Print Assumptions dimacs_header_cr_refuted.

Theorem dimacs_name_newline_refuted : exists names,
  parse_dimacs false (print_dimacs_as_found None (Some names) 1 [[1]]) = Err DataBeforeSpec 2.
Proof. exists [[ "a"%char; LF; "1"%char ]]. vm_compute. reflexivity. Qed.
Print Assumptions dimacs_name_newline_refuted.

Definition print_shape_as_found_statement : Prop :=
  forall u h names n F,
  read_lines u (print_dimacs_as_found h names n F) =
    comment_lines_as_found h names ++ spec_line n (len F) :: map clause_line F /\
  Forall (fun l => line_kind l = KComment) (comment_lines_as_found h names) /\
  line_kind (spec_line n (len F)) = KSpec /\
  split_ws (spec_line n (len F)) = [lit "p"; lit "cnf"; print_Z n; print_Z (len F)] /\
  Forall (fun l => line_kind l = KData) (map clause_line F).

Theorem print_shape_as_found_partial : forall u h names n F,
  header_ok h = true -> names_ok names = true ->
  read_lines u (print_dimacs_as_found h names n F) =
    comment_lines_as_found h names ++ spec_line n (len F) :: map clause_line F /\
  Forall (fun l => line_kind l = KComment) (comment_lines_as_found h names) /\
  line_kind (spec_line n (len F)) = KSpec /\
  split_ws (spec_line n (len F)) = [lit "p"; lit "cnf"; print_Z n; print_Z (len F)] /\
  Forall (fun l => line_kind l = KData) (map clause_line F).
Proof. exact print_shape_as_found_proved. Qed.
Print Assumptions print_shape_as_found_partial.

Theorem print_shape_refuted : ~ print_shape_as_found_statement.
Proof.
  intros H.
  specialize (H false (Some [(lit "description", [ "x"%char; LF; "y"%char ])]) None 1 [[1]]).
  destruct H as [H _]. vm_compute in H. discriminate H.
Qed.
Print Assumptions print_shape_refuted.

(* on the very inputs of the refutations the repaired writer is read back *)
Example ex_dimacs_refutation_inputs_repaired :
  (forall u, parse_dimacs u (print_dimacs (Some [(lit "description", [ "x"%char; LF; "y"%char ])]) None 1 [[1]]) = DOk 1 [[1]]) /\
  (forall u, parse_dimacs u (print_dimacs (Some [(lit "description", [ "x"%char; CR; "y"%char ])]) None 1 [[1]]) = DOk 1 [[1]]) /\
  (forall u, parse_dimacs u (print_dimacs None (Some [[ "a"%char; LF; "1"%char ]]) 1 [[1]]) = DOk 1 [[1]]).
Proof. repeat split; intros [|]; vm_compute; reflexivity. Qed.

(* ---- the reader, for EVERY text and both newline conventions ---- *)

(* whenever a formula is returned: the text has exactly one problem line, it
   declares n >= 0 and exactly the number of clauses returned; the tokens of the
   data lines are all integers and, cut at the zeros, they are exactly the
   clauses returned, with nothing left over; every literal is within +-[1..n].
   Every other outcome is `Err` = ValueError: `result` has no third constructor. *)
Theorem parse_sound : forall u t n F,
  parse_dimacs u t = DOk n F ->
  exists sl m, spec_lines (read_lines u t) = [sl] /\ parse_spec sl = Some (n, m) /\
               m = len F /\ 0 <= n /\
               clauses_written (read_lines u t) = Some (F, []) /\
               Forall (Forall (lit_in n)) F.
Proof. exact parse_sound_proved. Qed.
Print Assumptions parse_sound.

Example parse_sound_nonvacuous :
  parse_dimacs true (lit "c hi" ++ [CR; LF] ++ lit "p cnf 3 2" ++ [LF] ++ lit " 1 -3" ++ [LF] ++ lit "0 +2 0")
  = DOk 3 [[1; -3]; [2]].
Proof. vm_compute. reflexivity. Qed.

(* texts that must be refused are refused *)
Example ex_parse_rejects :
  (exists k, parse_dimacs false (lit "p cnf 2 1" ++ [LF] ++ lit "1 3 0") = Err BadLiteral k) /\
  (exists k, parse_dimacs false (lit "p cnf 2 2" ++ [LF] ++ lit "1 2 0") = Err WrongCount k) /\
  (exists k, parse_dimacs false (lit "p cnf 2 1" ++ [LF] ++ lit "1 2") = Err Incomplete k) /\
  (exists k, parse_dimacs false (lit "1 2 0") = Err DataBeforeSpec k) /\
  (exists k, parse_dimacs false (lit "p cnf 2 1" ++ [LF] ++ lit "p cnf 2 1" ++ [LF] ++ lit "1 0") = Err DupSpec k) /\
  (exists k, parse_dimacs false (lit "p cnf -2 1") = Err BadSpec k) /\
  (exists k, parse_dimacs false (lit "c nothing") = Err MissingSpec k).
Proof. vm_compute. repeat split; eexists; reflexivity. Qed.
