(* Property C09 along the shell pipe  `cnfgen <argv> | cnfshuffle <sargv>`  (and the matching part of C17: what the
   first tool writes is the family model).  ONLY statements; every proof is `exact <lemma>` (lemmas in ChainFacts.v).

   The two whole-program models are composed: cnfgen_main (coq/Pipeline.v: argv -> bytes, compared byte for byte with
   the real tool by the C17 check) writes `text`; cnfshuffle_main_gen (coq/ShuffleMain.v: argv, stdin, recorded draws ->
   bytes, compared with the real tool by the C09 check) reads it on standard input (no -i option: so_input o = None).
   The theorems speak about the FAMILY MODEL pl_formula argv = (n, F) (family + -T chain), not about a text:
   the file the user ends up with reads back as a signed renaming and clause permutation of that formula.
   `printable` (numbers below 10^4300, the range in which CPython's str()/int() work) is the hypothesis of the C06
   round trip it goes through. *)
From Coq Require Import ZArith List Bool Permutation Ascii String.
From Cnfgen Require Import Sem Comb Text Dimacs DimacsFacts Shuffle ShuffleFacts ShuffleMain ShuffleMainFacts.
From Cnfgen Require Import Pipeline PipelineFacts ChainFacts.
Import ListNotations.
Open Scope Z_scope.

(* what cnfshuffle reads on its standard input is exactly the formula cnfgen built *)
Theorem chain_reads_the_family_model : forall argv text n F env o,
  cnfgen_main argv = POut text -> pl_opb_of argv = false -> pl_formula argv = FrOk n F ->
  printable n -> printable (len F) -> so_input o = None ->
  parse_dimacs (shm_universal o) (shm_input_text env o text) = DOk n F.
Proof. exact chain_input_reads. Qed.
Print Assumptions chain_reads_the_family_model.

(* for every cnfgen command line of the pipeline grammar, every cnfshuffle command line reading standard input, every
   stream of primitive draws: whatever comes out of the pipe reads back (with or without universal newlines) as the
   family model renamed by ONE signed bijection of its n variables and rearranged by ONE permutation of its clause
   positions: same variable count, clause count, widths, model count; -p / -v / -c keep what they promise *)
Theorem chain_is_renaming_of_family_model : forall argv text rep env sargv o oracle dest t,
  cnfgen_main argv = POut text -> pl_opb_of argv = false ->
  shm_parse_args env sargv = PaOk o -> so_input o = None ->
  cnfshuffle_main_gen rep env sargv text oracle = ShmOut dest t ->
  exists n F, pl_formula argv = FrOk n F /\ 0 <= n /\ lits_in_range n F = true /\
   (printable n -> printable (len F) ->
    exists out flips perm cperm,
    (forall u, parse_dimacs u t = DOk n out) /\ lits_in_range n out = true /\
    List.length out = List.length F /\ Permutation (map (@List.length Z) F) (map (@List.length Z) out) /\
    let sigma := subst_lit flips perm in
    let sigma' := inv_lit flips perm in
    signed_map n sigma /\ signed_map n sigma' /\
    (forall l, inrange n l -> sigma' (sigma l) = l) /\ (forall l, inrange n l -> sigma (sigma' l) = l) /\
    Permutation cperm (zrange 0 (len F)) /\
    Permutation out (map (map sigma) F) /\
    (forall i, (i < List.length F)%nat -> nth (Z.to_nat (nth i cperm 0)) out [] = map sigma (nth i F [])) /\
    (forall a, cnf_sat a out = cnf_sat (pull sigma a) F) /\
    count_models n out = count_models n F /\
    (so_nop o = true -> forall l, inrange n l -> (0 < sigma l <-> 0 < l)) /\
    (so_nov o = true -> forall l, inrange n l -> Z.abs (sigma l) = Z.abs l) /\
    (so_noc o = true -> out = map (map sigma) F)).
Proof. exact chain_is_renaming. Qed.
Print Assumptions chain_is_renaming_of_family_model.

(* -p -v -c: the pipe hands the family model through unchanged, and with -q on the second tool (the model of the
   first writes no header) the bytes are the same *)
Theorem chain_fixed_is_identity : forall argv text rep env sargv o oracle dest t,
  cnfgen_main argv = POut text -> pl_opb_of argv = false ->
  shm_parse_args env sargv = PaOk o -> so_input o = None ->
  so_nop o = true -> so_nov o = true -> so_noc o = true ->
  cnfshuffle_main_gen rep env sargv text oracle = ShmOut dest t ->
  exists n F, pl_formula argv = FrOk n F /\
    (printable n -> printable (len F) ->
     (forall u, parse_dimacs u t = DOk n F) /\ (so_quiet o = true -> t = text)).
Proof. exact chain_fixed_identity. Qed.
Print Assumptions chain_fixed_is_identity.

(* in particular the file that leaves the pipe is satisfiable exactly when the family model is: shuffling a benchmark
   does not change its answer (with the C01-C03 theorems: `cnfgen php m n | cnfshuffle` is satisfiable iff m <= n, ...) *)
Theorem chain_keeps_satisfiability : forall argv text rep env sargv o oracle dest t,
  cnfgen_main argv = POut text -> pl_opb_of argv = false ->
  shm_parse_args env sargv = PaOk o -> so_input o = None ->
  cnfshuffle_main_gen rep env sargv text oracle = ShmOut dest t ->
  exists n F, pl_formula argv = FrOk n F /\
    (printable n -> printable (len F) ->
     exists out, (forall u, parse_dimacs u t = DOk n out) /\
                 ((exists a, cnf_sat a out = true) <-> (exists a, cnf_sat a F = true))).
Proof. exact chain_equisatisfiable. Qed.
Print Assumptions chain_keeps_satisfiability.

(* non-vacuity: `cnfgen -q php 2 1 | cnfshuffle -q` with the draws 1, 0 (flips), 1 (variables), 2, 0 (clauses) *)
Example chain_nonvacuous :
  exists text o,
    cnfgen_main ["-q"; "php"; "2"; "1"]%string = POut text /\ pl_opb_of ["-q"; "php"; "2"; "1"]%string = false /\
    shm_parse_args shm_env0 [lit "-q"] = PaOk o /\ so_input o = None /\
    cnfshuffle_main_gen false shm_env0 [lit "-q"] text [1; 0; 1; 2; 0] = ShmOut None (lit "p cnf 2 3
-2 0
1 0
-1 2 0
") /\
    cnfshuffle_main_gen false shm_env0 [lit "-pvcq"] text [] = ShmOut None text.
Proof. vm_compute. do 2 eexists. repeat split. Qed.
