(* Cli.v — model of the argument validation of the numeric sub-commands of
   cnfgen/pbgen (cnfgen/clihelpers/*.py: `setup_command_line` validators from
   cnfgen/clitools/cmdline.py, and the preconditions/crash sites of the
   generators they call).  A positional token is `Some z` when Python's int()
   reads it as z and `None` otherwise.  The outcome of a run is a formula, a
   command-line error, or a crash (an exception that is neither CLIError nor
   ValueError, i.e. a Python traceback).  Two tables: [table] is the behaviour
   the property demands (and the repaired code has); [table_as_found] is the
   pinned tree, whose crash sites are explicit.  Also: splitting the command
   line around -T (parse_command_line).  Definitions only. *)
From Coq Require Import ZArith List Bool String.
Import ListNotations.
Open Scope Z_scope.

Inductive argty := TNonNeg | TPos | TPosEven | TAnyInt.
Definition argty_ok (t : argty) (z : Z) : bool :=
  match t with
  | TNonNeg => 0 <=? z
  | TPos => 1 <=? z
  | TPosEven => (1 <=? z) && Z.even z
  | TAnyInt => true
  end.

Inductive outcome := OFormula | OCliError | OCrash.

Record subcmd := mksub {
  sc_name : string;
  sc_args : list argty;            (* required positionals *)
  sc_rest : option argty;          (* further positionals (nargs='*') *)
  sc_gen : list Z -> outcome       (* the generator on validated integers *)
}.

Fixpoint check_args (tys : list argty) (rest : option argty) (args : list (option Z)) : option (list Z) :=
  match tys, args with
  | [], [] => Some []
  | [], Some z :: more =>
      match rest with
      | Some t => if argty_ok t z then option_map (cons z) (check_args [] rest more) else None
      | None => None
      end
  | [], None :: _ => None
  | t :: ts, Some z :: more => if argty_ok t z then option_map (cons z) (check_args ts rest more) else None
  | _ :: _, _ => None
  end.

Definition run_sub (sc : subcmd) (args : list (option Z)) : outcome :=
  match check_args (sc_args sc) (sc_rest sc) args with
  | Some zs => sc_gen sc zs
  | None => OCliError
  end.

(* ---- generators ---- *)
Definition always_formula (_ : list Z) : outcome := OFormula.

Definition is_pow2 (b : Z) : bool := Z.land b (b - 1) =? 0.
Definition gen_cpls (zs : list Z) : outcome :=
  match zs with
  | [a; b; c] => if is_pow2 b && is_pow2 c then OFormula else OCliError
  | _ => OCliError
  end.

Fixpoint binom (n k : nat) : Z :=
  match k, n with
  | O, _ => 1
  | S _, O => 0
  | S k', S n' => binom n' k' + binom n' (S k')
  end.
(* RandomKCNF(k,n,m): ValueError iff k > n or m exceeds the number of clauses
   compatible with the planted assignments (0 or 1 of them on the command line) *)
Definition gen_randkcnf (planted : bool) (zs : list Z) : outcome :=
  match zs with
  | [k; n; m] =>
      if k >? n then OCliError
      else let total := binom (Z.to_nat n) (Z.to_nat k) * (2 ^ k - (if planted then 1 else 0)) in
           if m >? total then OCliError else OFormula
  | _ => OCliError
  end.
Definition gen_randkxor (planted : bool) (zs : list Z) : outcome :=
  match zs with
  | [k; n; m] =>
      if k >? n then OCliError
      else let total := binom (Z.to_nat n) (Z.to_nat k) * (if planted then 1 else 2) in
           if m >? total then OCliError else OFormula
  | _ => OCliError
  end.

(* van der Waerden: the pinned tree divides by (k-1) *)
Definition gen_vdw_as_found (zs : list Z) : outcome :=
  match zs with
  | _ :: ks => if existsb (fun k => k =? 1) ks then OCrash else OFormula
  | [] => OCliError
  end.

(* Pitfall: needs a d-regular graph on v vertices (d < v, v*d even) and, for the
   pipe gadget, at least two safety variables *)
Definition gen_pitfall (zs : list Z) : outcome :=
  match zs with
  | [v; d; ny; nz; k] =>
      if (d >=? v) || Z.odd (v * d) then OCliError
      else if nz <? 2 then OCliError else OFormula
  | _ => OCliError
  end.
Definition gen_pitfall_as_found (zs : list Z) : outcome :=
  match zs with
  | [v; d; ny; nz; k] =>
      if (d >? v) || Z.odd (v * d) then OCliError
      else if d =? v then OCrash            (* networkx refuses d = v: NetworkXError escapes *)
      else if nz <? 2 then OCrash           (* del CS[nx]: IndexError *)
      else OFormula
  | _ => OCliError
  end.

Definition gen_op (zs : list Z) : outcome :=
  match zs with [n] => if n <? 0 then OCliError else OFormula | _ => OCliError end.

(* php N | php M N | php M N D (D <= N) *)
Definition gen_php (zs : list Z) : outcome :=
  match zs with
  | [_] | [_; _] => OFormula
  | [_; n; d] => if n <? d then OCliError else OFormula
  | _ => OCliError
  end.

Definition table (planted : bool) : list subcmd := [
  mksub "and" [TNonNeg; TNonNeg] None always_formula;
  mksub "or" [TNonNeg; TNonNeg] None always_formula;
  mksub "bphp" [TPos; TPos] None always_formula;
  mksub "cliquecoloring" [TNonNeg; TPos; TPos] None always_formula;
  mksub "count" [TNonNeg; TPos] None always_formula;
  mksub "parity" [TNonNeg] None always_formula;
  mksub "ptn" [TNonNeg] None always_formula;
  mksub "ram" [TPos; TPos; TNonNeg] None always_formula;
  mksub "rphp" [TNonNeg; TNonNeg; TNonNeg] None always_formula;
  mksub "cpls" [TPos; TPos; TPos] None gen_cpls;
  mksub "vdw" [TNonNeg; TPos; TPos] (Some TPos) always_formula;
  mksub "randkcnf" [TPos; TPos; TNonNeg] None (gen_randkcnf planted);
  mksub "randkxor" [TPos; TPos; TNonNeg] None (gen_randkxor planted);
  mksub "pitfall" [TPos; TPos; TPos; TPos; TPosEven] None gen_pitfall;
  mksub "op" [TAnyInt] None gen_op;
  mksub "php" [TNonNeg] (Some TNonNeg) gen_php
].

Definition table_as_found (planted : bool) : list subcmd :=
  map (fun sc => if String.eqb (sc_name sc) "vdw" then mksub "vdw" [TNonNeg; TPos; TPos] (Some TPos) gen_vdw_as_found
                 else if String.eqb (sc_name sc) "pitfall" then mksub "pitfall" [TPos; TPos; TPos; TPos; TPosEven] None gen_pitfall_as_found
                 else sc) (table planted).

Fixpoint find_sub (name : string) (t : list subcmd) : option subcmd :=
  match t with
  | [] => None
  | sc :: more => if String.eqb (sc_name sc) name then Some sc else find_sub name more
  end.

Definition run_cli (t : list subcmd) (name : string) (args : list (option Z)) : outcome :=
  match find_sub name t with
  | Some sc => run_sub sc args
  | None => OCliError
  end.

(* ---- splitting around -T (parse_command_line) ---- *)
Fixpoint split_T_aux (cur : list string) (argv : list string) : list (list string) :=
  match argv with
  | [] => [rev cur]
  | a :: more => if String.eqb a "-T" then rev cur :: split_T_aux [] more else split_T_aux (a :: cur) more
  end.
Definition split_T (argv : list string) : list (list string) := split_T_aux [] argv.
Definition join_T (chunks : list (list string)) : list string :=
  match chunks with
  | [] => []
  | c :: more => c ++ flat_map (fun d => "-T"%string :: d) more
  end.
