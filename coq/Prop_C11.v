(* Property C11 — variable groups map indices to identifiers bijectively, with names
   aligned; and the allocation-history part of C10 (variable count bounds every
   mentioned variable, new identifiers are fresh).  ONLY statements; every proof is
   `exact <lemma>`.  Model: coq/Vars.v; lemmas: VarsLists/VarsFacts/VarsBip/VarsComb/VarsHistory. *)
From Coq Require Import ZArith List Bool String.
From Cnfgen Require Import Sem Comb Vars VarsFacts VarsBip VarsComb VarsHistory VarsPatterns.
Import ListNotations.
Open Scope Z_scope.

(* [shape_wf s]: what the constructors check (at least one non-negative range; n,k >= 0;
   n,m >= 1 for binary mappings) and, for graph-indexed groups, duplicate-free neighbour
   lists — implied by the strictly increasing lists cnfgen's graph objects maintain: *)
Theorem C11_graph_hypothesis : forall adj, Forall increasing adj -> adj_nodup adj.
Proof. exact adj_increasing_nodup. Qed.
Print Assumptions C11_graph_hypothesis.

Theorem C11_created_groups_are_wf : forall fix2 g, vg_create fix2 g = Created -> graph_wf (g_shape g) -> shape_wf (g_shape g).
Proof. exact created_wf. Qed.
Print Assumptions C11_created_groups_are_wf.

(* every group kind (single, block, combinations / permutations / words, bipartite /
   directed / simple graph edges, unary / sparse / binary mapping), every shape
   (empty ranges and empty graphs included), every offset *)

(* the group occupies off+1 .. off+size and enumerates its legal indices in identifier order *)
Theorem C11_ids_contiguous_in_enumeration_order : forall off s, 0 <= off -> shape_wf s ->
  map (vg_to_id off s) (vg_indices s) = map Some (zrange (off + 1) (off + gsize s + 1)).
Proof. exact w_enum. Qed.
Print Assumptions C11_ids_contiguous_in_enumeration_order.

Theorem C11_size : forall off s, 0 <= off -> shape_wf s -> len (vg_indices s) = gsize s.
Proof. exact w_size. Qed.
Print Assumptions C11_size.

Theorem C11_indices_distinct : forall off s, 0 <= off -> shape_wf s -> NoDup (vg_indices s).
Proof. exact w_nodup. Qed.
Print Assumptions C11_indices_distinct.

(* index -> identifier -> index, for the positive and for the negative literal *)
Theorem C11_index_id_index : forall off s, 0 <= off -> shape_wf s -> forall i x,
  In i (vg_indices s) -> vg_to_id off s i = Some x ->
  vg_to_index off s x = Some i /\ vg_to_index off s (- x) = Some i /\ off + 1 <= x <= off + gsize s.
Proof. exact w_index_of_id. Qed.
Print Assumptions C11_index_id_index.

(* identifier (either sign) -> index -> identifier *)
Theorem C11_id_index_id : forall off s, 0 <= off -> shape_wf s -> forall l i,
  vg_to_index off s l = Some i -> In i (vg_indices s) /\ vg_to_id off s i = Some (Z.abs l).
Proof. exact w_id_of_index. Qed.
Print Assumptions C11_id_index_id.

Theorem C11_to_index_sign_insensitive : forall off s l, vg_to_index off s (- l) = vg_to_index off s l.
Proof. exact to_index_opp. Qed.
Print Assumptions C11_to_index_sign_insensitive.

(* the whole table: to_index on off+1 .. off+size is the enumeration *)
Theorem C11_to_index_table : forall off s, 0 <= off -> shape_wf s ->
  map (vg_to_index off s) (zrange (off + 1) (off + gsize s + 1)) = map Some (vg_indices s).
Proof. exact w_unrank_all. Qed.
Print Assumptions C11_to_index_table.

(* rejection outside the domain (None = the code raises ValueError) *)
Theorem C11_to_index_rejects_exactly_outside : forall off s, 0 <= off -> shape_wf s -> forall l,
  vg_to_index off s l = None <-> ~ (off + 1 <= Z.abs l <= off + gsize s).
Proof. exact w_to_index_none. Qed.
Print Assumptions C11_to_index_rejects_exactly_outside.

Theorem C11_to_id_accepts_only_legal : forall off s, 0 <= off -> shape_wf s -> forall i x,
  vg_to_id off s i = Some x ->
  In (canon s i) (vg_indices s) /\ vg_to_index off s x = Some (canon s i) /\ off + 1 <= x <= off + gsize s.
Proof. exact w_to_id_some. Qed.
Print Assumptions C11_to_id_accepts_only_legal.

Theorem C11_to_id_rejects_outside : forall off s, 0 <= off -> shape_wf s -> forall i,
  ~ In (canon s i) (vg_indices s) -> vg_to_id off s i = None.
Proof. exact w_to_id_rejects. Qed.
Print Assumptions C11_to_id_rejects_outside.

(* an index pattern with wildcards (None) selects the order-preserving sub-enumeration of the
   matching legal indices (positional matching; a simple graph ignores the order of the end
   points and one given vertex selects its incident edges); None = the code raises ValueError *)
Theorem C11_pattern_is_sub_enumeration : forall s pat l, shape_wf s -> pattern_indices s pat = Some l ->
  l = filter (pat_matches s pat) (vg_indices s).
Proof. exact pattern_is_filter. Qed.
Print Assumptions C11_pattern_is_sub_enumeration.

(* closed forms used by the family models *)
Theorem C11_block2_row_major : forall off n m i j, 1 <= i <= n -> 1 <= j <= m ->
  vg_to_id off (GBlock [n; m]) [i; j] = Some (off + (i - 1) * m + j).
Proof. exact block2_to_id. Qed.
Print Assumptions C11_block2_row_major.

(* the number of bits is the exact ceiling of log2 m (the code computes it in floating
   point; measured to agree for every m < 2^29) *)
Theorem C11_bitlength_exact : forall m, 1 < m -> 2 ^ (bitlength m - 1) < m <= 2 ^ bitlength m.
Proof. exact bitlength_spec. Qed.
Print Assumptions C11_bitlength_exact.

(* ---------- histories: group creation, clause insertion, raises of the variable count ---------- *)

(* C10: the variable count bounds every variable a clause mentions, provided checked
   insertions are accepted ones and unchecked insertions mention declared variables only *)
Theorem C10_numvar_bounds_mentioned : forall v ops st, inv st -> ops_ok v st ops -> inv (vm_run v st ops).
Proof. exact inv_run. Qed.
Print Assumptions C10_numvar_bounds_mentioned.

(* C10: a new group never gets an identifier that an earlier clause mentions *)
Theorem C10_fresh_allocation : forall v ops g st' off, ops_ok v vm_init ops ->
  vm_step v (vm_run v vm_init ops) (OpNewGroup g) = (st', VmAllocated off) ->
  forall c l, In c (st_clauses (vm_run v vm_init ops)) -> In l c -> Z.abs l <= off.
Proof. exact fresh_in_history. Qed.
Print Assumptions C10_fresh_allocation.

(* without the side condition it fails: a checked insertion that raises ValueError
   (literal 0) has already stored its clause *)
Theorem C10_rejected_clause_refuted : exists ops st' off,
  vm_step as_is (vm_run as_is vm_init ops) (OpNewGroup (mkgroup GSingle ["Y"%string])) = (st', VmAllocated off) /\
  exists c l, In c (st_clauses (vm_run as_is vm_init ops)) /\ In l c /\ off + 1 <= Z.abs l.
Proof. exact inv_rejected_clause_refuted. Qed.
Print Assumptions C10_rejected_clause_refuted.

(* groups are laid out in increasing disjoint ranges below the variable count *)
Theorem C11_layout : forall v ops st, layout st -> Forall op_wf ops -> layout (vm_run v st ops).
Proof. exact layout_run. Qed.
Print Assumptions C11_layout.

(* one name per variable, for the code as it is and for every history *)
Theorem C11_labels_length : forall v fixD3 dflt ops, Forall op_wf ops ->
  len (all_variable_labels fixD3 dflt (vm_run v vm_init ops)) = st_numvar (vm_run v vm_init ops).
Proof. exact labels_length_history. Qed.
Print Assumptions C11_labels_length.

(* "the i-th name is the name of variable i", full statement *)
Definition C11_labels_aligned_statement : Prop := forall ops dflt, Forall op_wf ops ->
  all_variable_labels false dflt (vm_run as_is vm_init ops) = names_of_variables dflt (vm_run as_is vm_init ops).

(* ... is FALSE of the code as it is: update_variable_number(3); new_variable('X') gives ['X','x2','x3','x4'] *)
Theorem C11_labels_refuted : exists ops dflt, Forall op_wf ops /\
  all_variable_labels false dflt (vm_run as_is vm_init ops) <> names_of_variables dflt (vm_run as_is vm_init ops).
Proof. exact labels_refuted. Qed.
Print Assumptions C11_labels_refuted.

(* ... holds for every history in which no singleton variable directly follows anonymous
   variables (fixD3 = false), and for every history with the repaired enumeration (fixD3 = true) *)
Theorem C11_labels_partial : forall v fixD3 dflt ops, Forall op_wf ops ->
  fixD3 = true \/ singles_tight 0 (st_groups (vm_run v vm_init ops)) = true ->
  all_variable_labels fixD3 dflt (vm_run v vm_init ops) = names_of_variables dflt (vm_run v vm_init ops).
Proof. exact labels_aligned_history. Qed.
Print Assumptions C11_labels_partial.

Theorem C11_labels_nth : forall v fixD3 dflt ops i, Forall op_wf ops ->
  fixD3 = true \/ singles_tight 0 (st_groups (vm_run v vm_init ops)) = true ->
  1 <= i <= st_numvar (vm_run v vm_init ops) ->
  znth (i - 1) (all_variable_labels fixD3 dflt (vm_run v vm_init ops)) = Some (vg_label_of dflt (vm_run v vm_init ops) i).
Proof. exact labels_nth_history. Qed.
Print Assumptions C11_labels_nth.

(* new_combinations_with_replacement: UnboundLocalError in the code as it is (v = false);
   with the spelling repaired the group obeys all the theorems above (kind WCombRepl) *)
Theorem C11_combinations_with_replacement_crash : forall n k fmt st, 0 <= n -> 0 <= k ->
  fmt_ok (GWords WCombRepl n k) fmt = true ->
  vm_step as_is st (OpNewGroup (mkgroup (GWords WCombRepl n k) fmt)) = (st, VmCrash).
Proof. exact combrepl_crash_as_is. Qed.
Print Assumptions C11_combinations_with_replacement_crash.

(* non-vacuity: concrete shapes meet the hypotheses and the statements compute *)
Example C11_nonvacuous :
  shape_wf (GBlock [3; 5; 4; 3]) /\ vg_to_id 3 (GBlock [3; 5; 4; 3]) [3; 5; 4; 2] = Some 182 /\
  vg_to_index 3 (GBlock [3; 5; 4; 3]) (-182) = Some [3; 5; 4; 2] /\
  shape_wf (DiEdges [[2; 3]; [3; 4]; []; []; [1]] true) /\
  vg_indices (DiEdges [[2; 3]; [3; 4]; []; []; [1]] true) = [[5; 1]; [1; 2]; [1; 3]; [2; 3]; [2; 4]] /\
  vg_to_id 11 (DiEdges [[2; 3]; [3; 4]; []; []; [1]] true) [1; 3] = Some 14 /\
  vg_to_index 0 (BinMap 10 13) (-41) = None /\ vg_to_index 10 (BinMap 10 13) (-18) = Some [2; 0] /\
  vg_to_id 0 (GraphEdges [[2; 3]; [1; 3; 4]; [1; 2]; [2]]) [3; 1] = Some 2 /\
  vg_indices (GWords WPerm 3 2) = [[1; 2]; [1; 3]; [2; 1]; [2; 3]; [3; 1]; [3; 2]] /\
  pattern_indices (GraphEdges [[2; 3]; [1; 3; 4]; [1; 2]; [2]]) [Some 2; None] = Some [[1; 2]; [2; 3]; [2; 4]] /\
  pattern_indices (GBlock [2; 3]) [None; Some 4] = None /\
  singles_tight 0 (st_groups (vm_run as_is vm_init [OpNewGroup (mkgroup GSingle ["X"%string]); OpNewGroup (mkgroup (GBlock [2; 3]) ["z"; ","; ""]%string)])) = true.
Proof.
  split; [split; [discriminate|repeat constructor; discriminate]|].
  split; [reflexivity|]. split; [reflexivity|].
  split; [repeat (constructor; try (cbn; intuition discriminate))|].
  vm_compute. repeat split.
Qed.
