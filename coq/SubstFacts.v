(* SubstFacts.v — substitutions, lifting, flip and compression compose the formula
   with the gadget (C05). *)
From Coq Require Import ZArith List Bool Lia ZifyBool.
From Cnfgen Require Import Sem Comb Linear SemFacts LinearFacts Subst.
Import ListNotations.
Open Scope Z_scope.
Ltac Zify.zify_post_hook ::= Z.to_euclidean_division_equations.

(* ---------- list helpers ---------- *)

Lemma forallb_orb_r {A} (p : A -> bool) (q : bool) l :
  forallb (fun x => p x || q) l = forallb p l || q.
Proof.
  induction l as [|x t IH]; [reflexivity|]. cbn [forallb]. rewrite IH.
  destruct (p x), q, (forallb p t); reflexivity.
Qed.
Lemma forallb_orb_l {A} (p : A -> bool) (q : bool) l :
  forallb (fun x => q || p x) l = q || forallb p l.
Proof.
  induction l as [|x t IH]; [now destruct q|]. cbn [forallb]. rewrite IH.
  destruct (p x), q, (forallb p t); reflexivity.
Qed.
Lemma forallb_flat_map {A B} (p : B -> bool) (f : A -> list B) l :
  forallb p (flat_map f l) = forallb (fun x => forallb p (f x)) l.
Proof. induction l as [|x t IH]; [reflexivity|]. cbn [flat_map forallb]. now rewrite forallb_app, IH. Qed.
Lemma negb_existsb {A} (p : A -> bool) l : negb (existsb p l) = forallb (fun x => negb (p x)) l.
Proof. induction l as [|x t IH]; [reflexivity|]. cbn [existsb forallb]. now rewrite negb_orb, IH. Qed.
Lemma existsb_ext_in {A} (p q : A -> bool) l : (forall x, In x l -> p x = q x) -> existsb p l = existsb q l.
Proof. induction l as [|x t IH]; cbn; intros H; [reflexivity|]. rewrite H by auto. f_equal. apply IH. auto. Qed.

Lemma in_zrange x a b : In x (zrange a b) <-> a <= x < b.
Proof.
  unfold zrange. rewrite in_map_iff. split.
  - intros [i [E Hi]]. apply in_seq in Hi. lia.
  - intros H. exists (Z.to_nat (x - a)). split; [lia|]. apply in_seq. lia.
Qed.
Lemma len_zrange a b : len (zrange a b) = Z.max 0 (b - a).
Proof. unfold zrange, len. rewrite map_length, seq_length. lia. Qed.

(* ---------- literals ---------- *)

Lemma lit_pos d l : 0 < l -> Z.abs l = l /\ (l >? 0) = true /\ lit_true d l = d l.
Proof. intros H. repeat split; [lia|lia|now apply lit_true_pos]. Qed.
Lemma lit_neg d l : l < 0 -> Z.abs l = - l /\ (l >? 0) = false /\ lit_true d l = negb (d (- l)).
Proof.
  intros H. repeat split; [lia|lia|]. unfold lit_true. destruct (Z.gtb_spec l 0); [lia|reflexivity].
Qed.
Lemma lits_ok_pos ls : (forall x, In x ls -> 0 < x) -> lits_ok ls = true.
Proof.
  intros H. unfold lits_ok. apply forallb_forall. intros x Hx. apply nonzero_spec. specialize (H x Hx). lia.
Qed.

(* ---------- apply_substitution distributes the disjunction of CNFs ---------- *)

Lemma prod_concat_sem a (Ds : list cnf) :
  cnf_sat a (map (@concat Z) (prod Ds)) = existsb (cnf_sat a) Ds.
Proof.
  induction Ds as [|D Ds IH]; [reflexivity|].
  cbn [prod existsb]. rewrite cnf_sat_map in *. rewrite forallb_flat_map.
  rewrite (forallb_ext _ (fun x => clause_sat a x || existsb (cnf_sat a) Ds)).
  - rewrite forallb_orb_r. reflexivity.
  - intros x. rewrite forallb_map.
    rewrite (forallb_ext _ (fun t => clause_sat a x || clause_sat a (concat t))).
    + rewrite forallb_orb_l, IH. reflexivity.
    + intros t. cbn [concat]. apply clause_sat_app.
Qed.

Lemma subst_clause_sem a g c :
  cnf_sat a (subst_clause g c) = existsb (fun l => cnf_sat a (g l)) c.
Proof. unfold subst_clause. rewrite prod_concat_sem. apply existsb_map. Qed.

Lemma lits_in_range_in N F c l : lits_in_range N F = true -> In c F -> In l c -> l <> 0 /\ Z.abs l <= N.
Proof.
  unfold lits_in_range. intros H Hc Hl. rewrite forallb_forall in H. specialize (H c Hc).
  rewrite forallb_forall in H. specialize (H l Hl). apply andb_true_iff in H as [H1 H2].
  apply nonzero_spec in H1. lia.
Qed.

(* the generic theorem: the gadget of every literal in range means the literal
   under the induced assignment [d]  ==>  the substituted formula means F under [d] *)
Theorem apply_subst_sem a (d : Z -> bool) g N F :
  (forall l, l <> 0 -> Z.abs l <= N -> cnf_sat a (g l) = lit_true d l) ->
  lits_in_range N F = true ->
  cnf_sat a (apply_subst F g) = cnf_sat d F.
Proof.
  intros Hg HF. unfold apply_subst. rewrite cnf_sat_flat_map. unfold cnf_sat at 2.
  apply forallb_ext_in. intros c Hc. rewrite subst_clause_sem. unfold clause_sat.
  apply existsb_ext_in. intros l Hl. destruct (lits_in_range_in N F c l HF Hc Hl) as [H1 H2].
  now apply Hg.
Qed.

(* ---------- the block of new variables ---------- *)

Lemma in_subst_block k v x : In x (subst_block k v) -> (v - 1) * k < x <= v * k.
Proof.
  unfold subst_block. rewrite in_map_iff. intros [i [E Hi]]. apply in_zrange in Hi. nia.
Qed.
Lemma subst_block_pos k v x : 0 < v -> In x (subst_block k v) -> 0 < x.
Proof. intros Hv Hx. apply in_subst_block in Hx. assert (0 <= k) by nia. nia. Qed.
Lemma subst_block_ok k v : 0 < v -> lits_ok (subst_block k v) = true.
Proof. intros Hv. apply lits_ok_pos. intros x. now apply subst_block_pos. Qed.
Lemma len_subst_block k v : 0 <= k -> len (subst_block k v) = k.
Proof. intros H. unfold subst_block. rewrite len_map, len_zrange. lia. Qed.

(* on positive literals lit_true is the assignment *)
Lemma count_true_posvars a ls : (forall x, In x ls -> 0 < x) ->
  existsb (lit_true a) ls = existsb a ls /\ forallb (lit_true a) ls = forallb a ls.
Proof.
  intros H. split.
  - apply existsb_ext_in. intros x Hx. apply lit_true_pos. auto.
  - apply forallb_ext_in. intros x Hx. apply lit_true_pos. auto.
Qed.

(* ---------- gadget lemmas ---------- *)

Ltac lit_split l Hl d :=
  let H := fresh "Hs" in
  assert (H : 0 < l \/ l < 0) by lia;
  destruct H as [H|H];
  [ destruct (lit_pos d l H) as [?Habs [?Hgt ?Hlt]] | destruct (lit_neg d l H) as [?Habs [?Hgt ?Hlt]] ].

Lemma flip_gadget_sem a l : l <> 0 -> cnf_sat a (flip_gadget l) = lit_true (dec_flip a) l.
Proof.
  intros Hl. unfold flip_gadget. cbn [cnf_sat forallb clause_sat existsb].
  rewrite orb_false_r, andb_true_r, lit_true_opp by assumption.
  unfold lit_true, dec_flip. destruct (l >? 0); [reflexivity|]. now rewrite negb_involutive.
Qed.

Lemma xorify_sem k a l : l <> 0 -> cnf_sat a (xorify k l) = lit_true (dec_xor k a) l.
Proof.
  intros Hl. unfold xorify, polarity, dec_xor. lit_split l Hl (fun v => parity_of a (subst_block k v)).
  - rewrite Hlt, Habs, Hgt, add_parity_sem by (apply subst_block_ok; lia).
    cbn. now destruct (parity_of a (subst_block k l)).
  - rewrite Hlt, Habs, Hgt, add_parity_sem by (apply subst_block_ok; lia).
    cbn. now destruct (parity_of a (subst_block k (- l))).
Qed.

Lemma orify_sem k a l : l <> 0 -> cnf_sat a (orify k l) = lit_true (dec_or k a) l.
Proof.
  intros Hl. unfold orify, dec_or. lit_split l Hl (fun v => existsb a (subst_block k v)).
  - rewrite Hlt, Habs, Hgt. cbn [cnf_sat forallb]. rewrite andb_true_r. unfold clause_sat.
    apply count_true_posvars. intros x. apply subst_block_pos. lia.
  - rewrite Hlt, Habs, Hgt, negb_existsb, cnf_sat_map. apply forallb_ext_in. intros x Hx.
    cbn [clause_sat existsb]. rewrite orb_false_r. apply lit_true_neg.
    apply (subst_block_pos k (- l)); [lia|assumption].
Qed.

Lemma majorify_sem k a l : 0 <= k -> l <> 0 -> cnf_sat a (majorify k l) = lit_true (dec_maj k a) l.
Proof.
  intros Hk Hl. unfold majorify, dec_maj. lit_split l Hl (fun v => 2 * count_true a (subst_block k v) >=? k).
  - rewrite Hlt, Habs, Hgt, loose_majority_sem, len_subst_block by assumption. reflexivity.
  - rewrite Hlt, Habs, Hgt, strict_minority_sem, len_subst_block by (try apply subst_block_ok; lia). lia.
Qed.

Lemma flip_each_neq ls : flip_each ls = neq_clauses ls 1.
Proof.
  induction ls as [|x t IH]; [reflexivity|]. cbn [flip_each neq_clauses]. rewrite IH.
  replace (neq_clauses t 0) with [t] by (destruct t; reflexivity). reflexivity.
Qed.

Lemma oneify_sem k a l : l <> 0 -> cnf_sat a (oneify k l) = lit_true (dec_one k a) l.
Proof.
  intros Hl. unfold oneify, dec_one. lit_split l Hl (fun v => count_true a (subst_block k v) =? 1).
  - rewrite Hlt, Habs, Hgt, add_linear_sem by (apply subst_block_ok; lia). reflexivity.
  - rewrite Hlt, Habs, Hgt, flip_each_neq, neq_clauses_sem by (apply subst_block_ok; lia). reflexivity.
Qed.

Lemma cop_negop o x C : cop_holds (negop o) x C = negb (cop_holds o x C).
Proof. destruct o; cbn [negop cop_holds]; lia. Qed.

Lemma linear_gadget_sem k o C a l : l <> 0 ->
  cnf_sat a (linear_gadget k o C l) = lit_true (dec_linear k o C a) l.
Proof.
  intros Hl. unfold linear_gadget, dec_linear.
  lit_split l Hl (fun v => cop_holds o (count_true a (subst_block k v)) C).
  - rewrite Hlt, Habs, Hgt, add_linear_sem by (apply subst_block_ok; lia). reflexivity.
  - rewrite Hlt, Habs, Hgt, add_linear_sem, cop_negop by (apply subst_block_ok; lia). reflexivity.
Qed.

(* ---------- all-equal / not-all-equal ---------- *)

Definition posl (ls : list Z) : Prop := forall x, In x ls -> 0 < x.
Lemma posl_tl x t : posl (x :: t) -> 0 < x /\ posl t.
Proof. intros H. split; [apply H; now left|]. intros y Hy. apply H. now right. Qed.

Lemma chain_cons2 a x y t : cnf_sat a (chain (x :: y :: t)) = clause_sat a [- x; y] && cnf_sat a (chain (y :: t)).
Proof. reflexivity. Qed.
Lemma imp_clause a x y : 0 < x -> 0 < y -> clause_sat a [- x; y] = negb (a x) || a y.
Proof.
  intros Hx Hy. cbn [clause_sat existsb]. now rewrite orb_false_r, lit_true_neg, lit_true_pos.
Qed.

Lemma chain_up a : forall t x, posl (x :: t) ->
  cnf_sat a (chain (x :: t)) = true -> a x = true -> forallb a t = true.
Proof.
  induction t as [|y t IH]; intros x Hp Hc Hx; [reflexivity|].
  destruct (posl_tl _ _ Hp) as [Px Pt]. destruct (posl_tl _ _ Pt) as [Py _].
  rewrite chain_cons2, imp_clause, Hx in Hc by assumption. cbn [negb orb] in Hc.
  apply andb_true_iff in Hc as [Hy Hc]. cbn [forallb]. rewrite Hy. cbn [andb]. now apply (IH y).
Qed.
Lemma chain_down a : forall t x, posl (x :: t) ->
  cnf_sat a (chain (x :: t)) = true -> a (last (x :: t) 0) = false ->
  forallb (fun z => negb (a z)) (x :: t) = true.
Proof.
  induction t as [|y t IH]; intros x Hp Hc Hl.
  - cbn in Hl. cbn. now rewrite Hl.
  - destruct (posl_tl _ _ Hp) as [Px Pt]. destruct (posl_tl _ _ Pt) as [Py _].
    rewrite chain_cons2, imp_clause in Hc by assumption. apply andb_true_iff in Hc as [Hxy Hc].
    assert (Hr : forallb (fun z => negb (a z)) (y :: t) = true).
    { apply IH; [assumption|assumption|]. exact Hl. }
    cbn [forallb] in Hr |- *. rewrite Hr. apply andb_true_iff in Hr as [Hy _].
    destruct (a x), (a y); cbn in *; congruence.
Qed.
Lemma chain_all_true a : forall t x, posl (x :: t) -> forallb a (x :: t) = true -> cnf_sat a (chain (x :: t)) = true.
Proof.
  induction t as [|y t IH]; intros x Hp H; [reflexivity|].
  destruct (posl_tl _ _ Hp) as [Px Pt]. destruct (posl_tl _ _ Pt) as [Py _].
  rewrite chain_cons2, imp_clause by assumption. cbn [forallb] in H. apply andb_true_iff in H as [Hx H].
  rewrite IH by assumption. cbn [forallb] in H. apply andb_true_iff in H as [Hy _]. now rewrite Hy, orb_true_r.
Qed.
Lemma chain_all_false a : forall t x, posl (x :: t) ->
  forallb (fun z => negb (a z)) (x :: t) = true -> cnf_sat a (chain (x :: t)) = true.
Proof.
  induction t as [|y t IH]; intros x Hp H; [reflexivity|].
  destruct (posl_tl _ _ Hp) as [Px Pt]. destruct (posl_tl _ _ Pt) as [Py _].
  rewrite chain_cons2, imp_clause by assumption. cbn [forallb] in H. apply andb_true_iff in H as [Hx H].
  rewrite IH by assumption. now rewrite Hx.
Qed.
Lemma last_in {A} (x : A) t d : In (last (x :: t) d) (x :: t).
Proof.
  revert x. induction t as [|y t IH]; intros x; [now left|]. right. apply (IH y).
Qed.

Lemma ae_pos_sem a x t : posl (x :: t) ->
  cnf_sat a ([hd 0 (x :: t); - last (x :: t) 0] :: chain (x :: t)) = all_eq a (x :: t).
Proof.
  intros Hp. destruct (posl_tl _ _ Hp) as [Px Pt].
  assert (Pl : 0 < last (x :: t) 0) by (apply Hp, last_in).
  rewrite cnf_sat_cons. cbn [hd clause_sat existsb]. rewrite orb_false_r, lit_true_pos, lit_true_neg by assumption.
  unfold all_eq. apply eq_iff_eq_true. rewrite andb_true_iff, !orb_true_iff. split.
  - intros [[Hx|Hl] Hc].
    + left. cbn [forallb]. rewrite Hx. now apply (chain_up a t x).
    + right. apply chain_down; [assumption|assumption|]. now destruct (a (last (x :: t) 0)).
  - intros [H|H].
    + split; [|now apply chain_all_true]. left. cbn [forallb] in H. now apply andb_true_iff in H as [H _].
    + split; [|now apply chain_all_false]. right. rewrite forallb_forall in H. apply H, last_in.
Qed.

Lemma negb_forallb {A} (p : A -> bool) l : negb (forallb p l) = existsb (fun x => negb (p x)) l.
Proof. induction l as [|x t IH]; [reflexivity|]. cbn [existsb forallb]. now rewrite negb_andb, IH. Qed.

Lemma ae_neg_sem a ls : posl ls -> cnf_sat a [ls; map Z.opp ls] = negb (all_eq a ls).
Proof.
  intros Hp. cbn [cnf_sat forallb]. rewrite andb_true_r. unfold all_eq, clause_sat.
  rewrite negb_orb, !negb_forallb, existsb_map.
  rewrite (existsb_ext_in (lit_true a) a) by (intros x Hx; apply lit_true_pos; auto).
  rewrite (existsb_ext_in (fun x => lit_true a (- x)) (fun x => negb (a x))) by (intros x Hx; apply lit_true_neg; auto).
  rewrite (existsb_ext (fun x => negb (negb (a x))) a) by (intros; apply negb_involutive).
  apply andb_comm.
Qed.

Lemma subst_block_cons k v : 1 <= k -> exists x t, subst_block k v = x :: t.
Proof.
  intros Hk. pose proof (len_subst_block k v ltac:(lia)) as H.
  destruct (subst_block k v) as [|x t]; [cbn in H; lia|]. now exists x, t.
Qed.
Lemma posl_block k v : 0 < v -> posl (subst_block k v).
Proof. intros Hv x. now apply subst_block_pos. Qed.

Lemma aesubst_sem k inv a l : 1 <= k -> l <> 0 -> cnf_sat a (aesubst k inv l) = lit_true (dec_eq k inv a) l.
Proof.
  intros Hk Hl. unfold aesubst, dec_eq.
  lit_split l Hl (fun v => xorb inv (all_eq a (subst_block k v))); rewrite Hlt, Habs.
  - destruct (subst_block_cons k l Hk) as [x [t E]].
    pose proof (posl_block k l Hs) as Hp. rewrite E in *.
    destruct inv.
    + replace (- l >? 0) with false by lia. rewrite ae_neg_sem by assumption. now destruct (all_eq a (x :: t)).
    + rewrite Hgt, ae_pos_sem by assumption. now destruct (all_eq a (x :: t)).
  - destruct (subst_block_cons k (- l) Hk) as [x [t E]].
    pose proof (posl_block k (- l) ltac:(lia)) as Hp. rewrite E in *.
    destruct inv.
    + replace (- l >? 0) with true by lia. rewrite ae_pos_sem by assumption. now destruct (all_eq a (x :: t)).
    + rewrite Hgt, ae_neg_sem by assumption. now destruct (all_eq a (x :: t)).
Qed.

(* ---------- if-then-else ---------- *)

Lemma ite_gadget_sem N a l : 0 <= N -> l <> 0 -> cnf_sat a (ite_gadget N l) = lit_true (dec_ite N a) l.
Proof.
  intros HN Hl. unfold ite_gadget, dec_ite.
  lit_split l Hl (fun v => if a v then a (N + v) else a (2 * N + v)); rewrite Hlt, Habs.
  - rewrite Z.div_same by lia. cbn [cnf_sat forallb clause_sat existsb].
    rewrite !Z.mul_1_l, !orb_false_r, andb_true_r, lit_true_neg, !lit_true_pos by lia.
    destruct (a l), (a (N + l)), (a (2 * N + l)); reflexivity.
  - replace (l / - l) with (-1) by (apply (Z.div_unique l (- l) (-1) 0); lia).
    cbn [cnf_sat forallb clause_sat existsb].
    replace (-1 * (N + - l)) with (- (N + - l)) by lia. replace (-1 * (2 * N + - l)) with (- (2 * N + - l)) by lia.
    rewrite !orb_false_r, andb_true_r, (lit_true_neg a (N + - l)), (lit_true_neg a (2 * N + - l)), (lit_true_neg a (- l)),
      (lit_true_pos a (- l)) by lia.
    destruct (a (- l)), (a (N + - l)), (a (2 * N + - l)); reflexivity.
Qed.

(* ---------- lifting ---------- *)

Lemma sel_zero a (Y : Z -> Z) : forall js, (forall i, In i js -> 0 < Y i) ->
  count_true a (map Y js) = 0 -> forall i, In i js -> a (Y i) = false.
Proof.
  induction js as [|j t IH]; intros Hp Hc i Hi; [destruct Hi|].
  cbn [map count_true] in Hc. pose proof (count_true_range a (map Y t)) as Hr.
  rewrite lit_true_pos in Hc by (apply Hp; now left).
  destruct Hi as [<-|Hi].
  - destruct (a (Y j)); [cbn [b2z] in Hc; lia|reflexivity].
  - apply IH; [intros; apply Hp; now right| |assumption]. destruct (a (Y j)); cbn [b2z] in Hc; lia.
Qed.

Lemma lift_core_pos a (Y X : Z -> Z) : forall js, (forall i, In i js -> 0 < Y i) ->
  count_true a (map Y js) = 1 ->
  forallb (fun i => negb (a (Y i)) || a (X i)) js = existsb (fun i => a (Y i) && a (X i)) js.
Proof.
  induction js as [|j t IH]; intros Hp Hc; [cbn in Hc; lia|].
  cbn [map count_true] in Hc. rewrite lit_true_pos in Hc by (apply Hp; now left).
  assert (Hpt : forall i, In i t -> 0 < Y i) by (intros; apply Hp; now right).
  cbn [forallb existsb]. destruct (a (Y j)) eqn:Ej; cbn [b2z negb orb andb] in *.
  - assert (Hz : count_true a (map Y t) = 0) by lia.
    pose proof (sel_zero a Y t Hpt Hz) as Hf.
    rewrite (forallb_true (fun i => negb (a (Y i)) || a (X i))) by (intros i Hi; now rewrite Hf).
    replace (existsb (fun i => a (Y i) && a (X i)) t) with false.
    + now rewrite andb_true_r, orb_false_r.
    + symmetry. apply not_true_is_false. intros H. apply existsb_exists in H as [i [Hi H]]. rewrite Hf in H by assumption. discriminate.
  - apply IH; [assumption|lia].
Qed.

Lemma lift_core_neg a (Y X : Z -> Z) js :
  forallb (fun i => negb (a (Y i)) || negb (a (X i))) js = negb (existsb (fun i => a (Y i) && a (X i)) js).
Proof. rewrite negb_existsb. apply forallb_ext. intros i. now rewrite negb_andb. Qed.

Lemma lift_xy_pos k v i : 0 <= k -> 0 < v -> 0 < i -> 0 < lift_x k v i /\ 0 < lift_y k v i.
Proof. intros. unfold lift_x, lift_y. nia. Qed.

Definition ysel (k v : Z) : list Z := map (lift_y k v) (zrange 1 (k + 1)).

Lemma lift_gadget_sem k a l : 0 <= k -> l <> 0 ->
  count_true a (ysel k (Z.abs l)) = 1 ->
  cnf_sat a (lift_gadget k l) = lit_true (dec_lift k a) l.
Proof.
  intros Hk Hl. unfold lift_gadget, dec_lift, ysel.
  lit_split l Hl (fun v => existsb (fun i => a (lift_y k v i) && a (lift_x k v i)) (zrange 1 (k + 1)));
    rewrite Hlt, Habs; intros Hc; rewrite cnf_sat_map.
  - rewrite Z.div_same by lia.
    rewrite <- (lift_core_pos a (lift_y k l) (lift_x k l)); [|intros i Hi; apply in_zrange in Hi; apply lift_xy_pos; lia|assumption].
    apply forallb_ext_in. intros i Hi. apply in_zrange in Hi.
    destruct (lift_xy_pos k l i) as [Px Py]; try lia.
    cbn [clause_sat existsb]. rewrite orb_false_r, Z.mul_1_l.
    fold (lift_x k l i). replace ((l - 1) * 2 * k + k + i) with (lift_y k l i) by reflexivity.
    now rewrite lit_true_neg, lit_true_pos.
  - replace (l / - l) with (-1) by (apply (Z.div_unique l (- l) (-1) 0); lia).
    rewrite <- lift_core_neg. apply forallb_ext_in. intros i Hi. apply in_zrange in Hi.
    destruct (lift_xy_pos k (- l) i) as [Px Py]; try lia.
    cbn [clause_sat existsb]. rewrite orb_false_r.
    fold (lift_x k (- l) i). replace ((- l - 1) * 2 * k + k + i) with (lift_y k (- l) i) by reflexivity.
    replace (-1 * lift_x k (- l) i) with (- lift_x k (- l) i) by lia.
    now rewrite !lit_true_neg.
Qed.

(* zrange a b is a shift of zrange 0 (b-a) *)
Lemma map_zrange_shift {B} (f : Z -> B) a b :
  map f (zrange a b) = map (fun i => f (a + i)) (zrange 0 (b - a)).
Proof.
  unfold zrange. rewrite !map_map. replace (b - a - 0) with (b - a) by lia.
  apply map_ext. intros n. reflexivity.
Qed.

Lemma range_step_selectors N k : 1 <= k -> 0 <= N ->
  range_step (k + 1) (2 * k * N + 1) (2 * k) = map (fun v => lift_y k v 1) (zrange 1 (N + 1)).
Proof.
  intros Hk HN. unfold range_step.
  replace ((2 * k * N + 1 - (k + 1) + 2 * k - 1) / (2 * k)) with N.
  2:{ apply (Z.div_unique _ (2 * k) N (k - 1)); lia. }
  rewrite (map_zrange_shift (fun v => lift_y k v 1) 1 (N + 1)).
  replace (N + 1 - 1) with N by lia. apply map_ext. intros j. unfold lift_y. lia.
Qed.

Lemma selectors_sem N k a : 1 <= k -> 0 <= N ->
  cnf_sat a (lift_selectors N k) = selectors_ok N k a.
Proof.
  intros Hk HN. unfold lift_selectors, selectors_ok. rewrite range_step_selectors by assumption.
  rewrite cnf_sat_flat_map, forallb_map. apply forallb_ext_in. intros v Hv. apply in_zrange in Hv.
  assert (E : map (fun i => lift_y k v 1 + i) (zrange 0 k) = map (lift_y k v) (zrange 1 (k + 1))).
  { rewrite (map_zrange_shift (lift_y k v) 1 (k + 1)). replace (k + 1 - 1) with k by lia.
    apply map_ext. intros i. unfold lift_y. lia. }
  rewrite E, add_linear_sem; [reflexivity|].
  apply lits_ok_pos. intros x Hx. apply in_map_iff in Hx as [i [<- Hi]]. apply in_zrange in Hi.
  apply lift_xy_pos; lia.
Qed.

Theorem lift_sem N k F a : 1 <= k -> 0 <= N -> lits_in_range N F = true ->
  cnf_sat a (lift_selectors N k ++ apply_subst F (lift_gadget k)) =
  selectors_ok N k a && cnf_sat (dec_lift k a) F.
Proof.
  intros Hk HN HF. rewrite cnf_sat_app, selectors_sem by assumption.
  destruct (selectors_ok N k a) eqn:Hs; [|reflexivity]. cbn [andb].
  apply (apply_subst_sem a (dec_lift k a) (lift_gadget k) N F); [|assumption].
  intros l Hl Hr. apply lift_gadget_sem; [lia|assumption|].
  unfold selectors_ok in Hs. rewrite forallb_forall in Hs.
  specialize (Hs (Z.abs l)). unfold ysel. apply Z.eqb_eq, Hs, in_zrange. lia.
Qed.

(* ---------- compression ---------- *)

Lemma right_nbrs_ok R adj v x : adj_ok R adj = true -> In x (right_nbrs adj v) -> 1 <= x <= R.
Proof.
  unfold adj_ok, right_nbrs. intros H Hx. rewrite forallb_forall in H.
  destruct (nth_in_or_default (Z.to_nat (v - 1)) adj []) as [Hin|E].
  - specialize (H _ Hin). rewrite forallb_forall in H. specialize (H x Hx). lia.
  - rewrite E in Hx. destruct Hx.
Qed.

Lemma comp_xor_sem R adj a l : adj_ok R adj = true -> l <> 0 ->
  cnf_sat a (comp_xor adj l) = lit_true (dec_comp_xor adj a) l.
Proof.
  intros Hadj Hl. unfold comp_xor, polarity, dec_comp_xor.
  assert (Hok : forall v, lits_ok (right_nbrs adj v) = true).
  { intros v. apply lits_ok_pos. intros x Hx. apply (right_nbrs_ok R adj v x Hadj) in Hx. lia. }
  lit_split l Hl (fun v => parity_of a (right_nbrs adj v)); rewrite Hlt, Habs, Hgt, add_parity_sem by apply Hok.
  - cbn. now destruct (parity_of a (right_nbrs adj l)).
  - cbn. now destruct (parity_of a (right_nbrs adj (- l))).
Qed.

Lemma comp_maj_sem R adj a l : adj_ok R adj = true -> l <> 0 ->
  cnf_sat a (comp_maj adj l) = lit_true (dec_comp_maj adj a) l.
Proof.
  intros Hadj Hl. unfold comp_maj, dec_comp_maj.
  assert (Hok : forall v, lits_ok (right_nbrs adj v) = true).
  { intros v. apply lits_ok_pos. intros x Hx. apply (right_nbrs_ok R adj v x Hadj) in Hx. lia. }
  lit_split l Hl (fun v => 2 * count_true a (right_nbrs adj v) >=? len (right_nbrs adj v)); rewrite Hlt, Habs, Hgt.
  - now rewrite loose_majority_sem.
  - rewrite strict_minority_sem by apply Hok. lia.
Qed.

(* ---------- which literals the builders and the gadgets use ---------- *)

Definition pm_in (ls : list Z) (x : Z) : Prop := In x ls \/ In (- x) ls.
Definition cnf_lits (P : Z -> Prop) (F : cnf) : Prop := forall c, In c F -> forall x, In x c -> P x.
Definition inr (M : Z) (x : Z) : Prop := x <> 0 /\ Z.abs x <= M.

Lemma cnf_lits_app P F G : cnf_lits P F -> cnf_lits P G -> cnf_lits P (F ++ G).
Proof. intros HF HG c Hc. apply in_app_or in Hc as [Hc|Hc]; [now apply HF|now apply HG]. Qed.
Lemma cnf_lits_nil P : cnf_lits P []. Proof. intros c []. Qed.
Lemma cnf_lits_empty_clause P : cnf_lits P [[]].
Proof. intros c [<-|[]] x []. Qed.
Lemma cnf_lits_weaken (P Q : Z -> Prop) F : (forall x, P x -> Q x) -> cnf_lits P F -> cnf_lits Q F.
Proof. intros H HF c Hc x Hx. apply H. now apply (HF c). Qed.
Lemma cnf_lits_map_cons (P : Z -> Prop) y F : P y -> cnf_lits P F -> cnf_lits P (map (cons y) F).
Proof.
  intros Hy HF c Hc x Hx. apply in_map_iff in Hc as [c' [<- Hc']]. destruct Hx as [<-|Hx]; [assumption|].
  now apply (HF c').
Qed.
Lemma cnf_lits_cons (P : Z -> Prop) c F : (forall x, In x c -> P x) -> cnf_lits P F -> cnf_lits P (c :: F).
Proof. intros Hc HF c' [<-|H]; [assumption|now apply HF]. Qed.

Lemma pm_in_cons y ls x : pm_in ls x -> pm_in (y :: ls) x.
Proof. intros [H|H]; [left|right]; now right. Qed.
Lemma pm_in_inr ls M x : (forall y, In y ls -> 1 <= y <= M) -> pm_in ls x -> inr M x.
Proof. intros H [Hx|Hx]; specialize (H _ Hx); unfold inr; lia. Qed.

Lemma combs_lits : forall (l : list Z) k, cnf_lits (fun x => In x l) (combs l k).
Proof.
  induction l as [|y t IH]; intros k.
  - destruct k; [apply cnf_lits_empty_clause|apply cnf_lits_nil].
  - destruct k as [|k']; [apply cnf_lits_empty_clause|]. cbn [combs]. apply cnf_lits_app.
    + apply cnf_lits_map_cons; [now left|]. eapply cnf_lits_weaken; [|apply IH]. intros x Hx. now right.
    + eapply cnf_lits_weaken; [|apply IH]. intros x Hx. now right.
Qed.
Lemma add_geq_lits ls k : cnf_lits (fun x => In x ls) (add_geq ls k).
Proof.
  unfold add_geq. destruct (k <=? 0); [apply cnf_lits_nil|].
  destruct (k >? len ls); [apply cnf_lits_empty_clause|apply combs_lits].
Qed.
Lemma add_leq_lits ls k : cnf_lits (fun x => In (- x) ls) (add_leq ls k).
Proof.
  unfold add_leq. eapply cnf_lits_weaken; [|apply add_geq_lits].
  intros x Hx. cbn beta in Hx. apply in_map_iff in Hx as [y [<- Hy]]. now rewrite Z.opp_involutive.
Qed.
Lemma neq_clauses_lits : forall ls k, cnf_lits (pm_in ls) (neq_clauses ls k).
Proof.
  induction ls as [|y t IH]; intros k.
  - destruct k; [|apply cnf_lits_nil]. intros c [<-|[]] x [].
  - destruct k as [|k'].
    + cbn [neq_clauses]. intros c [<-|[]] x Hx. now left.
    + cbn [neq_clauses]. apply cnf_lits_app; apply cnf_lits_map_cons.
      * right. rewrite Z.opp_involutive. now left.
      * eapply cnf_lits_weaken; [apply pm_in_cons|apply IH].
      * left. now left.
      * eapply cnf_lits_weaken; [apply pm_in_cons|apply IH].
Qed.
Lemma parity_clauses_lits : forall ls w, cnf_lits (pm_in ls) (parity_clauses ls w).
Proof.
  induction ls as [|y t IH]; intros w.
  - destruct w; [apply cnf_lits_empty_clause|apply cnf_lits_nil].
  - cbn [parity_clauses]. apply cnf_lits_app; apply cnf_lits_map_cons.
    + left. now left.
    + eapply cnf_lits_weaken; [apply pm_in_cons|apply IH].
    + right. rewrite Z.opp_involutive. now left.
    + eapply cnf_lits_weaken; [apply pm_in_cons|apply IH].
Qed.
Lemma add_linear_lits ls o k : cnf_lits (pm_in ls) (add_linear ls o k).
Proof.
  assert (G : forall j, cnf_lits (pm_in ls) (add_geq ls j)).
  { intros j. eapply cnf_lits_weaken; [|apply add_geq_lits]. intros x Hx. now left. }
  assert (L : forall j, cnf_lits (pm_in ls) (add_leq ls j)).
  { intros j. eapply cnf_lits_weaken; [|apply add_leq_lits]. intros x Hx. now right. }
  destruct o; cbn [add_linear]; try apply G; try apply L.
  - apply cnf_lits_app; [apply L|apply G].
  - unfold add_neq. destruct ((k <? 0) || (k >? len ls)); [apply cnf_lits_nil|apply neq_clauses_lits].
Qed.
Lemma add_parity_lits ls c : cnf_lits (pm_in ls) (add_parity ls c).
Proof. apply parity_clauses_lits. Qed.
Lemma chain_lits : forall ls, cnf_lits (pm_in ls) (chain ls).
Proof.
  induction ls as [|y t IH]; [apply cnf_lits_nil|]. destruct t as [|z t]; [apply cnf_lits_nil|].
  change (chain (y :: z :: t)) with ([- y; z] :: chain (z :: t)). apply cnf_lits_cons.
  - intros x [<-|[<-|[]]]; [right; rewrite Z.opp_involutive; now left|left; right; now left].
  - eapply cnf_lits_weaken; [apply pm_in_cons|apply IH].
Qed.

Lemma lits_in_range_iff M F : lits_in_range M F = true <-> cnf_lits (inr M) F.
Proof.
  unfold lits_in_range, cnf_lits, inr. rewrite forallb_forall. split.
  - intros H c Hc x Hx. specialize (H c Hc). rewrite forallb_forall in H. specialize (H x Hx).
    apply andb_true_iff in H as [H1 H2]. apply nonzero_spec in H1. lia.
  - intros H c Hc. apply forallb_forall. intros x Hx. destruct (H c Hc x Hx) as [H1 H2].
    apply andb_true_iff. split; [now apply nonzero_spec|lia].
Qed.

Lemma prod_in {A} : forall (Ds : list (list A)) t, In t (prod Ds) ->
  forall c, In c t -> exists D, In D Ds /\ In c D.
Proof.
  induction Ds as [|D Ds IH]; intros t Ht c Hc.
  - destruct Ht as [<-|[]]. destruct Hc.
  - cbn [prod] in Ht. apply in_flat_map in Ht as [x [Hx Ht]]. apply in_map_iff in Ht as [t' [<- Ht']].
    destruct Hc as [<-|Hc].
    + exists D. split; [now left|assumption].
    + destruct (IH t' Ht' c Hc) as [D' [H1 H2]]. exists D'. split; [now right|assumption].
Qed.

Lemma apply_subst_lits (P Q : Z -> Prop) g F :
  (forall l, P l -> cnf_lits Q (g l)) -> cnf_lits P F -> cnf_lits Q (apply_subst F g).
Proof.
  intros Hg HF c' Hc' x Hx. unfold apply_subst in Hc'. apply in_flat_map in Hc' as [c [Hc Hc']].
  unfold subst_clause in Hc'. apply in_map_iff in Hc' as [t [<- Ht]].
  apply in_concat in Hx as [cl [Hcl Hx]]. destruct (prod_in _ t Ht cl Hcl) as [D [HD Hcl']].
  apply in_map_iff in HD as [l [<- Hl]]. apply (Hg l (HF c Hc l Hl) cl Hcl' x Hx).
Qed.

(* ---------- number of variables ---------- *)

Lemma max_var_clause_le M c : 0 <= M -> (forall x, In x c -> Z.abs x <= M) -> max_var_clause c <= M.
Proof.
  intros HM. induction c as [|x t IH]; intros H; [cbn; lia|].
  cbn [max_var_clause fold_right]. fold (max_var_clause t).
  assert (Z.abs x <= M) by (apply H; now left). assert (max_var_clause t <= M) by (apply IH; intros; apply H; now right). lia.
Qed.
Lemma max_var_le M F : 0 <= M -> cnf_lits (inr M) F -> max_var F <= M.
Proof.
  intros HM. induction F as [|c F IH]; intros H; [cbn; lia|].
  cbn [max_var fold_right]. fold (max_var F).
  assert (max_var_clause c <= M).
  { apply max_var_clause_le; [assumption|]. intros x Hx. apply (H c); [now left|assumption]. }
  assert (max_var F <= M) by (apply IH; intros c' Hc'; apply H; now right). lia.
Qed.
Lemma numvar_add_id M out : 0 <= M -> cnf_lits (inr M) out -> numvar_add M out = M.
Proof. intros HM H. unfold numvar_add. pose proof (max_var_le M out HM H). lia. Qed.

(* the block of variable v <= N lies within 1..k*N *)
Lemma block_within k N v y : 1 <= k -> 1 <= v <= N -> In y (subst_block k v) -> 1 <= y <= k * N.
Proof. intros Hk Hv Hy. apply in_subst_block in Hy. nia. Qed.

Definition lin (N : Z) (l : Z) : Prop := l <> 0 /\ Z.abs l <= N.

Lemma pm_block_inr k N l : 1 <= k -> lin N l -> forall x, pm_in (subst_block k (Z.abs l)) x -> inr (k * N) x.
Proof.
  intros Hk [H1 H2] x. apply pm_in_inr. intros y Hy. apply (block_within k N (Z.abs l)); [assumption|lia|assumption].
Qed.

Lemma xorify_lits k N l : 1 <= k -> lin N l -> cnf_lits (inr (k * N)) (xorify k l).
Proof. intros Hk Hl. eapply cnf_lits_weaken; [apply (pm_block_inr k N l Hk Hl)|apply add_parity_lits]. Qed.
Lemma oneify_lits k N l : 1 <= k -> lin N l -> cnf_lits (inr (k * N)) (oneify k l).
Proof.
  intros Hk Hl. eapply cnf_lits_weaken; [apply (pm_block_inr k N l Hk Hl)|]. unfold oneify.
  destruct (l >? 0); [apply add_linear_lits|rewrite flip_each_neq; apply neq_clauses_lits].
Qed.
Lemma linear_gadget_lits k o C N l : 1 <= k -> lin N l -> cnf_lits (inr (k * N)) (linear_gadget k o C l).
Proof. intros Hk Hl. eapply cnf_lits_weaken; [apply (pm_block_inr k N l Hk Hl)|apply add_linear_lits]. Qed.
Lemma majorify_lits k N l : 1 <= k -> lin N l -> cnf_lits (inr (k * N)) (majorify k l).
Proof.
  intros Hk Hl. eapply cnf_lits_weaken; [apply (pm_block_inr k N l Hk Hl)|]. unfold majorify.
  destruct (l >? 0); apply add_linear_lits.
Qed.
Lemma orify_lits k N l : 1 <= k -> lin N l -> cnf_lits (inr (k * N)) (orify k l).
Proof.
  intros Hk Hl. eapply cnf_lits_weaken; [apply (pm_block_inr k N l Hk Hl)|]. unfold orify.
  destruct (l >? 0).
  - intros c [<-|[]] x Hx. now left.
  - intros c Hc x Hx. apply in_map_iff in Hc as [y [<- Hy]]. destruct Hx as [<-|[]]. right. now rewrite Z.opp_involutive.
Qed.
Lemma aesubst_lits k inv N l : 1 <= k -> lin N l -> cnf_lits (inr (k * N)) (aesubst k inv l).
Proof.
  intros Hk Hl. eapply cnf_lits_weaken; [apply (pm_block_inr k N l Hk Hl)|]. unfold aesubst.
  destruct (subst_block_cons k (Z.abs l) Hk) as [y [t E]]. rewrite E.
  destruct ((if inv then - l else l) >? 0).
  - apply cnf_lits_cons; [|apply chain_lits].
    intros x [<-|[<-|[]]]; [left; now left|right; rewrite Z.opp_involutive; apply last_in].
  - apply cnf_lits_cons; [intros x Hx; now left|]. apply cnf_lits_cons; [|apply cnf_lits_nil].
    intros x Hx. right. apply in_map_iff in Hx as [z [<- Hz]]. now rewrite Z.opp_involutive.
Qed.
Lemma flip_gadget_lits N l : lin N l -> cnf_lits (inr N) (flip_gadget l).
Proof. intros [H1 H2] c [<-|[]] x [<-|[]]. unfold inr. lia. Qed.
Lemma ite_gadget_lits N l : lin N l -> cnf_lits (inr (3 * N)) (ite_gadget N l).
Proof.
  intros [H1 H2]. unfold ite_gadget.
  assert (E : l / Z.abs l = 1 \/ l / Z.abs l = -1).
  { assert (Hs : 0 < l \/ l < 0) by lia. destruct Hs as [Hs|Hs].
    - left. rewrite Z.abs_eq by lia. apply Z.div_same. lia.
    - right. rewrite Z.abs_neq by lia. symmetry. apply (Z.div_unique l (- l) (-1) 0); lia. }
  intros c Hc x Hx. unfold inr.
  destruct Hc as [<-|[<-|[]]]; destruct Hx as [<-|[<-|[]]]; destruct E as [E|E]; rewrite ?E; lia.
Qed.
Lemma lift_gadget_lits k N l : 1 <= k -> lin N l -> cnf_lits (inr (2 * k * N)) (lift_gadget k l).
Proof.
  intros Hk [H1 H2]. unfold lift_gadget.
  assert (E : l / Z.abs l = 1 \/ l / Z.abs l = -1).
  { assert (Hs : 0 < l \/ l < 0) by lia. destruct Hs as [Hs|Hs].
    - left. rewrite Z.abs_eq by lia. apply Z.div_same. lia.
    - right. rewrite Z.abs_neq by lia. symmetry. apply (Z.div_unique l (- l) (-1) 0); lia. }
  intros c Hc x Hx. apply in_map_iff in Hc as [i [<- Hi]]. apply in_zrange in Hi. unfold inr.
  assert (1 <= Z.abs l) by lia.
  destruct Hx as [<-|[<-|[]]]; destruct E as [E|E]; rewrite ?E; nia.
Qed.
Lemma comp_xor_lits R adj l : adj_ok R adj = true -> cnf_lits (inr R) (comp_xor adj l).
Proof.
  intros Hadj. eapply cnf_lits_weaken; [|apply add_parity_lits].
  intros x. apply pm_in_inr. intros y. apply (right_nbrs_ok R adj _ y Hadj).
Qed.
Lemma comp_maj_lits R adj l : adj_ok R adj = true -> cnf_lits (inr R) (comp_maj adj l).
Proof.
  intros Hadj. unfold comp_maj. eapply cnf_lits_weaken.
  - intros x. apply pm_in_inr. intros y. apply (right_nbrs_ok R adj (Z.abs l) y Hadj).
  - destruct (l >? 0); apply add_linear_lits.
Qed.

(* ---------- the transformations ---------- *)

(* [composes r nv F dec]: the transformation succeeded, the result has exactly nv
   variables, all its literals are within 1..nv, and an assignment of the new
   variables satisfies it exactly when the induced assignment satisfies F *)
Definition composes (r : tres (Z * cnf)) (nv : Z) (F : cnf) (dec : (Z -> bool) -> Z -> bool) : Prop :=
  exists out, r = TOk (nv, out) /\ lits_in_range nv out = true /\
              forall a, cnf_sat a out = cnf_sat (dec a) F.

Lemma lin_of_range N F : lits_in_range N F = true -> cnf_lits (lin N) F.
Proof. intros H. apply lits_in_range_iff in H. exact H. Qed.

Theorem block_subst_correct N k F g dec :
  1 <= k -> 0 <= N -> lits_in_range N F = true ->
  (forall a l, l <> 0 -> cnf_sat a (g l) = lit_true (dec a) l) ->
  (forall l, lin N l -> cnf_lits (inr (k * N)) (g l)) ->
  composes (block_subst N k F g) (k * N) F dec.
Proof.
  intros Hk HN HF Hsem Hlits. exists (apply_subst F g).
  assert (HL : cnf_lits (inr (k * N)) (apply_subst F g)).
  { apply (apply_subst_lits (lin N)); [assumption|now apply lin_of_range]. }
  split; [|split].
  - unfold block_subst. replace (k <? 1) with false by lia. rewrite numvar_add_id; [reflexivity|nia|assumption].
  - now apply lits_in_range_iff.
  - intros a. apply (apply_subst_sem a (dec a) g N F); [|assumption]. intros l Hl _. now apply Hsem.
Qed.

Theorem block_subst_rejects N k F g : k < 1 -> block_subst N k F g = TValueErr.
Proof. intros H. unfold block_subst. now replace (k <? 1) with true by lia. Qed.


Theorem xor_substitution_correct N k F (Hk : 1 <= k) (HN : 0 <= N) (HF : lits_in_range N F = true) : composes (xor_substitution N k F) (k * N) F (dec_xor k).
Proof. apply block_subst_correct; auto; intros; [now apply xorify_sem|now apply xorify_lits]. Qed.
Theorem or_substitution_correct N k F (Hk : 1 <= k) (HN : 0 <= N) (HF : lits_in_range N F = true) : composes (or_substitution N k F) (k * N) F (dec_or k).
Proof. apply block_subst_correct; auto; intros; [now apply orify_sem|now apply orify_lits]. Qed.
Theorem majority_substitution_correct N k F (Hk : 1 <= k) (HN : 0 <= N) (HF : lits_in_range N F = true) : composes (majority_substitution N k F) (k * N) F (dec_maj k).
Proof. apply block_subst_correct; auto; intros; [apply majorify_sem; lia|now apply majorify_lits]. Qed.
Theorem exactly_one_substitution_correct N k F (Hk : 1 <= k) (HN : 0 <= N) (HF : lits_in_range N F = true) : composes (exactly_one_substitution N k F) (k * N) F (dec_one k).
Proof. apply block_subst_correct; auto; intros; [now apply oneify_sem|now apply oneify_lits]. Qed.
Theorem all_equal_substitution_correct N k F (Hk : 1 <= k) (HN : 0 <= N) (HF : lits_in_range N F = true) inv :
  composes (all_equal_substitution N k inv F) (k * N) F (dec_eq k inv).
Proof. apply block_subst_correct; auto; intros; [now apply aesubst_sem|now apply aesubst_lits]. Qed.
Theorem linear_substitution_correct N k F (Hk : 1 <= k) (HN : 0 <= N) (HF : lits_in_range N F = true) o C :
  composes (linear_substitution N k o C F) (k * N) F (dec_linear k o C).
Proof. apply block_subst_correct; auto; intros; [now apply linear_gadget_sem|now apply linear_gadget_lits]. Qed.

Theorem ite_substitution_correct N F (HN : 0 <= N) (HF : lits_in_range N F = true) :
  fst (ite_substitution N F) = 3 * N /\
  lits_in_range (3 * N) (snd (ite_substitution N F)) = true /\
  forall a, cnf_sat a (snd (ite_substitution N F)) = cnf_sat (dec_ite N a) F.
Proof.
  unfold ite_substitution. cbn [fst snd].
  assert (HL : cnf_lits (inr (3 * N)) (apply_subst F (ite_gadget N))).
  { apply (apply_subst_lits (lin N)); [apply ite_gadget_lits|now apply lin_of_range]. }
  split; [|split].
  - apply numvar_add_id; [lia|assumption].
  - now apply lits_in_range_iff.
  - intros a. apply (apply_subst_sem a (dec_ite N a) (ite_gadget N) N F); [|assumption].
    intros l Hl _. now apply ite_gadget_sem.
Qed.

Lemma lift_selectors_lits N k (Hk : 1 <= k) (HN : 0 <= N) : cnf_lits (inr (2 * k * N)) (lift_selectors N k).
Proof.
  unfold lift_selectors. rewrite range_step_selectors by assumption.
  intros c Hc. apply in_flat_map in Hc as [y [Hy Hc]]. apply in_map_iff in Hy as [v [<- Hv]].
  apply in_zrange in Hv. revert c Hc. eapply cnf_lits_weaken; [|apply add_linear_lits].
  intros x. apply pm_in_inr. intros z Hz. apply in_map_iff in Hz as [i [<- Hi]]. apply in_zrange in Hi.
  unfold lift_y. nia.
Qed.

Theorem formula_lifting_correct N k F (Hk : 1 <= k) (HN : 0 <= N) (HF : lits_in_range N F = true) :
  exists out, formula_lifting N k F = TOk (2 * k * N, out) /\
              lits_in_range (2 * k * N) out = true /\
              forall a, cnf_sat a out = selectors_ok N k a && cnf_sat (dec_lift k a) F.
Proof.
  exists (lift_selectors N k ++ apply_subst F (lift_gadget k)).
  assert (HL : cnf_lits (inr (2 * k * N)) (lift_selectors N k ++ apply_subst F (lift_gadget k))).
  { apply cnf_lits_app; [now apply lift_selectors_lits|].
    apply (apply_subst_lits (lin N)); [intros; now apply lift_gadget_lits|now apply lin_of_range]. }
  split; [|split].
  - unfold formula_lifting. replace (k <? 1) with false by lia.
    rewrite numvar_add_id; [reflexivity|nia|assumption].
  - now apply lits_in_range_iff.
  - intros a. now apply lift_sem.
Qed.

Theorem variable_compression_xor_correct N F (HN : 0 <= N) (HF : lits_in_range N F = true) R adj :
  len adj = N -> 0 <= R -> adj_ok R adj = true ->
  composes (variable_compression N F R adj CompXor) R F (dec_comp_xor adj).
Proof.
  intros HL HR Hadj. exists (apply_subst F (comp_xor adj)).
  assert (HLi : cnf_lits (inr R) (apply_subst F (comp_xor adj))).
  { apply (apply_subst_lits (lin N)); [intros; now apply comp_xor_lits|now apply lin_of_range]. }
  split; [|split].
  - unfold variable_compression. replace (negb (len adj =? N)) with false by lia.
    rewrite numvar_add_id; [reflexivity|assumption|assumption].
  - now apply lits_in_range_iff.
  - intros a. apply (apply_subst_sem a (dec_comp_xor adj a) (comp_xor adj) N F); [|assumption].
    intros l Hl _. now apply (comp_xor_sem R).
Qed.
Theorem variable_compression_maj_correct N F (HN : 0 <= N) (HF : lits_in_range N F = true) R adj :
  len adj = N -> 0 <= R -> adj_ok R adj = true ->
  composes (variable_compression N F R adj CompMaj) R F (dec_comp_maj adj).
Proof.
  intros HL HR Hadj. exists (apply_subst F (comp_maj adj)).
  assert (HLi : cnf_lits (inr R) (apply_subst F (comp_maj adj))).
  { apply (apply_subst_lits (lin N)); [intros; now apply comp_maj_lits|now apply lin_of_range]. }
  split; [|split].
  - unfold variable_compression. replace (negb (len adj =? N)) with false by lia.
    rewrite numvar_add_id; [reflexivity|assumption|assumption].
  - now apply lits_in_range_iff.
  - intros a. apply (apply_subst_sem a (dec_comp_maj adj a) (comp_maj adj) N F); [|assumption].
    intros l Hl _. now apply (comp_maj_sem R).
Qed.

Theorem variable_compression_rejects N F R adj fn :
  len adj <> N \/ fn = CompOther -> variable_compression N F R adj fn = TValueErr.
Proof.
  intros [H| ->]; [|reflexivity]. unfold variable_compression.
  replace (negb (len adj =? N)) with true by lia. now destruct fn.
Qed.
Theorem formula_lifting_rejects N k F : k < 1 -> formula_lifting N k F = TValueErr.
Proof. intros H. unfold formula_lifting. now replace (k <? 1) with true by lia. Qed.

(* ---------- polarity flip ---------- *)

Lemma prod_flip c : prod (map flip_gadget c) = [map (fun l => [- l]) c].
Proof.
  induction c as [|l c IH]; [reflexivity|]. cbn [map prod]. rewrite IH. reflexivity.
Qed.

Lemma flip_clauses F : apply_subst F flip_gadget = map (map Z.opp) F.
Proof.
  unfold apply_subst. induction F as [|c F IH]; [reflexivity|]. cbn [flat_map map]. rewrite IH.
  unfold subst_clause. rewrite prod_flip. cbn [map app]. f_equal. f_equal.
  induction c as [|l c IHc]; [reflexivity|]. cbn [map concat app]. now rewrite IHc.
Qed.

Lemma max_var_flip F : max_var (map (map Z.opp) F) = max_var F.
Proof.
  induction F as [|c F IH]; [reflexivity|]. cbn [map max_var fold_right]. fold (max_var F). fold (max_var (map (map Z.opp) F)).
  rewrite IH. f_equal. induction c as [|l c IHc]; [reflexivity|].
  cbn [map max_var_clause fold_right]. fold (max_var_clause c). fold (max_var_clause (map Z.opp c)).
  rewrite IHc. lia.
Qed.

Lemma max_var_nonneg F : 0 <= max_var F.
Proof.
  induction F as [|c F IH]; [cbn; lia|]. cbn [max_var fold_right]. fold (max_var F). lia.
Qed.

Theorem flip_sem N F a : lits_in_range N F = true ->
  cnf_sat a (snd (flip_polarity N F)) = cnf_sat (dec_flip a) F.
Proof.
  intros HF. cbn [flip_polarity snd]. apply (apply_subst_sem a (dec_flip a) flip_gadget N F); [|assumption].
  intros l Hl _. now apply flip_gadget_sem.
Qed.

(* what the code computes: the largest variable that occurs in a clause *)
Theorem flip_numvar N F : fst (flip_polarity N F) = max_var F.
Proof.
  cbn [flip_polarity fst]. unfold numvar_add. rewrite flip_clauses, max_var_flip. pose proof (max_var_nonneg F). lia.
Qed.

Theorem flip_numvar_partial N F : fst (flip_polarity N F) = N <-> max_var F = N.
Proof. rewrite flip_numvar. reflexivity. Qed.

Theorem flip_numvar_refuted :
  exists N F, lits_in_range N F = true /\ fst (flip_polarity N F) <> N.
Proof. exists 3, [[1]; []; [1]]. vm_compute. split; [reflexivity|discriminate]. Qed.

Theorem flip_spec_correct N F : 0 <= N -> lits_in_range N F = true ->
  fst (flip_polarity_spec N F) = N /\
  snd (flip_polarity_spec N F) = snd (flip_polarity N F) /\
  lits_in_range N (snd (flip_polarity_spec N F)) = true.
Proof.
  intros HN HF. cbn [flip_polarity_spec flip_polarity fst snd].
  assert (HL : cnf_lits (inr N) (apply_subst F flip_gadget)).
  { apply (apply_subst_lits (lin N)); [intros; now apply flip_gadget_lits|now apply lin_of_range]. }
  split; [|split]; [now apply numvar_add_id|reflexivity|now apply lits_in_range_iff].
Qed.

(* ---------- what the induced assignments are, in plain arithmetic ---------- *)

Lemma subst_block_spec k v x : 0 <= k -> (In x (subst_block k v) <-> (v - 1) * k < x <= v * k).
Proof.
  intros Hk. split; [apply in_subst_block|]. intros H. unfold subst_block. apply in_map_iff.
  exists (x - (v - 1) * k). split; [lia|]. apply in_zrange. lia.
Qed.

Lemma count_true_vars a ls : posl ls -> count_true a ls = 0 <-> forallb (fun x => negb (a x)) ls = true.
Proof.
  induction ls as [|x t IH]; intros Hp; [cbn; tauto|]. destruct (posl_tl _ _ Hp) as [Px Pt].
  cbn [count_true forallb]. rewrite lit_true_pos by assumption. pose proof (count_true_range a t).
  specialize (IH Pt). destruct (a x); cbn [b2z negb andb]; [split; [lia|discriminate]|]. rewrite <- IH. lia.
Qed.
Lemma count_true_all a ls : posl ls -> count_true a ls = len ls <-> forallb a ls = true.
Proof.
  induction ls as [|x t IH]; intros Hp; [cbn; tauto|]. destruct (posl_tl _ _ Hp) as [Px Pt].
  cbn [count_true forallb]. rewrite len_cons, lit_true_pos by assumption. pose proof (count_true_range a t).
  specialize (IH Pt). destruct (a x); cbn [b2z negb andb]; [rewrite <- IH; lia|]. split; [lia|discriminate].
Qed.

Theorem decoders_arith k a v : 1 <= k -> 0 < v ->
  let c := count_true a (subst_block k v) in
  dec_xor k a v = Z.odd c /\
  dec_or k a v = (c >=? 1) /\
  dec_eq k false a v = ((c =? 0) || (c =? k)) /\
  dec_eq k true a v = negb ((c =? 0) || (c =? k)).
Proof.
  intros Hk Hv c. pose proof (posl_block k v Hv) as Hp.
  assert (E : all_eq a (subst_block k v) = ((c =? 0) || (c =? k))).
  { unfold all_eq. apply eq_iff_eq_true. rewrite !orb_true_iff, !Z.eqb_eq.
    rewrite <- (count_true_vars a _ Hp), <- (count_true_all a _ Hp), (len_subst_block k v) by lia.
    fold c. tauto. }
  repeat split.
  - apply parity_of_count.
  - unfold dec_or. destruct (count_true_posvars a _ Hp) as [<- _]. fold (clause_sat a (subst_block k v)).
    rewrite clause_sat_count. fold c. lia.
  - unfold dec_eq. rewrite E. now destruct ((c =? 0) || (c =? k)).
  - unfold dec_eq. rewrite E. now destruct ((c =? 0) || (c =? k)).
Qed.

(* lifting: under the selector constraint there is exactly one selected copy,
   and the induced value is the value of that copy *)
Lemma selected_copy a (Y X : Z -> Z) : forall js, (forall i, In i js -> 0 < Y i) ->
  count_true a (map Y js) = 1 ->
  exists i, In i js /\ a (Y i) = true /\
            (forall j, In j js -> a (Y j) = true -> Y j = Y i) /\
            existsb (fun i => a (Y i) && a (X i)) js = a (X i).
Proof.
  induction js as [|j t IH]; intros Hp Hc; [cbn in Hc; lia|].
  cbn [map count_true] in Hc. rewrite lit_true_pos in Hc by (apply Hp; now left).
  assert (Hpt : forall i, In i t -> 0 < Y i) by (intros; apply Hp; now right).
  cbn [existsb]. destruct (a (Y j)) eqn:Ej; cbn [b2z andb] in *.
  - assert (Hz : count_true a (map Y t) = 0) by lia.
    pose proof (sel_zero a Y t Hpt Hz) as Hf. exists j. repeat split; [now left|assumption| |].
    + intros j' [<-|Hj'] Hy; [reflexivity|]. rewrite Hf in Hy by assumption. discriminate.
    + replace (existsb (fun i => a (Y i) && a (X i)) t) with false; [apply orb_false_r|].
      symmetry. apply not_true_is_false. intros H. apply existsb_exists in H as [i [Hi H]].
      rewrite Hf in H by assumption. discriminate.
  - destruct (IH Hpt ltac:(lia)) as [i [Hi [Hy [Hu He]]]]. exists i. repeat split; [now right|assumption| |assumption].
    intros j' [<-|Hj'] Hy'; [congruence|now apply Hu].
Qed.

Theorem lift_selected_copy N k a v : 1 <= k -> selectors_ok N k a = true -> 1 <= v <= N ->
  exists i, 1 <= i <= k /\ a (lift_y k v i) = true /\
            (forall j, 1 <= j <= k -> a (lift_y k v j) = true -> j = i) /\
            dec_lift k a v = a (lift_x k v i).
Proof.
  intros Hk Hs Hv. unfold selectors_ok in Hs. rewrite forallb_forall in Hs.
  assert (Hc : count_true a (map (lift_y k v) (zrange 1 (k + 1))) = 1).
  { apply Z.eqb_eq, Hs, in_zrange. lia. }
  destruct (selected_copy a (lift_y k v) (lift_x k v) (zrange 1 (k + 1))) as [i [Hi [Hy [Hu He]]]];
    [intros i Hi; apply in_zrange in Hi; apply lift_xy_pos; lia|assumption|].
  apply in_zrange in Hi. exists i. repeat split; try lia; [assumption| |exact He].
  intros j Hj Hyj. assert (E : lift_y k v j = lift_y k v i) by (apply Hu; [apply in_zrange; lia|assumption]).
  unfold lift_y in E. lia.
Qed.
