(* FamRange_C03.v — the literal-range half of C10 for the C03 families
   (ordering, pebbling/stone, cpls, pitfall (repaired variant), ramsey/vdw/ptn):
   every literal of the clause list / builder-call list of a family is a variable of
   1..numvar or its negation, and numvar is the documented closed formula.
   Lemmas only; the statements are in Prop_C10_families_C03.v. *)
From Coq Require Import ZArith List Bool Lia ZifyBool.
From Cnfgen Require Import Sem Comb Linear SemFacts LinearFacts IR IRFacts IRRange C03_Util C03_UtilFacts
  Fam_ordering Fam_pebbling Fam_cpls Fam_pitfall Fam_ramsey FamRange_Util
  Fam_ordering_Facts Fam_pebbling_Facts Fam_cpls_Facts Fam_pitfall_Facts Fam_ramsey_Facts.
Import ListNotations.
Open Scope Z_scope.

(* from a bounded clause list to the result-level statement *)
Lemma clauses_result_in_range n F nv f :
  cnf_bounded n F -> C3Ok n (clauses_ir F) = C3Ok nv f -> lits_in_range nv (to_cnf f) = true.
Proof.
  intros H E. inversion E; subst. rewrite clauses_ir_cnf. now apply cnf_bounded_in_range.
Qed.

(* ====================================================================== *)
(* Pythagorean triples                                                     *)
(* ====================================================================== *)
Lemma ptn_bounded N : cnf_bounded N (ptn_cnf N).
Proof.
  intros c l Hc Hl. apply ptn_clause_in in Hc as [x [y [z [H1 [H2 [H3 [H4 [H5 H]]]]]]]].
  destruct H as [H|H]; subst c; cbn [In] in Hl; lia.
Qed.

Theorem ptn_in_range N nv f : ptn_formula N = C3Ok nv f -> lits_in_range nv (to_cnf f) = true.
Proof.
  unfold ptn_formula. destruct (N <? 0); [discriminate|]. apply clauses_result_in_range, ptn_bounded.
Qed.
Theorem ptn_numvar_doc N nv f : ptn_formula N = C3Ok nv f -> nv = N.
Proof. unfold ptn_formula. destruct (N <? 0); [discriminate|]. intros E. now inversion E. Qed.

(* ====================================================================== *)
(* Pebbling                                                                *)
(* ====================================================================== *)
Lemma peb_bounded D : dag_ok D = true -> cnf_bounded (len D) (peb_cnf D).
Proof.
  intros Hd c l Hc Hl. apply peb_axioms_exact in Hc as [[v [Hv E]]|[v [Hv [_ E]]]]; subst c.
  - apply in_app_or in Hl as [Hl|Hl].
    + apply in_map_iff in Hl as [p [<- Hp]]. pose proof (dag_ok_spec D Hd v p Hv Hp). lia.
    + cbn [In] in Hl. lia.
  - cbn [In] in Hl. lia.
Qed.

Theorem peb_in_range D nv f : peb_formula D = C3Ok nv f -> lits_in_range nv (to_cnf f) = true.
Proof.
  unfold peb_formula. destruct (dag_ok D) eqn:Hd; [|discriminate]. now apply clauses_result_in_range, peb_bounded.
Qed.
Theorem peb_numvar_doc D nv f : peb_formula D = C3Ok nv f -> nv = len D.
Proof. unfold peb_formula. destruct (dag_ok D); [|discriminate]. intros E. now inversion E. Qed.

(* ====================================================================== *)
(* Ramsey number                                                           *)
(* ====================================================================== *)
Lemma ram_bounded s k N : cnf_bounded (ram_numvar N) (ram_cnf s k N).
Proof.
  unfold ram_cnf, ram_numvar. apply cnf_bounded_app; apply cnf_bounded_map; intros S l HS Hl;
    apply In_combs_vrange in HS as [HI _]; apply in_map_iff in Hl as [[u v] [<- Hp]]; cbn [fst snd];
    pose proof (incr_pairs _ _ _ _ _ HI Hp) as Huv; pose proof (cid_range N u v ltac:(lia) ltac:(lia)); lia.
Qed.

Theorem ram_in_range s k N nv f : ram_formula s k N = C3Ok nv f -> lits_in_range nv (to_cnf f) = true.
Proof.
  unfold ram_formula. destruct ((N <? 0) || (s <? 1) || (k <? 1)); [discriminate|].
  apply clauses_result_in_range, ram_bounded.
Qed.
Theorem ram_numvar_doc s k N nv f : ram_formula s k N = C3Ok nv f -> nv = N * (N - 1) / 2.
Proof. unfold ram_formula. destruct ((N <? 0) || (s <? 1) || (k <? 1)); [discriminate|]. intros E. now inversion E. Qed.

(* ====================================================================== *)
(* (Graph) ordering principle                                              *)
(* ====================================================================== *)
Lemma xlit_bounded smart n u v : 1 <= u <= n -> 1 <= v <= n -> u <> v ->
  1 <= Z.abs (xlit smart n u v) <= gop_numvar n smart.
Proof.
  intros Hu Hv Hne. unfold xlit, gop_numvar. destruct smart.
  - destruct (Z.ltb_spec u v).
    + pose proof (cid_range n u v ltac:(lia) ltac:(lia)). lia.
    + pose proof (cid_range n v u ltac:(lia) ltac:(lia)). lia.
  - pose proof (pid_range n u v Hu Hv Hne). lia.
Qed.

Lemma gop_bounded nb total smart plant knuth : graph_ok nb = true ->
  cnf_bounded (gop_numvar (len nb) smart) (gop_cnf nb total smart plant knuth).
Proof.
  intros Hg c l Hc Hl. set (n := len nb) in *.
  assert (X : forall s u v, 1 <= u <= n -> 1 <= v <= n -> u <> v -> s = smart ->
                (l = xlit s n u v \/ l = - xlit s n u v) -> 1 <= Z.abs l <= gop_numvar n smart).
  { intros s u v Hu Hv Hne -> H. pose proof (xlit_bounded smart n u v Hu Hv Hne). lia. }
  apply gop_axioms_exact in Hc as [H|[[Es H]|[[Es H]|[[Es H]|[Es [_ H]]]]]].
  - destruct H as [v [Hv [_ E]]]. subst c. apply in_map_iff in Hl as [u [<- Hu]].
    destruct (graph_ok_spec nb v u Hg Hv Hu) as [Hur Hne]. apply (xlit_bounded smart n u v); fold n in Hur; lia.
  - destruct H as [v1 [v2 [v3 [H1 [H2 [H3 [H4 E]]]]]]]. fold n in H4.
    destruct E as [E|E]; subst c; cbn [In] in Hl;
      destruct Hl as [Hl|[Hl|[Hl|[]]]]; symmetry in Hl;
      first [ apply (X true v1 v2); auto; lia | apply (X true v2 v3); auto; lia | apply (X true v1 v3); auto; lia ].
  - destruct H as [v1 [v2 [v3 [H1 [H2 [H3 [H4 [H5 [H6 [_ E]]]]]]]]]]. fold n in H1, H2, H3.
    subst c; cbn [In] in Hl; destruct Hl as [Hl|[Hl|[Hl|[]]]]; symmetry in Hl;
      first [ apply (X false v1 v2); auto; lia | apply (X false v2 v3); auto; lia | apply (X false v1 v3); auto; lia ].
  - destruct H as [v1 [v2 [H1 [H2 [H3 E]]]]]. fold n in H3.
    subst c; cbn [In] in Hl; destruct Hl as [Hl|[Hl|[]]]; symmetry in Hl;
      first [ apply (X false v1 v2); auto; lia | apply (X false v2 v1); auto; lia ].
  - destruct H as [v1 [v2 [H1 [H2 [H3 E]]]]]. fold n in H3.
    subst c; cbn [In] in Hl; destruct Hl as [Hl|[Hl|[]]]; symmetry in Hl;
      first [ apply (X false v1 v2); auto; lia | apply (X false v2 v1); auto; lia ].
Qed.

Theorem gop_in_range nb total smart plant knuth nv f : graph_ok nb = true ->
  gop_formula nb total smart plant knuth = C3Ok nv f -> lits_in_range nv (to_cnf f) = true.
Proof. intros Hg. unfold gop_formula. now apply clauses_result_in_range, gop_bounded. Qed.
Theorem gop_numvar_doc nb total smart plant knuth nv f : gop_formula nb total smart plant knuth = C3Ok nv f ->
  nv = if smart then len nb * (len nb - 1) / 2 else len nb * (len nb - 1).
Proof. unfold gop_formula. intros E. now inversion E. Qed.

Lemma op_bounded n total smart plant knuth : 0 <= n ->
  cnf_bounded (gop_numvar n smart) (op_cnf n total smart plant knuth).
Proof.
  intros Hn. unfold op_cnf. pose proof (gop_bounded (complete_nb n) total smart plant knuth (complete_nb_ok n Hn)) as H.
  now rewrite complete_nb_len in H by assumption.
Qed.
Theorem op_in_range n total smart plant knuth nv f :
  op_formula n total smart plant knuth = C3Ok nv f -> lits_in_range nv (to_cnf f) = true.
Proof.
  unfold op_formula. destruct (Z.ltb_spec n 0); [discriminate|]. apply gop_in_range, complete_nb_ok. lia.
Qed.
Theorem op_numvar_doc n total smart plant knuth nv f : op_formula n total smart plant knuth = C3Ok nv f ->
  nv = if smart then n * (n - 1) / 2 else n * (n - 1).
Proof.
  unfold op_formula. destruct (Z.ltb_spec n 0); [discriminate|]. intros E. apply gop_numvar_doc in E.
  now rewrite complete_nb_len in E by lia.
Qed.

(* ====================================================================== *)
(* van der Waerden                                                         *)
(* ====================================================================== *)
Lemma vdw_bounded aps N ks : aps_correct aps N ks -> lits_bounded (vdw_numvar N ks) (vdw_ir aps N ks).
Proof.
  intros AC. destruct (Nat.eq_dec (length ks) 2) as [E|NE].
  - destruct ks as [|k1 [|k2 [|k3 t]]]; try discriminate. cbn [vdw_ir vdw_numvar]. apply lits_bounded_clauses.
    apply cnf_bounded_app.
    + intros c l Hc Hl. apply (AC k1 (or_introl eq_refl)) in Hc. pose proof (is_ap_range _ _ _ _ Hc Hl). lia.
    + apply cnf_bounded_map. intros ap l Hap Hl. apply (AC k2 (or_intror (or_introl eq_refl))) in Hap.
      apply in_map_iff in Hl as [i [<- Hi]]. pose proof (is_ap_range _ _ _ _ Hap Hi). lia.
  - rewrite vdw_ir_many by assumption.
    assert (Env : vdw_numvar N ks = N * len ks).
    { destruct ks as [|k1 [|k2 [|k3 t]]]; try reflexivity. now contradiction NE. }
    rewrite Env. apply lits_bounded_app.
    + apply lits_bounded_map. intros i l Hi Hl. apply In_vrange in Hi. cbn [ir_lits] in Hl.
      apply in_map_iff in Hl as [c [<- Hc]]. apply In_vrange in Hc.
      pose proof (vdw_var_range N (len ks) i c Hi Hc). lia.
    + apply lits_bounded_flat_map. intros c Hc. apply In_vrange in Hc. apply lits_bounded_map. intros ap l Hap Hl.
      assert (Hk : In (nth (Z.to_nat (c - 1)) ks 0) ks) by (apply nth_In; unfold len in Hc; lia).
      apply (AC _ Hk) in Hap. cbn [ir_lits] in Hl. apply in_map_iff in Hl as [i [<- Hi]].
      pose proof (is_ap_range _ _ _ _ Hap Hi) as Hr. pose proof (vdw_var_range N (len ks) i c Hr Hc). lia.
Qed.

Theorem vdw_spec_in_range N ks nv f : vdw_spec_formula N ks = C3Ok nv f -> lits_in_range nv (to_cnf f) = true.
Proof.
  unfold vdw_spec_formula. destruct (vdw_args_ok N ks) eqn:Hok; [|discriminate]. cbn [negb]. intros E. inversion E; subst.
  apply bounded_to_cnf, vdw_bounded, aps_correct_spec.
  unfold vdw_args_ok in Hok. apply andb_true_iff in Hok as [_ Hok]. exact Hok.
Qed.
Theorem vdw_in_range N ks nv f : vdw_formula N ks = C3Ok nv f -> lits_in_range nv (to_cnf f) = true.
Proof.
  unfold vdw_formula. destruct (vdw_args_ok N ks) eqn:Hok; [|discriminate]. cbn [negb].
  destruct (existsb (fun k => k =? 1) ks) eqn:Ex; [discriminate|]. intros E. inversion E; subst.
  apply bounded_to_cnf, vdw_bounded, aps_correct_asis.
  unfold vdw_args_ok in Hok. apply andb_true_iff in Hok as [_ Hok]. rewrite forallb_forall in Hok.
  apply forallb_forall. intros k Hk. specialize (Hok k Hk).
  destruct (Z.eqb_spec k 1) as [->|NE]; [|lia].
  assert (existsb (fun k => k =? 1) ks = true) by (apply existsb_exists; exists 1; split; [assumption|reflexivity]). congruence.
Qed.
Theorem vdw_spec_numvar_doc N ks nv f : vdw_spec_formula N ks = C3Ok nv f ->
  nv = if len ks =? 2 then N else N * len ks.
Proof.
  unfold vdw_spec_formula. destruct (negb (vdw_args_ok N ks)); [discriminate|]. intros E. inversion E.
  destruct ks as [|k1 [|k2 [|k3 t]]]; try reflexivity. cbn [vdw_numvar]. rewrite !len_cons.
  pose proof (len_nonneg t). destruct (Z.eqb_spec (1 + (1 + (1 + len t))) 2); [lia|reflexivity].
Qed.
Theorem vdw_numvar_doc N ks nv f : vdw_formula N ks = C3Ok nv f ->
  nv = if len ks =? 2 then N else N * len ks.
Proof.
  unfold vdw_formula. destruct (negb (vdw_args_ok N ks)); [discriminate|].
  destruct (existsb (fun k => k =? 1) ks); [discriminate|]. intros E. inversion E.
  destruct ks as [|k1 [|k2 [|k3 t]]]; try reflexivity. cbn [vdw_numvar]. rewrite !len_cons.
  pose proof (len_nonneg t). destruct (Z.eqb_spec (1 + (1 + (1 + len t))) 2); [lia|reflexivity].
Qed.

(* ====================================================================== *)
(* CPLS                                                                    *)
(* ====================================================================== *)
Lemma Gid_range a b c i x y : 1 <= i <= a -> 1 <= x <= b -> 1 <= y <= c -> 1 <= Gid b c i x y <= a * b * c.
Proof.
  intros Hi Hx Hy. unfold Gid.
  assert (H0 : 0 <= (i - 1) * b) by (apply Z.mul_nonneg_nonneg; lia).
  assert (H1 : (i - 1) * b <= (a - 1) * b) by (apply Z.mul_le_mono_nonneg_r; lia).
  assert (H2 : 0 <= ((i - 1) * b + (x - 1)) * c) by (apply Z.mul_nonneg_nonneg; lia).
  assert (H3 : ((i - 1) * b + (x - 1)) * c <= (a * b - 1) * c) by (apply Z.mul_le_mono_nonneg_r; lia).
  lia.
Qed.

Lemma fb_lits : forall rvars j l, In l (fb rvars j) -> exists v, In v rvars /\ (l = v \/ l = - v).
Proof.
  induction rvars as [|v t IH]; intros j l Hl; cbn [fb] in Hl; [contradiction|].
  destruct Hl as [Hl|Hl].
  - exists v. split; [now left|]. destruct (Z.odd j); [right|left]; now symmetry.
  - destruct (IH _ _ Hl) as [w [Hw E]]. exists w. split; [now right|assumption].
Qed.

Lemma forbid_lits off L x j l : 0 <= off + (x - 1) * L -> In l (forbid off L x j) ->
  off + (x - 1) * L + 1 <= Z.abs l <= off + x * L.
Proof.
  unfold forbid. intros H0 Hl. apply in_rev in Hl. apply fb_lits in Hl as [v [Hv E]].
  apply in_rev in Hv. unfold bitvars in Hv. apply In_zrange in Hv. lia.
Qed.

Lemma cpls_bounded a b c : 1 <= a -> 1 <= b -> 1 <= c -> cnf_bounded (cpls_numvar a b c) (cpls_cnf a b c).
Proof.
  intros Ha Hb Hc cl l Hcl Hl. unfold cpls_numvar.
  pose proof (Z.log2_up_nonneg b) as HLb. pose proof (Z.log2_up_nonneg c) as HLc.
  set (Lb := Z.log2_up b) in *. set (Lc := Z.log2_up c) in *.
  assert (P0 : 0 <= a * b * c) by (apply mul3_nonneg; lia).
  assert (P1 : 0 <= a * b * Lb) by (apply mul3_nonneg; lia).
  assert (P2 : 0 <= b * Lc) by (apply Z.mul_nonneg_nonneg; lia).
  assert (G : forall i x y, 1 <= i <= a -> 1 <= x <= b -> 1 <= y <= c ->
                (l = Gid b c i x y \/ l = - Gid b c i x y) -> 1 <= Z.abs l <= a * b * c + a * b * Lb + b * Lc).
  { intros i x y Hi Hx Hy E. pose proof (Gid_range a b c i x y Hi Hx Hy). lia. }
  apply cpls_axioms_exact in Hcl as [[y [Hy E]]|[[i [x [xx [y [Hi [Hx [Hxx [Hy E]]]]]]]]|[x [y [Hx [Hy E]]]]]]; subst cl.
  - cbn [In] in Hl. apply (G 1 1 y); try lia.
  - apply in_app_or in Hl as [Hl|Hl].
    + unfold cpls_foff in Hl. fold Lb in Hl.
      assert (Q0 : 0 <= (i - 1) * b * Lb) by (apply mul3_nonneg; lia).
      assert (Q1 : 0 <= (x - 1) * Lb) by (apply Z.mul_nonneg_nonneg; lia).
      assert (Q2 : x * Lb <= b * Lb) by (apply Z.mul_le_mono_nonneg_r; lia).
      assert (Q3 : i * b * Lb <= a * b * Lb).
      { apply Z.mul_le_mono_nonneg_r; [lia|]. apply Z.mul_le_mono_nonneg_r; lia. }
      apply forbid_lits in Hl; lia.
    + cbn [In] in Hl. destruct Hl as [Hl|[Hl|[]]]; [apply (G (i + 1) xx y)|apply (G i x y)]; try lia.
  - apply in_app_or in Hl as [Hl|Hl].
    + unfold cpls_uoff in Hl. fold Lb Lc in Hl.
      assert (Q1 : 0 <= (x - 1) * Lc) by (apply Z.mul_nonneg_nonneg; lia).
      assert (Q2 : x * Lc <= b * Lc) by (apply Z.mul_le_mono_nonneg_r; lia).
      apply forbid_lits in Hl; lia.
    + cbn [In] in Hl. apply (G a x y); try lia.
Qed.

Lemma cpls_ok_args a b c nv f : cpls_formula a b c = C3Ok nv f ->
  1 <= a /\ 1 <= b /\ 1 <= c /\ C3Ok (cpls_numvar a b c) (clauses_ir (cpls_cnf a b c)) = C3Ok nv f.
Proof.
  unfold cpls_formula. destruct (Z.ltb_spec a 1); [discriminate|]. destruct (Z.ltb_spec b 1); [discriminate|].
  destruct (Z.ltb_spec c 1); [discriminate|]. cbn [orb].
  destruct (negb (is_pow2 b) || negb (is_pow2 c)); [discriminate|]. intros E. repeat split; try lia. exact E.
Qed.
Theorem cpls_in_range a b c nv f : cpls_formula a b c = C3Ok nv f -> lits_in_range nv (to_cnf f) = true.
Proof.
  intros E. apply cpls_ok_args in E as [Ha [Hb [Hc E]]]. revert E. now apply clauses_result_in_range, cpls_bounded.
Qed.
Theorem cpls_numvar_doc a b c nv f : cpls_formula a b c = C3Ok nv f ->
  nv = a * b * c + a * b * Z.log2_up b + b * Z.log2_up c.
Proof. intros E. apply cpls_ok_args in E as [_ [_ [_ E]]]. now inversion E. Qed.

(* ====================================================================== *)
(* Sparse stone / stone formulas                                           *)
(* ====================================================================== *)
Lemma indexZ_lt x l : In x l -> indexZ x l < len l.
Proof.
  induction l as [|y t IH]; intros H; [contradiction|]. cbn [indexZ]. rewrite len_cons. pose proof (len_nonneg t).
  destruct (Z.eqb_spec x y) as [->|NE]; [lia|]. destruct H as [H|H]; [congruence|]. specialize (IH H). lia.
Qed.

Lemma prefix_len_nth {A} : forall (l : list (list A)) k, (k < length l)%nat ->
  prefix_len l k + len (nth k l []) <= prefix_len l (length l).
Proof.
  induction l as [|x t IH]; intros k Hk; [cbn in Hk; lia|]. cbn [length] in *.
  destruct k as [|k]; cbn [prefix_len nth].
  - pose proof (prefix_len_nonneg t (length t)). lia.
  - specialize (IH k ltac:(lia)). lia.
Qed.

Lemma Pvar_range B R v j : 1 <= v <= len B -> In j (nthZ B v) ->
  R + 1 <= Pvar B R v j <= sstone_numvar B R.
Proof.
  intros Hv Hj. unfold Pvar, sstone_numvar.
  pose proof (indexZ_lt _ _ Hj) as H1. pose proof (indexZ_nonneg j (nthZ B v)) as H2.
  pose proof (prefix_len_nonneg B (Z.to_nat (v - 1))) as H3.
  pose proof (prefix_len_nth B (Z.to_nat (v - 1)) ltac:(unfold len in Hv; lia)) as H4.
  unfold nthZ in *. lia.
Qed.

Lemma Forall2_swap {A B} (Q : A -> B -> Prop) l1 l2 : Forall2 Q l1 l2 -> Forall2 (fun b a => Q a b) l2 l1.
Proof. intros H. induction H; constructor; assumption. Qed.

Lemma sstone_bounded D B R : dag_ok D = true -> len B = len D -> bip_ok B R = true ->
  cnf_bounded (sstone_numvar B R) (sstone_cnf D B R).
Proof.
  intros Hd HL Hb c l Hc Hl.
  assert (N0 : R <= sstone_numvar B R) by (unfold sstone_numvar; pose proof (prefix_len_nonneg B (length B)); lia).
  assert (PV : forall v j, 1 <= v <= len B -> In j (nthZ B v) ->
                 (l = Pvar B R v j \/ l = - Pvar B R v j) -> 1 <= Z.abs l <= sstone_numvar B R).
  { intros v j Hv Hj E. pose proof (Pvar_range B R v j Hv Hj). pose proof (bip_ok_spec B R v j Hb Hj). lia. }
  assert (ST : forall v j, In j (nthZ B v) -> (l = j \/ l = - j) -> 1 <= Z.abs l <= sstone_numvar B R).
  { intros v j Hj E. pose proof (bip_ok_spec B R v j Hb Hj). lia. }
  apply sstone_axioms_exact in Hc as [[v [Hv E]]|[[v [j [pat [Hv [Hj [Hp E]]]]]]|[v [j [Hv [_ [Hj E]]]]]]]; subst c.
  - apply in_map_iff in Hl as [j [<- Hj]]. apply (PV v j); auto.
  - apply Forall2_swap in Hp. unfold sstone_prop_clause in Hl.
    apply in_app_or in Hl as [Hl|Hl]; [|apply in_app_or in Hl as [Hl|Hl]; [|apply in_app_or in Hl as [Hl|Hl]]].
    + apply in_map_iff in Hl as [[p s] [<- Hps]]. cbn [fst snd].
      pose proof (Forall2_combine_In _ _ _ _ _ Hp Hps) as Hq. cbn beta in Hq. destruct Hq as [Hs _].
      assert (Hpin : In p (nthZ D v)) by (eapply in_combine_l; eauto).
      pose proof (dag_ok_spec D Hd v p Hv Hpin). apply (PV p s); auto. lia.
    + cbn [In] in Hl. apply (PV v j); auto; lia.
    + apply in_map_iff in Hl as [s [<- Hs]]. apply uniqify_In in Hs.
      destruct (Forall2_In_r _ _ _ _ Hp Hs) as [p [_ [Hq _]]]. apply (ST p s); auto.
    + cbn [In] in Hl. apply (ST v j); auto. lia.
  - cbn [In] in Hl. destruct Hl as [Hl|[Hl|[]]]; [apply (PV v j)|apply (ST v j)]; auto; lia.
Qed.

Theorem sstone_in_range D B R nv f : bip_ok B R = true ->
  sstone_formula D B R = C3Ok nv f -> lits_in_range nv (to_cnf f) = true.
Proof.
  intros Hb. unfold sstone_formula. destruct (dag_ok D) eqn:Hd; [|discriminate]. cbn [negb].
  destruct (Z.eqb_spec (len B) (len D)) as [HL|]; [|discriminate]. cbn [negb].
  now apply clauses_result_in_range, sstone_bounded.
Qed.
Theorem sstone_numvar_doc D B R nv f : sstone_formula D B R = C3Ok nv f -> nv = R + prefix_len B (length B).
Proof.
  unfold sstone_formula. destruct (negb (dag_ok D)); [discriminate|]. destruct (negb (len B =? len D)); [discriminate|].
  intros E. now inversion E.
Qed.

Lemma prefix_len_repeat {A} (x : list A) : forall n, prefix_len (repeat x n) n = Z.of_nat n * len x.
Proof. induction n as [|n IH]; [reflexivity|]. cbn [repeat prefix_len]. rewrite IH. lia. Qed.

Lemma stone_bounded D R : dag_ok D = true -> cnf_bounded (sstone_numvar (complete_bip (length D) R) R) (stone_cnf D R).
Proof.
  intros Hd. unfold stone_cnf. apply sstone_bounded; [assumption|apply complete_bip_len|apply complete_bip_ok].
Qed.
Theorem stone_in_range D R nv f : stone_formula D R = C3Ok nv f -> lits_in_range nv (to_cnf f) = true.
Proof.
  unfold stone_formula. destruct (negb (dag_ok D)); [discriminate|]. destruct (R <? 0); [discriminate|].
  apply sstone_in_range, complete_bip_ok.
Qed.
Theorem stone_numvar_doc D R nv f : stone_formula D R = C3Ok nv f -> nv = R + len D * R.
Proof.
  unfold stone_formula. destruct (negb (dag_ok D)); [discriminate|]. destruct (Z.ltb_spec R 0); [discriminate|].
  intros E. apply sstone_numvar_doc in E. subst nv. unfold complete_bip. rewrite repeat_length, prefix_len_repeat.
  unfold len at 1, vrange. rewrite zrange_length. unfold len. lia.
Qed.

(* ====================================================================== *)
(* Pitfall formula (repaired variant: intended copies, validated arguments) *)
(* ====================================================================== *)
Lemma tseitin_bounded n E : cnf_bounded (len E) (tseitin_cnf n E).
Proof.
  intros c l Hc Hl. unfold tseitin_cnf in Hc. apply in_flat_map in Hc as [w [_ Hc]]. unfold add_parity in Hc.
  assert (R : forall x, In x (inc_lits (edge_vars E) w) -> 1 <= x <= len E).
  { intros x Hx. unfold inc_lits in Hx.
    assert (exists e, In e (edge_vars E) /\ x = snd e) as [e [He ->]].
    { apply in_app_or in Hx as [Hx|Hx]; apply in_map_iff in Hx as [e [E' He]]; apply filter_In in He as [He _]; eauto. }
    destruct e as [uv y]. unfold edge_vars in He. apply in_combine_r in He. apply In_zrange in He. cbn [snd]. lia. }
  destruct (parity_clauses_lits _ _ _ _ Hc Hl) as [H|H]; apply R in H; lia.
Qed.

Lemma block_range w k j i : 0 <= w -> 1 <= j <= k -> 1 <= i <= w -> 1 <= (j - 1) * w + i <= k * w.
Proof.
  intros Hw Hj Hi. assert (0 <= (j - 1) * w) by (apply Z.mul_nonneg_nonneg; lia).
  assert ((j - 1) * w <= (k - 1) * w) by (apply Z.mul_le_mono_nonneg_r; lia). lia.
Qed.

Lemma shift_spec_range nx k j l : 0 <= nx -> 1 <= j <= k -> 1 <= Z.abs l <= nx ->
  1 <= Z.abs (shift_spec nx j l) <= k * nx.
Proof.
  intros Hnx Hj Hl. unfold shift_spec. pose proof (block_range nx k j (Z.abs l) Hnx Hj Hl).
  destruct (Z.lt_trichotomy l 0) as [L|[L|L]]; [|lia|].
  - replace (Z.sgn l) with (-1) by lia. lia.
  - replace (Z.sgn l) with 1 by lia. lia.
Qed.

Lemma In_pairs_mem {A} (l : list A) x y : In (x, y) (pairs l) -> In x l /\ In y l.
Proof.
  induction l as [|a t IH]; intros H; [contradiction|]. cbn [pairs] in H. apply in_app_or in H as [H|H].
  - apply in_map_iff in H as [z [E Hz]]. inversion E; subst. split; [now left|now right].
  - destruct (IH H). split; now right.
Qed.

Definition pit_ok (nx ny nz k l : Z) : Prop := 1 <= Z.abs l <= pit_numvar nx ny nz k.

Lemma pit_ok_opp nx ny nz k l : pit_ok nx ny nz k l -> pit_ok nx ny nz k (- l).
Proof. unfold pit_ok. lia. Qed.

Lemma pit_Xs_ok nx ny nz k j x : 0 <= nx -> 0 <= ny -> 0 <= nz -> 1 <= j <= k -> In x (Xs nx j) -> pit_ok nx ny nz k x.
Proof.
  intros Hnx Hny Hnz Hj Hx. unfold Xs in Hx. apply In_zrange in Hx. unfold pit_ok, pit_numvar.
  pose proof (block_range nx k j (x - (j - 1) * nx) Hnx Hj ltac:(lia)).
  assert (0 <= k * ny) by (apply Z.mul_nonneg_nonneg; lia). assert (0 <= k * nz) by (apply Z.mul_nonneg_nonneg; lia).
  assert (0 <= k * (nx + nz)) by (apply Z.mul_nonneg_nonneg; lia). lia.
Qed.
Lemma pit_Yid_ok nx ny nz k j i : 0 <= nx -> 0 <= ny -> 0 <= nz -> 1 <= j <= k -> 1 <= i <= ny -> pit_ok nx ny nz k (Yid nx ny nz k j i).
Proof.
  intros Hnx Hny Hnz Hj Hi. unfold pit_ok, pit_numvar, Yid. pose proof (block_range ny k j i Hny Hj Hi).
  assert (0 <= k * nx) by (apply Z.mul_nonneg_nonneg; lia). assert (0 <= k * nz) by (apply Z.mul_nonneg_nonneg; lia).
  assert (0 <= k * (nx + nz)) by (apply Z.mul_nonneg_nonneg; lia). lia.
Qed.
Lemma pit_Zid_ok nx ny nz k j i : 0 <= nx -> 0 <= ny -> 0 <= nz -> 1 <= j <= k -> 1 <= i <= nz -> pit_ok nx ny nz k (Zid nx ny nz k j i).
Proof.
  intros Hnx Hny Hnz Hj Hi. unfold pit_ok, pit_numvar, Zid. pose proof (block_range nz k j i Hnz Hj Hi).
  assert (0 <= k * nx) by (apply Z.mul_nonneg_nonneg; lia). assert (0 <= k * ny) by (apply Z.mul_nonneg_nonneg; lia).
  assert (0 <= k * (nx + nz)) by (apply Z.mul_nonneg_nonneg; lia). lia.
Qed.
Lemma pit_Pid_ok nx ny nz k j i : 0 <= nx -> 0 <= ny -> 0 <= nz -> 1 <= j <= k -> 1 <= i <= nx + nz -> pit_ok nx ny nz k (Pid nx ny nz k j i).
Proof.
  intros Hnx Hny Hnz Hj Hi. unfold pit_ok, pit_numvar, Pid. pose proof (block_range (nx + nz) k j i ltac:(lia) Hj Hi).
  assert (0 <= k * nx) by (apply Z.mul_nonneg_nonneg; lia). assert (0 <= k * ny) by (apply Z.mul_nonneg_nonneg; lia).
  assert (0 <= k * nz) by (apply Z.mul_nonneg_nonneg; lia). lia.
Qed.
Lemma pit_Aid_ok nx ny nz k j i : 0 <= nx -> 0 <= ny -> 0 <= nz -> 1 <= j <= k -> 1 <= i <= 3 -> pit_ok nx ny nz k (Aid nx ny nz k j i).
Proof.
  intros Hnx Hny Hnz Hj Hi. unfold pit_ok, pit_numvar, Aid. pose proof (block_range 3 k j i ltac:(lia) Hj Hi).
  assert (0 <= k * nx) by (apply Z.mul_nonneg_nonneg; lia). assert (0 <= k * ny) by (apply Z.mul_nonneg_nonneg; lia).
  assert (0 <= k * nz) by (apply Z.mul_nonneg_nonneg; lia). assert (0 <= k * (nx + nz)) by (apply Z.mul_nonneg_nonneg; lia). lia.
Qed.
Lemma pit_Ys_ok nx ny nz k j y : 0 <= nx -> 0 <= ny -> 0 <= nz -> 1 <= j <= k -> In y (Ys nx ny nz k j) -> pit_ok nx ny nz k y.
Proof. intros Hnx Hny Hnz Hj Hy. apply in_map_iff in Hy as [i [<- Hi]]. apply In_vrange in Hi. now apply pit_Yid_ok. Qed.
Lemma pit_Zs_ok nx ny nz k j z : 0 <= nx -> 0 <= ny -> 0 <= nz -> 1 <= j <= k -> In z (Zs nx ny nz k j) -> pit_ok nx ny nz k z.
Proof. intros Hnx Hny Hnz Hj Hz. apply in_map_iff in Hz as [i [<- Hi]]. apply In_vrange in Hi. now apply pit_Zid_ok. Qed.
Lemma pit_Ps_ok nx ny nz k j p : 0 <= nx -> 0 <= ny -> 0 <= nz -> 1 <= j <= k -> In p (Ps nx ny nz k j) -> pit_ok nx ny nz k p.
Proof. intros Hnx Hny Hnz Hj Hp. apply in_map_iff in Hp as [i [<- Hi]]. apply In_vrange in Hi. now apply pit_Pid_ok. Qed.

Lemma In_firstn_in {A} (x : A) : forall t l, In x (firstn t l) -> In x l.
Proof.
  induction t as [|t IH]; intros l H; [contradiction|]. destruct l as [|y r]; [contradiction|].
  cbn [firstn] in H. destruct H as [->|H]; [now left|right; auto].
Qed.

Lemma pit_hard_bounded nx ny nz k T : 0 <= nx -> 0 <= ny -> 0 <= nz -> cnf_bounded nx T ->
  cnf_bounded (pit_numvar nx ny nz k) (pit_hard nx ny nz k true T).
Proof.
  intros Hnx Hny Hnz HT. unfold pit_hard. apply cnf_bounded_flat_map. intros j Hj. apply In_vrange in Hj.
  apply cnf_bounded_map. intros cl l Hcl Hl. apply in_app_or in Hl as [Hl|Hl].
  - apply in_map_iff in Hl as [x [<- Hx]]. cbn [shift]. pose proof (shift_spec_range nx k j x Hnx Hj (HT cl x Hcl Hx)).
    unfold pit_numvar. assert (0 <= k * ny) by (apply Z.mul_nonneg_nonneg; lia). assert (0 <= k * nz) by (apply Z.mul_nonneg_nonneg; lia).
    assert (0 <= k * (nx + nz)) by (apply Z.mul_nonneg_nonneg; lia). lia.
  - now apply (pit_Zs_ok nx ny nz k j l).
Qed.

Lemma pit_pitfall_bounded nx ny nz k : 0 <= nx -> 0 <= ny -> 0 <= nz ->
  cnf_bounded (pit_numvar nx ny nz k) (pit_pitfall nx ny nz k).
Proof.
  intros Hnx Hny Hnz. unfold pit_pitfall. apply cnf_bounded_flat_map. intros j Hj. apply In_vrange in Hj.
  apply cnf_bounded_flat_map. intros [y1 y2] Hy. apply In_pairs_mem in Hy as [Hy1 Hy2]. apply cnf_bounded_map.
  intros p l Hp Hl. cbn [fst snd In] in Hl. destruct Hl as [<-|[<-|[<-|[]]]].
  - now apply (pit_Ys_ok nx ny nz k j).
  - now apply (pit_Ys_ok nx ny nz k j).
  - apply pit_ok_opp. now apply (pit_Ps_ok nx ny nz k j).
Qed.

Lemma pit_pipes_bounded nx ny nz k : 0 <= nx -> 0 <= ny -> 0 <= nz ->
  cnf_bounded (pit_numvar nx ny nz k) (pit_pipes nx ny nz k).
Proof.
  intros Hnx Hny Hnz. unfold pit_pipes. apply cnf_bounded_flat_map. intros j Hj. apply In_vrange in Hj.
  apply cnf_bounded_flat_map. intros y Hy. unfold pipe. apply cnf_bounded_map. intros t l Ht Hl. apply in_seq in Ht.
  set (S := Xs nx j ++ Zs nx ny nz k j) in *.
  assert (HS : forall s, In s S -> pit_ok nx ny nz k s).
  { intros s Hs. apply in_app_or in Hs as [Hs|Hs]; [now apply (pit_Xs_ok nx ny nz k j)|now apply (pit_Zs_ok nx ny nz k j)]. }
  unfold pipe_clause in Hl.
  apply in_app_or in Hl as [Hl|Hl]; [|apply in_app_or in Hl as [Hl|Hl]; [|apply in_app_or in Hl as [Hl|Hl]]].
  - destruct Hl as [<-|[]]. now apply (pit_Ys_ok nx ny nz k j).
  - apply In_remove_nth in Hl. now apply (pit_Ps_ok nx ny nz k j).
  - apply HS. destruct (Nat.eqb (t + 1) (length S)); [apply In_remove_nth in Hl|]; eapply In_firstn_in; eauto.
  - destruct Hl as [<-|[]]. apply pit_ok_opp, HS, nth_In. lia.
Qed.

Lemma pit_tail_bounded nx ny nz k : 0 <= nx -> 0 <= ny -> 0 <= nz ->
  cnf_bounded (pit_numvar nx ny nz k) (pit_tail nx ny nz k).
Proof.
  intros Hnx Hny Hnz. unfold pit_tail. apply cnf_bounded_flat_map. intros j Hj. apply In_vrange in Hj.
  apply cnf_bounded_flat_map. intros y Hy. apply cnf_bounded_flat_map. intros z Hz.
  pose proof (pit_Ys_ok nx ny nz k j y Hnx Hny Hnz Hj Hy) as Oy. pose proof (pit_Zs_ok nx ny nz k j z Hnx Hny Hnz Hj Hz) as Oz.
  pose proof (pit_Aid_ok nx ny nz k j 1 Hnx Hny Hnz Hj ltac:(lia)) as O1.
  pose proof (pit_Aid_ok nx ny nz k j 2 Hnx Hny Hnz Hj ltac:(lia)) as O2.
  pose proof (pit_Aid_ok nx ny nz k j 3 Hnx Hny Hnz Hj ltac:(lia)) as O3.
  unfold pit_ok in *. intros c l Hc Hl. cbn [In] in Hc.
  destruct Hc as [<-|[<-|[<-|[<-|[]]]]]; cbn [In] in Hl; lia.
Qed.

Lemma pit_gamma_bounded nx ny nz k : 0 <= nx -> 0 <= ny -> 0 <= nz ->
  cnf_bounded (pit_numvar nx ny nz k) (pit_gamma nx ny nz k).
Proof.
  intros Hnx Hny Hnz. unfold pit_gamma. apply cnf_bounded_map. intros t l Ht Hl. apply In_zrange in Ht.
  apply in_flat_map in Hl as [j [Hj Hl]]. apply In_vrange in Hj. cbn [In] in Hl.
  destruct Hl as [<-|[<-|[]]]; apply pit_ok_opp, pit_Yid_ok; lia.
Qed.

Lemma pitfall_bounded n E ny nz k : 0 <= ny -> 0 <= nz ->
  cnf_bounded (pit_numvar (len E) ny nz k) (pitfall_cnf true n E ny nz k).
Proof.
  intros Hny Hnz. pose proof (len_nonneg E) as Hnx. unfold pitfall_cnf. cbv zeta.
  apply cnf_bounded_app; [apply pit_hard_bounded; auto; apply tseitin_bounded|].
  apply cnf_bounded_app; [now apply pit_pitfall_bounded|].
  apply cnf_bounded_app; [now apply pit_pipes_bounded|].
  apply cnf_bounded_app; [now apply pit_tail_bounded|now apply pit_gamma_bounded].
Qed.

Lemma pitfall_ok_args fixed validated v d ny nz k E nv f : pitfall_formula fixed validated v d ny nz k E = C3Ok nv f ->
  1 <= ny /\ 1 <= nz /\ C3Ok (pit_numvar (len E) ny nz k) (clauses_ir (pitfall_cnf fixed v E ny nz k)) = C3Ok nv f.
Proof.
  unfold pitfall_formula. destruct (Z.ltb_spec v 1); [discriminate|]. destruct (Z.ltb_spec d 1); [discriminate|].
  destruct (Z.ltb_spec ny 1); [discriminate|]. destruct (Z.ltb_spec nz 1); [discriminate|].
  destruct (Z.ltb_spec k 1); [discriminate|]. cbn [orb].
  destruct (negb (k mod 2 =? 0)); [discriminate|]. destruct ((d >? v) || (v * d mod 2 =? 1)); [discriminate|].
  destruct (d =? v); [discriminate|]. destruct (nz =? 1); [discriminate|]. intros E'. repeat split; try lia. exact E'.
Qed.

Theorem pitfall_in_range validated v d ny nz k E nv f :
  pitfall_formula true validated v d ny nz k E = C3Ok nv f -> lits_in_range nv (to_cnf f) = true.
Proof.
  intros H. apply pitfall_ok_args in H as [Hny [Hnz H]]. revert H. apply clauses_result_in_range, pitfall_bounded; lia.
Qed.
Theorem pitfall_numvar_doc fixed validated v d ny nz k E nv f :
  pitfall_formula fixed validated v d ny nz k E = C3Ok nv f ->
  nv = k * len E + k * ny + k * nz + k * (len E + nz) + k * 3.
Proof. intros H. apply pitfall_ok_args in H as [_ [_ H]]. now inversion H. Qed.

(* ====================================================================== *)
(* boolean tests used by the non-vacuity example of Prop_C10_families_C03.v *)
(* ====================================================================== *)
(* the formula branch is reached and at least one clause / builder call is made *)
Definition c3_nonempty (r : c3res) : bool :=
  match r with C3Ok _ (_ :: _) => true | _ => false end.
(* ... and the largest variable mentioned is exactly the declared number of variables *)
Definition c3_attains (r : c3res) : bool :=
  match r with C3Ok nv f => irs_max_var f =? nv | _ => false end.
