(* IR.v — intermediate representation of "builder calls": one constructor per
   method a formula family calls on the formula object (add_clause, cardinality_*,
   add_parity, the four majority/minority builders).  A family is modelled ONCE as
   a function into [list ir]; [to_cnf] reproduces what class CNF (CNFLinear) does
   with those calls and [to_opb] what class OPB (BaseOPB) does.  Definitions only. *)
From Coq Require Import ZArith List Bool.
From Cnfgen Require Import Sem Comb Linear.
Import ListNotations.
Open Scope Z_scope.

Inductive ir :=
| IClause (c : list Z)                       (* add_clause *)
| ILin (ls : list Z) (o : cop) (k : Z)       (* cardinality_leq/geq/eq/neq, add_linear *)
| IParity (ls : list Z) (constant : Z)       (* add_parity *)
| ILooseMaj (ls : list Z)
| ILooseMin (ls : list Z)
| IStrictMaj (ls : list Z)
| IStrictMin (ls : list Z).

Definition ir_cnf (i : ir) : cnf :=
  match i with
  | IClause c => [c]
  | ILin ls o k => add_linear ls o k
  | IParity ls c => add_parity ls c
  | ILooseMaj ls => add_loose_majority ls
  | ILooseMin ls => add_loose_minority ls
  | IStrictMaj ls => add_strict_majority ls
  | IStrictMin ls => add_strict_minority ls
  end.

Definition ir_opb (i : ir) : list pbc :=
  match i with
  | IClause c => [opb_clause c]
  | ILin ls o k => opb_linear ls o k
  | IParity ls c => opb_parity ls c
  | ILooseMaj ls => opb_loose_majority ls
  | ILooseMin ls => opb_loose_minority ls
  | IStrictMaj ls => opb_strict_majority ls
  | IStrictMin ls => opb_strict_minority ls
  end.

Definition to_cnf (l : list ir) : cnf := flat_map ir_cnf l.
Definition to_opb (l : list ir) : list pbc := flat_map ir_opb l.

(* the arithmetic meaning of a builder call *)
Definition ir_holds (a : Z -> bool) (i : ir) : bool :=
  match i with
  | IClause c => clause_sat a c
  | ILin ls o k => cop_holds o (count_true a ls) k
  | IParity ls c => eqb (parity_of a ls) (c =? 1)
  | ILooseMaj ls => 2 * count_true a ls >=? len ls
  | ILooseMin ls => 2 * count_true a ls <=? len ls
  | IStrictMaj ls => 2 * count_true a ls >? len ls
  | IStrictMin ls => 2 * count_true a ls <? len ls
  end.

Definition ir_lits (i : ir) : list Z :=
  match i with
  | IClause c => c
  | ILin ls _ _ | IParity ls _ | ILooseMaj ls | ILooseMin ls | IStrictMaj ls | IStrictMin ls => ls
  end.
Definition ir_ok (i : ir) : bool := lits_ok (ir_lits i).
Definition irs_ok (l : list ir) : bool := forallb ir_ok l.
Definition irs_hold (a : Z -> bool) (l : list ir) : bool := forallb (ir_holds a) l.
(* largest variable mentioned by a list of builder calls *)
Definition irs_max_var (l : list ir) : Z := fold_right (fun i m => Z.max (max_var_clause (ir_lits i)) m) 0 l.
(* certificate checker for the literal range of an instance (soundness: IRRange.irs_in_range_sound) *)
Definition irs_in_range (n : Z) (l : list ir) : bool := irs_ok l && (irs_max_var l <=? n).

(* every literal of a list of pseudo-Boolean constraints is non-zero and within 1..n *)
Definition opb_in_range (n : Z) (F : list pbc) : bool :=
  forallb (fun c => forallb (fun t => nonzero (snd t) && (Z.abs (snd t) <=? n)) (pb_terms c)) F.
