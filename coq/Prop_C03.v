(* Property C03 — contradiction and Ramsey-type benchmarks have the documented
   satisfiability.  ONLY statements; every proof is `exact <lemma>`.
   Models: Fam_pebbling.v, Fam_ordering.v, Fam_cpls.v, Fam_pitfall.v, Fam_ramsey.v
   (each formula is a list of builder calls; the clause families are [clauses_ir F]).
   Two full statements are FALSE of a faithful model of cnfgen and are stated as refutations of
   the `as_is` model variant next to the theorem for the documented (`spec`) variant:
   pitfall (D31, shift_edgelit: still in the code) and van der Waerden with a progression of
   length 1 (D12: repaired in /repo by commit f79a20a, so the code now follows [vdw_spec_formula];
   [vdw_formula] is the code before that commit).  The correspondence run accepts agreement with
   either variant and reports the `as_is` one with a failing input. *)
From Coq Require Import ZArith List Bool.
From Cnfgen Require Import Sem Comb Linear IR SemFacts IRFacts C03_Util C03_UtilFacts
  Fam_pebbling Fam_pebbling_Facts Fam_ordering Fam_ordering_Facts Fam_ramsey Fam_ramsey_Facts
  Fam_cpls Fam_cpls_Facts Fam_pitfall Fam_pitfall_Facts C03_Driver_Facts.
Import ListNotations.
Open Scope Z_scope.

(* ---- both renderings (class CNF, class OPB) of a clause family have the models of the clause list ---- *)
Theorem C03_clause_family_cnf : forall F, to_cnf (clauses_ir F) = F.
Proof. exact clauses_ir_cnf. Qed.
Print Assumptions C03_clause_family_cnf.
Theorem C03_clause_family_opb : forall a F, opb_sat a (to_opb (clauses_ir F)) = cnf_sat a F.
Proof. exact clauses_ir_opb. Qed.
Print Assumptions C03_clause_family_opb.

(* ================= (1) pebbling, stone, sparse stone ================= *)
(* every DAG given in topological order (predecessor lists), at least one vertex, every assignment *)
Theorem C03_peb_unsat : forall D a, dag_ok D = true -> 1 <= len D -> cnf_sat a (peb_cnf D) = false.
Proof. exact peb_unsat. Qed.
Print Assumptions C03_peb_unsat.

(* every stone availability graph B (stones 1..R), in particular vertices without any stone *)
Theorem C03_sstone_unsat : forall D B R a, dag_ok D = true -> len B = len D -> 1 <= len D -> 0 <= R -> bip_ok B R = true ->
  cnf_sat a (sstone_cnf D B R) = false.
Proof. exact sstone_unsat. Qed.
Print Assumptions C03_sstone_unsat.

(* every number of stones, zero included *)
Theorem C03_stone_unsat : forall D R a, dag_ok D = true -> 1 <= len D -> 0 <= R -> cnf_sat a (stone_cnf D R) = false.
Proof. exact stone_unsat. Qed.
Print Assumptions C03_stone_unsat.

(* exactly the documented axioms: one propagation clause per vertex (a source axiom when it has no
   predecessor), one sink clause per vertex without successor; none missing, none extra *)
Theorem C03_peb_axioms_exact : forall D c, In c (peb_cnf D) <->
  (exists v, 1 <= v <= len D /\ c = map Z.opp (nthZ D v) ++ [v]) \/
  (exists v, 1 <= v <= len D /\ is_sink D v = true /\ c = [- v]).
Proof. exact peb_axioms_exact. Qed.
Print Assumptions C03_peb_axioms_exact.

Theorem C03_sink_meaning : forall D v, is_sink D v = true <-> forall w, 1 <= w <= len D -> ~ In v (nthZ D w).
Proof. exact is_sink_spec. Qed.
Print Assumptions C03_sink_meaning.

Theorem C03_sstone_axioms_exact : forall D B R c, In c (sstone_cnf D B R) <->
  (exists v, 1 <= v <= len B /\ c = map (Pvar B R v) (nthZ B v)) \/
  (exists v j pat, 1 <= v <= len D /\ In j (nthZ B v) /\
      Forall2 (fun s p => In s (nthZ B p) /\ s <> j) pat (nthZ D v) /\
      c = sstone_prop_clause B R (nthZ D v) v j pat) \/
  (exists v j, 1 <= v <= len D /\ is_sink D v = true /\ In j (nthZ B v) /\ c = [- Pvar B R v j; - j]).
Proof. exact sstone_axioms_exact. Qed.
Print Assumptions C03_sstone_axioms_exact.

(* ================= (2) ordering principle ================= *)
(* plain / total / compact ("smart") / Knuth 2 / Knuth 3 and every combination of the flags, on every
   graph without loops with at least one vertex.  For n = 0 the formula is empty, hence the 1 <= n. *)
Theorem C03_gop_unsat : forall nb total smart knuth a, graph_ok nb = true -> 1 <= len nb ->
  cnf_sat a (gop_cnf nb total smart false knuth) = false.
Proof. exact gop_unsat. Qed.
Print Assumptions C03_gop_unsat.

Theorem C03_op_unsat : forall n total smart knuth a, 1 <= n -> cnf_sat a (op_cnf n total smart false knuth) = false.
Proof. exact op_unsat. Qed.
Print Assumptions C03_op_unsat.

Theorem C03_gop_axioms_exact : forall nb total smart plant knuth c,
  In c (gop_cnf nb total smart plant knuth) <->
    ax_nonmin nb smart plant c
    \/ (smart = true /\ ax_trans_smart (len nb) c)
    \/ (smart = false /\ ax_trans (len nb) knuth c)
    \/ (smart = false /\ ax_antisym (len nb) c)
    \/ (smart = false /\ total = true /\ ax_total (len nb) c).
Proof. exact gop_axioms_exact. Qed.
Print Assumptions C03_gop_axioms_exact.

(* planted: satisfiable exactly when the vertices can be put in a line so that every vertex but the
   last one (the single allowed minimum) comes after one of its neighbours -- for every variant,
   the two Knuth variants included *)
Theorem C03_gop_plant_sat_iff : forall nb total smart knuth, graph_ok nb = true ->
  ((exists a, cnf_sat a (gop_cnf nb total smart true knuth) = true) <-> exists pos, planted_order nb pos).
Proof. exact gop_plant_sat_iff. Qed.
Print Assumptions C03_gop_plant_sat_iff.

Theorem C03_op_plant_sat : forall n total smart knuth, 0 <= n -> exists a, cnf_sat a (op_cnf n total smart true knuth) = true.
Proof. exact op_plant_sat. Qed.
Print Assumptions C03_op_plant_sat.

(* T1 for the variants that state every transitivity axiom: the models are exactly the strict orders
   (total for `total` and for the compact representation) in which every vertex -- but the last one when
   planted -- has a neighbour before it.  (The Knuth variants state fewer axioms; their models need not be
   transitive, which is why the planted theorem above goes through a linear order instead.) *)
Theorem C03_gop_plain_T1 : forall nb total plant knuth a, graph_ok nb = true -> full_trans knuth ->
  (cnf_sat a (gop_cnf nb total false plant knuth) = true <-> order_axioms nb total plant (Rel a false (len nb))).
Proof. exact gop_plain_T1. Qed.
Print Assumptions C03_gop_plain_T1.
Theorem C03_gop_smart_T1 : forall nb total plant knuth a, graph_ok nb = true ->
  (cnf_sat a (gop_cnf nb total true plant knuth) = true <-> order_axioms nb true plant (Rel a true (len nb))).
Proof. exact gop_smart_T1. Qed.
Print Assumptions C03_gop_smart_T1.
(* one assignment per relation: distinct ordered pairs have distinct variables inside 1..numvar *)
Theorem C03_gop_vars : forall n u v u' v', 1 <= u <= n -> 1 <= v <= n -> u <> v -> 1 <= u' <= n -> 1 <= v' <= n -> u' <> v' ->
  (1 <= pid n u v <= gop_numvar n false) /\ (pid n u v = pid n u' v' -> u = u' /\ v = v').
Proof. intros n u v u' v' H1 H2 H3 H4 H5 H6. split; [exact (pid_range n u v H1 H2 H3)|exact (pid_inj n u v u' v' H1 H2 H3 H4 H5 H6)]. Qed.
Print Assumptions C03_gop_vars.

(* ================= (3) Ramsey-type benchmarks ================= *)
Theorem C03_ram_T1 : forall s k N a, cnf_sat a (ram_cnf s k N) = true <-> ram_good s k N (fun u v => a (cid N u v)).
Proof. exact ram_T1. Qed.
Print Assumptions C03_ram_T1.
Theorem C03_ram_T2 : forall s k N, (exists a, cnf_sat a (ram_cnf s k N) = true) <-> exists E, ram_good s k N E.
Proof. exact ram_T2. Qed.
Print Assumptions C03_ram_T2.
Theorem C03_ram_one_per_graph : forall N (a b : Z -> bool), 0 <= N ->
  (forall u v, 1 <= u -> u < v <= N -> a (cid N u v) = b (cid N u v)) -> forall x, 1 <= x <= ram_numvar N -> a x = b x.
Proof. exact ram_one_per_graph. Qed.
Print Assumptions C03_ram_one_per_graph.
Theorem C03_ram_vars : forall N u v u' v', 1 <= u -> u < v <= N -> 1 <= u' -> u' < v' <= N ->
  (1 <= cid N u v <= ram_numvar N) /\ (cid N u v = cid N u' v' -> u = u' /\ v = v').
Proof. intros N u v u' v' H1 H2 H3 H4. split; [exact (cid_range N u v H1 H2)|exact (cid_inj N u v u' v' H1 H2 H3 H4)]. Qed.
Print Assumptions C03_ram_vars.

(* van der Waerden.  [aps] is the progression generator: the one of the code ([vdw_aps], correct for
   lengths >= 2) or the documented one ([vdw_aps_spec], all lengths >= 1). *)
Theorem C03_vdw_generator_asis : forall N ks, forallb (fun k => 2 <=? k) ks = true -> aps_correct vdw_aps N ks.
Proof. exact aps_correct_asis. Qed.
Print Assumptions C03_vdw_generator_asis.
Theorem C03_vdw_generator_spec : forall N ks, forallb (fun k => 1 <=? k) ks = true -> aps_correct vdw_aps_spec N ks.
Proof. exact aps_correct_spec. Qed.
Print Assumptions C03_vdw_generator_spec.

Theorem C03_vdw2_T1 : forall aps N k1 k2 a, aps_correct aps N [k1; k2] ->
  (irs_hold a (vdw_ir aps N [k1; k2]) = true <-> vdw_good N [k1; k2] (fun i => if a i then 2 else 1)).
Proof. exact vdw2_T1. Qed.
Print Assumptions C03_vdw2_T1.
Theorem C03_vdw2_T2 : forall aps N k1 k2, aps_correct aps N [k1; k2] ->
  ((exists a, irs_hold a (vdw_ir aps N [k1; k2]) = true) <->
   exists col, (forall i, 1 <= i <= N -> 1 <= col i <= 2) /\ vdw_good N [k1; k2] col).
Proof. exact vdw2_T2. Qed.
Print Assumptions C03_vdw2_T2.
Theorem C03_vdwC_T1 : forall aps N ks a, length ks <> 2%nat -> 0 <= N -> aps_correct aps N ks ->
  (irs_hold a (vdw_ir aps N ks) = true <-> exists col, vdw_decodes N (len ks) a col /\ vdw_good N ks col).
Proof. exact vdwC_T1. Qed.
Print Assumptions C03_vdwC_T1.
Theorem C03_vdwC_T2 : forall aps N ks, length ks <> 2%nat -> 0 <= N -> aps_correct aps N ks ->
  ((exists a, irs_hold a (vdw_ir aps N ks) = true) <->
   exists col, (forall i, 1 <= i <= N -> 1 <= col i <= len ks) /\ vdw_good N ks col).
Proof. exact vdwC_T2. Qed.
Print Assumptions C03_vdwC_T2.
Theorem C03_vdwC_one_per_colouring : forall N C a b col, 0 <= N -> vdw_decodes N C a col -> vdw_decodes N C b col ->
  forall x, 1 <= x <= N * C -> a x = b x.
Proof. exact vdwC_one_per_colouring. Qed.
Print Assumptions C03_vdwC_one_per_colouring.
Theorem C03_vdwC_colouring_unique : forall N C a col col', vdw_decodes N C a col -> vdw_decodes N C a col' ->
  forall i, 1 <= i <= N -> col i = col' i.
Proof. exact vdw_decodes_unique. Qed.
Print Assumptions C03_vdwC_colouring_unique.
(* the CNF and the OPB rendering both mean [irs_hold] (no literal is 0) *)
Theorem C03_vdw_renderings : forall aps N ks a, aps_correct aps N ks ->
  cnf_sat a (to_cnf (vdw_ir aps N ks)) = irs_hold a (vdw_ir aps N ks) /\
  opb_sat a (to_opb (vdw_ir aps N ks)) = irs_hold a (vdw_ir aps N ks).
Proof. intros aps N ks a H. split; [apply to_cnf_sem|apply to_opb_sem]; exact (vdw_ir_ok aps N ks H). Qed.
Print Assumptions C03_vdw_renderings.

(* D12: "a formula for every valid argument" was false of the code before commit f79a20a ([vdw_formula]) ... *)
Theorem C03_vdw_total_refuted : ~ vdw_total_statement vdw_formula.
Proof. exact vdw_total_refuted. Qed.
Print Assumptions C03_vdw_total_refuted.
Theorem C03_vdw_crash_class : forall N ks, vdw_args_ok N ks = true -> In 1 ks -> vdw_formula N ks = C3Err C3ZeroDivisionError.
Proof. exact vdw_crashes_on_length_one. Qed.
Print Assumptions C03_vdw_crash_class.
(* ... true with the exact extra hypothesis "every length >= 2" ... *)
Theorem C03_vdw_total_partial : forall N ks, vdw_args_ok N ks = true -> forallb (fun k => 2 <=? k) ks = true ->
  vdw_formula N ks = C3Ok (vdw_numvar N ks) (vdw_ir vdw_aps N ks).
Proof. exact vdw_total_partial. Qed.
Print Assumptions C03_vdw_total_partial.
(* ... and true of the documented behaviour *)
Theorem C03_vdw_spec_total : vdw_total_statement vdw_spec_formula.
Proof. exact vdw_spec_total_holds. Qed.
Print Assumptions C03_vdw_spec_total.

Theorem C03_ptn_T1 : forall N a, cnf_sat a (ptn_cnf N) = true <-> ptn_good N a.
Proof. exact ptn_T1. Qed.
Print Assumptions C03_ptn_T1.
Theorem C03_ptn_T2 : forall N, (exists a, cnf_sat a (ptn_cnf N) = true) <-> exists col, ptn_good N col.
Proof. exact ptn_T2. Qed.
Print Assumptions C03_ptn_T2.
Theorem C03_ptn_vars : forall N, lits_in_range N (ptn_cnf N) = true.
Proof. exact ptn_vars. Qed.
Print Assumptions C03_ptn_vars.

(* ================= (4) CPLS ================= *)
(* every number of levels, b = 2^Lb nodes per level, c = 2^Lc colours *)
Theorem C03_cpls_unsat : forall A Lb Lc asg, 1 <= A -> 0 <= Lb -> 0 <= Lc ->
  cnf_sat asg (cpls_cnf A (2 ^ Lb) (2 ^ Lc)) = false.
Proof. exact cpls_unsat. Qed.
Print Assumptions C03_cpls_unsat.
Theorem C03_cpls_axioms_exact : forall a b c cl, In cl (cpls_cnf a b c) <->
  (exists y, 1 <= y <= c /\ cl = [- Gid b c 1 1 y]) \/
  (exists i x xx y, 1 <= i <= a - 1 /\ 1 <= x <= b /\ 1 <= xx <= b /\ 1 <= y <= c /\
      cl = forbid (cpls_foff a b c i) (Z.log2_up b) x (xx - 1) ++ [- Gid b c (i + 1) xx y; Gid b c i x y]) \/
  (exists x y, 1 <= x <= b /\ 1 <= y <= c /\ cl = forbid (cpls_uoff a b c) (Z.log2_up c) x (y - 1) ++ [Gid b c a x y]).
Proof. exact cpls_axioms_exact. Qed.
Print Assumptions C03_cpls_axioms_exact.
(* the clause forbid(x,j) is falsified by some j: whatever the bits of x are, they spell a number below 2^L *)
Theorem C03_cpls_forbid : forall a off L x, 0 <= off -> 0 <= L -> 1 <= x ->
  exists j, 0 <= j < 2 ^ L /\ clause_sat a (forbid off L x j) = false.
Proof. exact forbid_exists. Qed.
Print Assumptions C03_cpls_forbid.

(* ================= (5) Pitfall ================= *)
(* the Tseitin template (odd charge on vertex 1 only) is unsatisfiable on every graph *)
Theorem C03_tseitin_template_unsat : forall n E a, 1 <= n -> edges_ok n E = true -> cnf_sat a (tseitin_cnf n E) = false.
Proof. exact tseitin_unsat. Qed.
Print Assumptions C03_tseitin_template_unsat.

(* FALSE of the code as it is (D31): PitfallFormula(4,2,2,2,2) on the 4-cycle is satisfiable *)
Theorem C03_pitfall_refuted : ~ pitfall_unsat_statement false.
Proof. exact pitfall_refuted. Qed.
Print Assumptions C03_pitfall_refuted.
Theorem C03_pitfall_asis_witness :
  cnf_sat (assignment_of pitfall_witness) (pitfall_cnf false 4 pitfall_witness_edges 2 2 2) = true.
Proof. exact pitfall_asis_sat. Qed.
Print Assumptions C03_pitfall_asis_witness.
(* as it is, only graphs without edges are safe (the two copies differ on negative literals only) *)
Theorem C03_pitfall_partial : forall n ny nz k a, 1 <= n -> 2 <= ny -> 2 <= nz -> 1 <= k ->
  cnf_sat a (pitfall_cnf false n [] ny nz k) = false.
Proof. exact pitfall_asis_partial. Qed.
Print Assumptions C03_pitfall_partial.
(* the documented formula (repaired shift): unsatisfiable for every graph the generator may draw,
   ny >= 2, nz >= 2, every k >= 1 (even or not), every assignment *)
Theorem C03_pitfall_spec_unsat : forall n E ny nz k a, 1 <= n -> edges_ok n E = true -> 2 <= ny -> 2 <= nz -> 1 <= k ->
  cnf_sat a (pitfall_cnf true n E ny nz k) = false.
Proof. exact pitfall_spec_unsat. Qed.
Print Assumptions C03_pitfall_spec_unsat.

(* ================= (6) the functions the driver runs ================= *)
(* [*_formula] is what is extracted and compared with cnfgen (numvar + builder calls, or the exception
   class).  Whenever it returns a formula, the CNF rendering and the OPB rendering are BOTH unsatisfiable *)
Theorem C03_peb_formula : forall D nv f, peb_formula D = C3Ok nv f -> 1 <= len D -> nv = len D /\ both_unsat f.
Proof. exact peb_formula_unsat. Qed.
Print Assumptions C03_peb_formula.
Theorem C03_stone_formula : forall D R nv f, stone_formula D R = C3Ok nv f -> 1 <= len D -> both_unsat f.
Proof. exact stone_formula_unsat. Qed.
Print Assumptions C03_stone_formula.
Theorem C03_sstone_formula : forall D B R nv f, sstone_formula D B R = C3Ok nv f -> 1 <= len D -> 0 <= R -> bip_ok B R = true ->
  both_unsat f.
Proof. exact sstone_formula_unsat. Qed.
Print Assumptions C03_sstone_formula.
Theorem C03_gop_formula : forall nb total smart knuth nv f, gop_formula nb total smart false knuth = C3Ok nv f ->
  graph_ok nb = true -> 1 <= len nb -> both_unsat f.
Proof. exact gop_formula_unsat. Qed.
Print Assumptions C03_gop_formula.
Theorem C03_op_formula : forall n total smart knuth nv f, op_formula n total smart false knuth = C3Ok nv f -> 1 <= n -> both_unsat f.
Proof. exact op_formula_unsat. Qed.
Print Assumptions C03_op_formula.
(* the generator itself checks a >= 1 and that b, c are powers of two *)
Theorem C03_cpls_formula : forall a b c nv f, cpls_formula a b c = C3Ok nv f -> both_unsat f.
Proof. exact cpls_formula_unsat. Qed.
Print Assumptions C03_cpls_formula.
Theorem C03_pitfall_formula : forall validated v d ny nz k E nv f, pitfall_formula true validated v d ny nz k E = C3Ok nv f ->
  edges_ok v E = true -> 2 <= ny -> both_unsat f.
Proof. exact pitfall_formula_unsat. Qed.
Print Assumptions C03_pitfall_formula.
Theorem C03_vdw_formula : forall N ks nv f a, vdw_spec_formula N ks = C3Ok nv f ->
  nv = vdw_numvar N ks /\ f = vdw_ir vdw_aps_spec N ks /\ aps_correct vdw_aps_spec N ks /\
  cnf_sat a (to_cnf f) = irs_hold a f /\ opb_sat a (to_opb f) = irs_hold a f.
Proof. exact vdw_spec_formula_sem. Qed.
Print Assumptions C03_vdw_formula.
Theorem C03_ram_formula : forall s k N nv f a, ram_formula s k N = C3Ok nv f ->
  nv = ram_numvar N /\ (cnf_sat a (to_cnf f) = true <-> ram_good s k N (fun u v => a (cid N u v))) /\
  opb_sat a (to_opb f) = cnf_sat a (to_cnf f).
Proof. exact ram_formula_sem. Qed.
Print Assumptions C03_ram_formula.
Theorem C03_ptn_formula : forall N nv f a, ptn_formula N = C3Ok nv f ->
  nv = N /\ (cnf_sat a (to_cnf f) = true <-> ptn_good N a) /\ opb_sat a (to_opb f) = cnf_sat a (to_cnf f).
Proof. exact ptn_formula_sem. Qed.
Print Assumptions C03_ptn_formula.

(* ================= non-vacuity ================= *)
Example C03_nonvacuous :
  (* a pyramid DAG satisfies the hypotheses of the pebbling theorems, and the formula is not trivial *)
  dag_ok [[]; []; [1; 2]] = true /\ peb_cnf [[]; []; [1; 2]] = [[1]; [2]; [-1; -2; 3]; [-3]] /\
  bip_ok [[1; 3]; [2]; [1; 2; 3]] 3 = true /\
  (* a path is a legal graph for the ordering principle; the planted variant on it has an order *)
  graph_ok [[2]; [1; 3]; [2]] = true /\
  cnf_sat (order_assignment false 3 (fun v => - v)) (gop_cnf [[2]; [1; 3]; [2]] false false true 0) = true /\
  (* generators: hypotheses of the van der Waerden theorems are met, r(3,3) > 5 has a model *)
  forallb (fun k => 2 <=? k) [3; 4] = true /\ vdw_args_ok 5 [1; 2] = true /\
  cnf_sat (assignment_of [1; 4; 5; 8; 10]) (ram_cnf 3 3 5) = true /\
  cnf_sat (assignment_of [3]) (ptn_cnf 5) = true /\
  (* the pitfall graph of the refutation is a legal 2-regular graph *)
  edges_ok 4 pitfall_witness_edges = true /\
  cpls_cnf 1 1 1 = [[-1]; [1]].
Proof. vm_compute. repeat split. Qed.
