(* PipelineGraphFacts.v -- the graphs that reach the families through PipelineGraph.plg_graph_arg are
   well-formed graph objects (range, order, no duplicates), of the requested kind. *)
From Coq Require Import ZArith List Bool Ascii String Lia ZifyBool.
From Cnfgen Require Import Sem Comb Text GraphSpec GText GraphIO GraphGen FamTab C02Common C03_Util Fam_ordering.
From Cnfgen Require Import SemFacts GraphIOFacts C03_UtilFacts PipelineGraph.
Import ListNotations.
Open Scope Z_scope.

Lemma plg_new_wf k n r G : (k <> GioBipartite -> r = 0) -> gio_new k [] n r = GOk G -> gio_wf G /\ io_kind G = k.
Proof.
  intros Hk H. apply new_inv in H as (Hn & Hr & ->). split; [|reflexivity].
  unfold gio_wf. cbn [io_n io_r io_kind io_edges]. repeat split; try assumption; constructor.
Qed.

Lemma plg_add_edges_kind G es G' : gio_add_edges G es = GOk G' -> io_kind G' = io_kind G.
Proof. intros H. apply add_edges_inv in H as [_ ->]. reflexivity. Qed.

Lemma plg_new_add k n r es G : (k <> GioBipartite -> r = 0) ->
  gg_bind (gg_lift (gio_new k [] n r)) (fun G0 => gg_lift (gio_add_edges G0 es)) = GGOk G ->
  gio_wf G /\ io_kind G = k.
Proof.
  intros Hk H. destruct (gio_new k [] n r) as [G0|e] eqn:E0; cbn in H; [|discriminate].
  destruct (gio_add_edges G0 es) as [G1|e] eqn:E1; cbn in H; [|discriminate]. inversion H; subst G1.
  destruct (plg_new_wf k n r G0 Hk E0) as [W K]. split.
  - eapply add_edges_wf; eauto.
  - rewrite (plg_add_edges_kind _ _ _ E1). exact K.
Qed.

Lemma plg_of_gg_ok r G : plg_of_gg r = PlOk G -> r = GGOk G.
Proof. destruct r as [G'|[]| | |]; cbn; intros H; inversion H; reflexivity. Qed.

Definition plg_call_kind (c : gs_call) : gio_kind :=
  match c with
  | GCCompleteS _ _ | GCEmptyS _ => GioSimple
  | GCCompleteB _ _ | GCEmptyB _ _ | GCShift _ _ _ => GioBipartite
  | _ => GioDirected
  end.

Theorem plg_build_call_wf c G : plg_build_call c = PlOk G -> gio_wf G.
Proof.
  destruct c; cbn [plg_build_call]; try discriminate.
  - (* complete simple *) destruct b; [discriminate|]. intros H. apply plg_of_gg_ok in H.
    unfold gg_complete_simple in H. apply plg_new_add in H as [W _]; [exact W|reflexivity].
  - (* empty simple *) intros H. apply plg_of_gg_ok in H. unfold gg_empty_simple in H.
    destruct (gio_new GioSimple [] n 0) as [G0|e] eqn:E0; cbn in H; [|discriminate]. inversion H; subst.
    apply (plg_new_wf GioSimple n 0 G) in E0 as [W _]; [exact W|reflexivity].
  - (* shift *) unfold gg_shift, gg_shift_gen. destruct ((l <? 1) || (r <? 1)); [discriminate|].
    destruct (gio_new GioBipartite [] l r) as [G0|e] eqn:E0; cbn [gg_lift gg_bind]; [|destruct e; discriminate].
    destruct (gio_add_edges G0 _) as [G1|e] eqn:E1; cbn [gg_lift gg_bind]; [|destruct e; discriminate].
    intros H. inversion H; subst G1.
    apply (plg_new_wf GioBipartite l r G0) in E0 as [W _]; [|intros K; contradiction].
    eapply add_edges_wf; eauto.
  - (* complete bipartite *) intros H. apply plg_of_gg_ok in H. unfold gg_complete_bipartite in H.
    apply plg_new_add in H as [W _]; [exact W|intros K; contradiction].
  - (* empty bipartite *) intros H. apply plg_of_gg_ok in H. unfold gg_empty_bipartite in H.
    destruct (gio_new GioBipartite [] l r) as [G0|e] eqn:E0; cbn in H; [|discriminate]. inversion H; subst.
    apply (plg_new_wf GioBipartite l r G) in E0 as [W _]; [exact W|intros K; contradiction].
  - (* tree *) intros H. apply plg_of_gg_ok in H. unfold gg_dag_tree in H. destruct (h <? 0); [discriminate|].
    apply plg_new_add in H as [W _]; [exact W|reflexivity].
  - (* pyramid *) intros H. apply plg_of_gg_ok in H. unfold gg_dag_pyramid in H. destruct (h <? 0); [discriminate|].
    apply plg_new_add in H as [W _]; [exact W|reflexivity].
  - (* path *) intros H. apply plg_of_gg_ok in H. unfold gg_dag_path in H. destruct (len <? 0); [discriminate|].
    apply plg_new_add in H as [W _]; [exact W|reflexivity].
Qed.

Lemma plg_kind_eqb_eq a b : plg_kind_eqb a b = true -> a = b.
Proof. destruct a, b; cbn; intros H; try discriminate; reflexivity. Qed.

Theorem plg_graph_arg_wf g vs G : plg_graph_arg g vs = PlOk G -> gio_wf G /\ io_kind G = plg_kind_of g.
Proof.
  unfold plg_graph_arg. destruct (gs_make (0, 0) g vs) as [[plan|e|k]|[p|e|]]; try discriminate.
  destruct plan as [|[c| | | | |] [|? ?]]; try discriminate.
  destruct (plg_build_call c) as [G0| |] eqn:E; try discriminate.
  destruct (plg_kind_eqb (io_kind G0) (plg_kind_of g)) eqn:K; [|discriminate].
  intros H. inversion H; subst G0. split; [now apply (plg_build_call_wf c)|now apply plg_kind_eqb_eq].
Qed.

(* ---------- a well-formed simple graph object is a graph in the sense of the C02 models ---------- *)
Lemma ssorted_edges_sorted l : ssorted l -> edges_sorted l = true.
Proof.
  induction l as [|e t IH]; intros H; [reflexivity|]. apply ssorted_inv in H as [Ht Hlt]. cbn [edges_sorted].
  destruct t as [|f t']; [reflexivity|]. rewrite (IH Ht), andb_true_r.
  specialize (Hlt f (or_introl eq_refl)). unfold pair_lt in Hlt. unfold edge_ltb. lia.
Qed.

Theorem plg_simple_graph_wf G : gio_wf G -> io_kind G = GioSimple -> graph_wf (io_n G) (io_edges G) = true.
Proof.
  intros (Hn & _ & _ & Hs & Hf) K. unfold graph_wf. apply andb_true_iff. split; [apply andb_true_iff; split|].
  - lia.
  - unfold edges_ok. apply forallb_forall. intros e He. rewrite Forall_forall in Hf. specialize (Hf e He).
    unfold edge_stored_ok in Hf. rewrite K in Hf. lia.
  - now apply ssorted_edges_sorted.
Qed.

Lemma graph_wf_parts n E : graph_wf n E = true -> 0 <= n /\ edges_ok n E = true.
Proof. unfold graph_wf. intros H. apply andb_true_iff in H as [H _]. apply andb_true_iff in H as [H1 H2]. split; [lia|exact H2]. Qed.

(* ---------- neighbour lists ---------- *)
Lemma len_upto n : 0 <= n -> len (upto n) = n.
Proof. intros H. unfold len, upto. rewrite zrange_length. lia. Qed.

Lemma plg_nbrs_len n E : 0 <= n -> len (plg_nbrs n E) = n.
Proof. intros H. unfold plg_nbrs, len. rewrite map_length. fold (len (upto n)). now apply len_upto. Qed.

Lemma nthZ_map_upto {A} (f : Z -> list A) n v : 1 <= v <= n -> nthZ (map f (upto n)) v = f v.
Proof.
  intros H. unfold nthZ. rewrite nth_indep with (d' := f 0) by (rewrite map_length; unfold upto; rewrite zrange_length; lia).
  rewrite map_nth. f_equal. unfold upto. rewrite zrange_nth by lia. lia.
Qed.

Theorem plg_nbrs_ok n E : 0 <= n -> edges_ok n E = true -> graph_ok (plg_nbrs n E) = true.
Proof.
  intros Hn HE. unfold graph_ok. rewrite (plg_nbrs_len n E Hn). apply forallb_forall. intros v Hv.
  unfold vrange in Hv. apply In_zrange in Hv. unfold plg_nbrs. rewrite nthZ_map_upto by lia.
  unfold edges_ok in HE. rewrite forallb_forall in HE.
  apply forallb_forall. intros u Hu. apply in_app_or in Hu as [Hu|Hu]; apply in_map_iff in Hu as (e & <- & He);
    apply filter_In in He as [He Hev]; specialize (HE e He); lia.
Qed.
