(* C02Common.v — pieces shared by the graph-problem families of property C02.
   Models
     * cnfgen/graphs.py  Graph : a simple graph is given by its order [n] and the
       list [E] of its edges (u,v) with u < v in lexicographic order — this is
       exactly the order of Graph.edges() and of the identifiers that
       new_graph_edges hands out (edge number i of the list gets identifier i);
       neighbors(v) is sorted, i.e. smaller neighbours (edges (u,v)) first and
       then larger ones (edges (v,w));
     * cnfgen/formula/variables.py  new_mapping (identifier of f(i)=j is
       off + (i-1)*m + j), new_block(n) (identifier i), new_binary_mapping and
       BinaryMappingVariables.forbid, force_complete / functional / surjective /
       injective / nondecreasing _mapping for unary and binary mappings;
     * cnfgen/families/dominatingset.py  unique_neighborhoods.
   Abstracted: labels, descriptions, the type checks of the arguments
   (only the int range checks that raise ValueError are modelled, as [None]).
   A generator returns [option (list ir)]: [None] = the Python code raises
   ValueError.  Definitions only. *)
From Coq Require Import ZArith List Bool.
From Cnfgen Require Import Sem Comb Linear IR.
Import ListNotations.
Open Scope Z_scope.

(* range(1, n+1) *)
Definition rng (n : Z) : list Z := zrange 1 (n + 1).

(* ---------- simple graphs ---------- *)
Definition has_edge (E : list (Z * Z)) (u v : Z) : bool :=
  existsb (fun e => ((fst e =? u) && (snd e =? v)) || ((fst e =? v) && (snd e =? u))) E.

(* every edge is (u,v) with 1 <= u < v <= n *)
Definition edges_ok (n : Z) (E : list (Z * Z)) : bool :=
  forallb (fun e => (1 <=? fst e) && (fst e <? snd e) && (snd e <=? n)) E.
Definition edge_ltb (e f : Z * Z) : bool :=
  (fst e <? fst f) || ((fst e =? fst f) && (snd e <? snd f)).
Fixpoint edges_sorted (E : list (Z * Z)) : bool :=
  match E with
  | [] => true
  | e :: t => match t with [] => true | f :: _ => edge_ltb e f && edges_sorted t end
  end.
(* what every cnfgen.graphs.Graph satisfies *)
Definition graph_wf (n : Z) (E : list (Z * Z)) : bool := (0 <=? n) && edges_ok n E && edges_sorted E.

(* S is a union of connected components: no edge leaves S *)
Definition closed_under_edges (S : Z -> bool) (E : list (Z * Z)) : Prop :=
  forall e, In e E -> S (fst e) = S (snd e).

(* the edges with their identifiers 1, 2, ... *)
Definition eidx (E : list (Z * Z)) : list (Z * (Z * Z)) := combine (rng (len E)) E.
(* [e(u,v) for u in G.neighbors(v)] : identifiers of the edges at v, smaller neighbours first *)
Definition incident (E : list (Z * Z)) (v : Z) : list Z :=
  map fst (filter (fun x => snd (snd x) =? v) (eidx E)) ++
  map fst (filter (fun x => fst (snd x) =? v) (eidx E)).
(* sorted([v] + list(G.neighbors(v))) *)
Definition closed_nbhd (E : list (Z * Z)) (v : Z) : list Z :=
  map fst (filter (fun e => snd e =? v) E) ++ v :: map snd (filter (fun e => fst e =? v) E).
Definition degree (E : list (Z * Z)) (v : Z) : Z := len (incident E v).

(* Python's order on lists of integers *)
Fixpoint lex_leb (x y : list Z) : bool :=
  match x, y with
  | [], _ => true
  | _ :: _, [] => false
  | a :: x', b :: y' => if a <? b then true else if b <? a then false else lex_leb x' y'
  end.
Fixpoint list_eqb (x y : list Z) : bool :=
  match x, y with
  | [], [] => true
  | a :: x', b :: y' => (a =? b) && list_eqb x' y'
  | _, _ => false
  end.
Fixpoint insert_sorted (x : list Z) (l : list (list Z)) : list (list Z) :=
  match l with
  | [] => [x]
  | y :: t => if lex_leb x y then x :: l else y :: insert_sorted x t
  end.
Definition sort_lists (l : list (list Z)) : list (list Z) := fold_right insert_sorted [] l.
Fixpoint dedup_adj (l : list (list Z)) : list (list Z) :=
  match l with
  | [] => []
  | x :: t => match t with
              | [] => [x]
              | y :: _ => if list_eqb x y then dedup_adj t else x :: dedup_adj t
              end
  end.
(* dominatingset.unique_neighborhoods *)
Definition unique_nbhds (n : Z) (E : list (Z * Z)) : list (list Z) :=
  dedup_adj (sort_lists (map (closed_nbhd E) (rng n))).

(* ---------- unary mappings (new_mapping n m created after [off] variables) ---------- *)
Definition mvar (off m i j : Z) : Z := off + (i - 1) * m + j.

Definition um_complete (off n m : Z) : list ir :=
  map (fun i => IClause (map (fun j => mvar off m i j) (rng m))) (rng n).
Definition um_functional (off n m : Z) : list ir :=
  map (fun i => ILin (map (fun j => mvar off m i j) (rng m)) CLe 1) (rng n).
Definition um_surjective (off n m : Z) : list ir :=
  map (fun j => IClause (map (fun i => mvar off m i j) (rng n))) (rng m).
Definition um_injective (off n m : Z) : list ir :=
  map (fun j => ILin (map (fun i => mvar off m i j) (rng n)) CLe 1) (rng m).
Definition um_nondecreasing (off n m : Z) : list ir :=
  flat_map (fun u => flat_map (fun v => if fst v >? snd v
                                        then [IClause [- mvar off m (fst u) (fst v); - mvar off m (snd u) (snd v)]]
                                        else [])
                              (list_prod (rng m) (rng m)))
           (pairs (rng n)).

(* for (i1,i2) in combinations(1..k,2): for (j1,j2) in combinations(1..N,2): if bad: emit *)
Definition cons_clauses (bad : Z -> Z -> Z -> Z -> bool) (mk : Z -> Z -> Z -> Z -> list ir) (k N : Z) : list ir :=
  flat_map (fun i => flat_map (fun j => if bad (fst i) (snd i) (fst j) (snd j)
                                        then mk (fst i) (snd i) (fst j) (snd j) else [])
                              (pairs (rng N)))
           (pairs (rng k)).

(* the clauses emitted for one inconsistent pair: [-f(i1,j1),-f(i2,j2)] and, unless symmetry is
   broken elsewhere, [-f(i1,j2),-f(i2,j1)] *)
Definition pair_mk (off N : Z) (symbreak : bool) (i1 i2 j1 j2 : Z) : list ir :=
  IClause [- mvar off N i1 j1; - mvar off N i2 j2]
  :: (if symbreak then [] else [IClause [- mvar off N i1 j2; - mvar off N i2 j1]]).

(* ---------- binary mappings (new_binary_mapping n m as the first group) ---------- *)
(* number of bits: int(ceil(log(m,2))), exact for m < 2^29 (DESIGN.md section 8) *)
Definition bm_bits (m : Z) : Z := Z.log2_up m.
(* forbid(i,j) : literals on the variables base+1 .. base+nb (most significant bit
   first); positive where the bit of j is 0, negative where it is 1 *)
Fixpoint forbid_bits (nb : nat) (base j : Z) : list Z :=
  match nb with
  | O => []
  | S p => if 2 ^ Z.of_nat p <=? j
           then (- (base + 1)) :: forbid_bits p (base + 1) (j - 2 ^ Z.of_nat p)
           else (base + 1) :: forbid_bits p (base + 1) j
  end.
Definition bm_forbid (b i j : Z) : list Z := forbid_bits (Z.to_nat b) ((i - 1) * b) j.
(* the number written by the bits of element i *)
Fixpoint bits_value (a : Z -> bool) (nb : nat) (base : Z) : Z :=
  match nb with
  | O => 0
  | S p => b2z (a (base + 1)) * 2 ^ Z.of_nat p + bits_value a p (base + 1)
  end.
Definition bm_value (a : Z -> bool) (b i : Z) : Z := bits_value a (Z.to_nat b) ((i - 1) * b).

Definition bm_complete (n m : Z) : list ir :=
  flat_map (fun i => map (fun j => IClause (bm_forbid (bm_bits m) i j)) (zrange m (2 ^ bm_bits m))) (rng n).
Definition bm_injective (n m : Z) : list ir :=
  flat_map (fun y => map (fun x => IClause (bm_forbid (bm_bits m) (fst x) y ++ bm_forbid (bm_bits m) (snd x) y))
                         (pairs (rng n)))
           (zrange 0 m).
Definition bm_nondecreasing (n m : Z) : list ir :=
  flat_map (fun u => map (fun v => IClause (bm_forbid (bm_bits m) (fst u) (snd v) ++ bm_forbid (bm_bits m) (snd u) (fst v)))
                         (pairs (zrange 0 m)))
           (pairs (rng n)).

(* ---------- predicates used in the statements ---------- *)
(* R i j = "i is mapped to j" *)
Definition rel_total (R : Z -> Z -> bool) (n m : Z) : Prop :=
  forall i, 1 <= i <= n -> exists j, 1 <= j <= m /\ R i j = true.
Definition rel_functional (R : Z -> Z -> bool) (n m : Z) : Prop :=
  forall i j1 j2, 1 <= i <= n -> 1 <= j1 <= m -> 1 <= j2 <= m -> R i j1 = true -> R i j2 = true -> j1 = j2.
Definition rel_surjective (R : Z -> Z -> bool) (n m : Z) : Prop :=
  forall j, 1 <= j <= m -> exists i, 1 <= i <= n /\ R i j = true.
Definition rel_injective (R : Z -> Z -> bool) (n m : Z) : Prop :=
  forall j i1 i2, 1 <= j <= m -> 1 <= i1 <= n -> 1 <= i2 <= n -> R i1 j = true -> R i2 j = true -> i1 = i2.
(* no pair i1 < i2 is sent to j1 > j2 *)
Definition rel_nondecreasing (R : Z -> Z -> bool) (n m : Z) : Prop :=
  forall i1 i2 j1 j2, 1 <= i1 -> i1 < i2 -> i2 <= n -> 1 <= j2 -> j2 < j1 -> j1 <= m ->
    R i1 j1 = true -> R i2 j2 = true -> False.
(* no inconsistent pair (i1<i2) -> (j1<j2), resp. (i1<i2) -> (j2>j1) *)
Definition rel_straight (R : Z -> Z -> bool) (bad : Z -> Z -> Z -> Z -> bool) (n m : Z) : Prop :=
  forall i1 i2 j1 j2, 1 <= i1 -> i1 < i2 -> i2 <= n -> 1 <= j1 -> j1 < j2 -> j2 <= m -> bad i1 i2 j1 j2 = true ->
    R i1 j1 = true -> R i2 j2 = true -> False.
Definition rel_crossed (R : Z -> Z -> bool) (bad : Z -> Z -> Z -> Z -> bool) (n m : Z) : Prop :=
  forall i1 i2 j1 j2, 1 <= i1 -> i1 < i2 -> i2 <= n -> 1 <= j1 -> j1 < j2 -> j2 <= m -> bad i1 i2 j1 j2 = true ->
    R i1 j2 = true -> R i2 j1 = true -> False.
(* the relation read off an assignment *)
Definition rel_of (a : Z -> bool) (off m : Z) : Z -> Z -> bool := fun i j => a (mvar off m i j).
(* the assignment that writes a function: variable off+(i-1)*m+j is true iff phi i = j *)
Definition enc_map (off m : Z) (phi : Z -> Z) : Z -> bool :=
  fun v => if (off <? v) && (0 <? m) then phi ((v - off - 1) / m + 1) =? (v - off - 1) mod m + 1 else false.
(* the function read off an assignment: the first j in 1..m with f(i)=j true (0 if none) *)
Definition dec_map (a : Z -> bool) (off m : Z) : Z -> Z :=
  fun i => match find (fun j => a (mvar off m i j)) (rng m) with Some j => j | None => 0 end.
(* the assignment that writes phi i - 1 in binary on the b variables of element i *)
Definition enc_bits (b : Z) (phi : Z -> Z) : Z -> bool :=
  fun v => Z.testbit (phi ((v - 1) / b + 1) - 1) (((v - 1) / b + 1) * b - v).
(* the assignment that writes a relation on the variables of a unary mapping *)
Definition enc_rel (off m : Z) (R : Z -> Z -> bool) : Z -> bool :=
  fun v => R ((v - off - 1) / m + 1) ((v - off - 1) mod m + 1).
(* meaning of a generator's result: false when it raises *)
Definition opt_hold (a : Z -> bool) (o : option (list ir)) : bool :=
  match o with Some l => irs_hold a l | None => false end.
