(* AliasFacts.v — lemmas and proofs about the aliasing model (Heap.v, Alias.v). *)
From Coq Require Import ZArith List Bool Lia Arith String.
From Cnfgen Require Import Sem Comb Linear Subst Shuffle Header Heap Alias.
Import ListNotations.
Open Scope nat_scope.

(* ------------------------------------------------------------------ *)
(* lists                                                              *)
(* ------------------------------------------------------------------ *)
Lemma hp_set_length : forall A (l : list A) n x, List.length (hp_set n x l) = List.length l.
Proof. induction l as [|y t IH]; intros [|n] x; simpl; auto. Qed.

Lemma nth_error_hp_set_eq : forall A (l : list A) n x, n < List.length l -> nth_error (hp_set n x l) n = Some x.
Proof. induction l as [|y t IH]; intros [|n] x Hn; simpl in *; try lia; auto. apply IH; lia. Qed.

Lemma nth_error_hp_set_neq : forall A (l : list A) n m x, n <> m -> nth_error (hp_set n x l) m = nth_error l m.
Proof. induction l as [|y t IH]; intros [|n] [|m] x Hnm; simpl; auto; try congruence. Qed.

Lemma nth_error_hp_set_some : forall A (l : list A) n m x y,
  nth_error (hp_set n x l) m = Some y -> (m = n /\ y = x /\ n < List.length l) \/ (m <> n /\ nth_error l m = Some y).
Proof.
  intros A l n m x y H. destruct (Nat.eq_dec m n) as [->|Hne].
  - assert (Hl : n < List.length l).
    { rewrite <- (hp_set_length A l n x). apply nth_error_Some. congruence. }
    rewrite nth_error_hp_set_eq in H by exact Hl. left. inversion H. auto.
  - right. split; [exact Hne|]. rewrite nth_error_hp_set_neq in H by congruence. exact H.
Qed.

Lemma nth_hp_set_neq : forall A (l : list A) n m x d, n <> m -> nth m (hp_set n x l) d = nth m l d.
Proof. induction l as [|y t IH]; intros [|n] [|m] x d Hnm; simpl; auto; try congruence. Qed.

Lemma nth_error_app_l : forall A (l l' : list A) n x, nth_error l n = Some x -> nth_error (l ++ l') n = Some x.
Proof. intros A l l' n x H. rewrite nth_error_app1; [exact H|]. apply nth_error_Some. congruence. Qed.

Lemma nth_error_snoc_some : forall A (l : list A) a n x,
  nth_error (l ++ [a]) n = Some x -> (nth_error l n = Some x) \/ (n = List.length l /\ x = a).
Proof.
  intros A l a n x H. destruct (Nat.lt_ge_cases n (List.length l)) as [Hlt|Hge].
  - left. rewrite nth_error_app1 in H by exact Hlt. exact H.
  - right. rewrite nth_error_app2 in H by exact Hge.
    destruct (n - List.length l) as [|k] eqn:E; simpl in H.
    + inversion H. split; [lia|reflexivity].
    + destruct k; discriminate.
Qed.

Lemma in_seq_ge : forall a n l, In l (seq a n) -> a <= l < a + n.
Proof. intros a n l H. apply in_seq in H. exact H. Qed.

Lemma Forall_lt_mono : forall n m ls, n <= m -> Forall (fun l => l < n) ls -> Forall (fun l => l < m) ls.
Proof. intros n m ls Hnm H. eapply Forall_impl; [|exact H]. simpl. intros; lia. Qed.

Lemma in_firstn : forall A n (l : list A) x, In x (firstn n l) -> In x l.
Proof. induction n as [|n IH]; intros [|y t] x H; simpl in *; try contradiction. destruct H as [H|H]; [left; exact H|right; apply IH; exact H]. Qed.

Lemma in_skipn : forall A n (l : list A) x, In x (skipn n l) -> In x l.
Proof. induction n as [|n IH]; intros [|y t] x H; simpl in *; try contradiction; auto. Qed.

Lemma sub_list_incl : forall A a b (l : list A) x, In x (sub_list a b l) -> In x l.
Proof. intros A a b l x H. unfold sub_list in H. apply in_firstn in H. eapply in_skipn; exact H. Qed.

Lemma nat_in_true : forall x l, nat_in x l = true <-> In x l.
Proof.
  intros x l. unfold nat_in. rewrite existsb_exists. split.
  - intros [y [Hy He]]. apply Nat.eqb_eq in He. subst. exact Hy.
  - intros H. exists x. split; [exact H|apply Nat.eqb_refl].
Qed.

Lemma nat_in_false : forall x l, nat_in x l = false <-> ~ In x l.
Proof.
  intros x l. split.
  - intros H Hin. apply nat_in_true in Hin. congruence.
  - intros H. destruct (nat_in x l) eqn:E; [|reflexivity]. apply nat_in_true in E. contradiction.
Qed.

(* ------------------------------------------------------------------ *)
(* heap                                                               *)
(* ------------------------------------------------------------------ *)
Lemma hp_get_app_l : forall h cs l, l < List.length h -> hp_get (h ++ cs) l = hp_get h l.
Proof. intros h cs l Hl. unfold hp_get. apply app_nth1. exact Hl. Qed.

Lemma hp_get_set_neq : forall h l l' c, l <> l' -> hp_get (hp_set l c h) l' = hp_get h l'.
Proof. intros. unfold hp_get. apply nth_hp_set_neq. assumption. Qed.

Definition refs_bounded (n : nat) (c : hcell) : Prop := Forall (fun p => p < n) (cell_refs c).

Lemma refs_bounded_mono : forall n m c, n <= m -> refs_bounded n c -> refs_bounded m c.
Proof. intros n m c Hnm H. eapply Forall_lt_mono; eauto. Qed.

Lemma lits_at_app_l : forall h cs p, p < List.length h -> lits_at (h ++ cs) p = lits_at h p.
Proof. intros. unfold lits_at. rewrite hp_get_app_l by assumption. reflexivity. Qed.

Lemma term_val_ext : forall h h' t,
  (forall p, In p (term_refs t) -> lits_at h' p = lits_at h p) -> term_val h' t = term_val h t.
Proof. intros h h' [c l|p] H; simpl; [reflexivity|]. apply H. simpl. auto. Qed.

Lemma terms_val_ext : forall h h' ts,
  (forall p, In p (flat_map term_refs ts) -> lits_at h' p = lits_at h p) ->
  map (term_val h') ts = map (term_val h) ts.
Proof.
  intros h h' ts H. apply map_ext_in. intros t Ht. apply term_val_ext.
  intros p Hp. apply H. apply in_flat_map. exists t. split; assumption.
Qed.

(* the observable value of a list depends on its own cell and on the cells it refers to *)
Lemma cell_val_ext : forall h h' l,
  hp_get h' l = hp_get h l ->
  (forall p, In p (cell_refs (hp_get h l)) -> lits_at h' p = lits_at h p) ->
  cell_val h' l = cell_val h l.
Proof.
  intros h h' l Hc Hr. unfold cell_val. rewrite Hc. destruct (hp_get h l) as [xs|ts o d]; [reflexivity|].
  simpl in Hr. rewrite (terms_val_ext h h' ts Hr). reflexivity.
Qed.

Lemma cell_val_app_l : forall h cs l,
  l < List.length h -> refs_bounded (List.length h) (hp_get h l) -> cell_val (h ++ cs) l = cell_val h l.
Proof.
  intros h cs l Hl Hb. apply cell_val_ext.
  - apply hp_get_app_l. exact Hl.
  - intros p Hp. apply lits_at_app_l. unfold refs_bounded in Hb. rewrite Forall_forall in Hb. apply Hb. exact Hp.
Qed.

Lemma cell_refs_mutate : forall m c p, In p (cell_refs (mutate m c)) -> In p (cell_refs c).
Proof.
  intros m [xs|ts o d] p H; [destruct m; simpl in H; contradiction|].
  destruct m; simpl in *; try exact H.
  - (* MTermSet *)
    revert i H. induction ts as [|t ts IH]; intros [|i] H; simpl in *; try contradiction.
    + apply in_or_app. right. exact H.
    + apply in_app_or in H. apply in_or_app. destruct H as [H|H]; [left; exact H|right; eapply IH; exact H].
  - (* MTermIns *)
    rewrite flat_map_app in H. apply in_app_or in H. destruct H as [H|H]; [exact H|simpl in H; contradiction].
  - (* MTermDel *)
    destruct ts as [|t ts]; simpl in *; [contradiction|]. apply in_or_app. right. exact H.
Qed.

(* ------------------------------------------------------------------ *)
(* the structural invariant: bounds, and no list belongs to two objects *)
(* ------------------------------------------------------------------ *)
Record wf (s : astate) : Prop := mkwf {
  wf_held : Forall (fun l => l < List.length (s_heap s)) (s_held s);
  wf_cl : forall g o, nth_error (s_objs s) g = Some o -> Forall (fun l => l < List.length (s_heap s)) (oclauses o);
  wf_hd : forall g o, nth_error (s_objs s) g = Some o -> ohdr o < List.length (s_hdrs s);
  wf_nodup : forall g o, nth_error (s_objs s) g = Some o -> NoDup (oclauses o);
  wf_disj : forall g1 g2 o1 o2 l, g1 <> g2 -> nth_error (s_objs s) g1 = Some o1 -> nth_error (s_objs s) g2 = Some o2 ->
            In l (oclauses o1) -> ~ In l (oclauses o2);
  wf_hdr_inj : forall g1 g2 o1 o2, g1 <> g2 -> nth_error (s_objs s) g1 = Some o1 -> nth_error (s_objs s) g2 = Some o2 ->
            ohdr o1 <> ohdr o2;
  wf_refs : forall l, refs_bounded (List.length (s_heap s)) (hp_get (s_heap s) l)
}.

Lemma wf_init : wf al_init.
Proof.
  constructor; simpl; intros; try (destruct g; discriminate); try (destruct g1; discriminate); auto.
  unfold refs_bounded, hp_get. destruct l; simpl; constructor.
Qed.

Lemma nodup_app : forall A (l1 l2 : list A), NoDup l1 -> NoDup l2 -> (forall x, In x l1 -> ~ In x l2) -> NoDup (l1 ++ l2).
Proof.
  induction l1 as [|a t IH]; intros l2 H1 H2 Hd; simpl; [exact H2|].
  inversion H1 as [|a' t' Ha Ht]; subst. constructor.
  - intro Hin. apply in_app_or in Hin. destruct Hin as [Hin|Hin]; [contradiction|]. apply (Hd a); [left; reflexivity|exact Hin].
  - apply IH; auto. intros x Hx. apply Hd. right. exact Hx.
Qed.

Lemma hp_get_default : forall h l, List.length h <= l -> hp_get h l = HLits [].
Proof. intros. unfold hp_get. apply nth_overflow. assumption. Qed.

Lemma hp_get_app_r : forall h cs l, List.length h <= l -> hp_get (h ++ cs) l = nth (l - List.length h) cs (HLits []).
Proof. intros. unfold hp_get. apply app_nth2. lia. Qed.

Lemma refs_bounded_default : forall n, refs_bounded n (HLits []).
Proof. intros. constructor. Qed.

Lemma refs_after_extend : forall h cs,
  (forall l, refs_bounded (List.length h) (hp_get h l)) -> Forall (refs_bounded (List.length h)) cs ->
  forall l, refs_bounded (List.length (h ++ cs)) (hp_get (h ++ cs) l).
Proof.
  intros h cs Hh Hcs l. rewrite app_length.
  destruct (Nat.lt_ge_cases l (List.length h)) as [Hlt|Hge].
  - rewrite hp_get_app_l by exact Hlt. eapply refs_bounded_mono; [|apply Hh]. lia.
  - rewrite hp_get_app_r by exact Hge.
    destruct (Nat.lt_ge_cases (l - List.length h) (List.length cs)) as [Hl2|Hg2].
    + rewrite Forall_forall in Hcs. eapply refs_bounded_mono; [|apply Hcs; apply nth_In; exact Hl2]. lia.
    + rewrite nth_overflow by exact Hg2. apply refs_bounded_default.
Qed.

(* fresh list objects *)
Lemma wf_extend : forall s cs,
  wf s -> Forall (refs_bounded (List.length (s_heap s))) cs ->
  wf (mkst (s_heap s ++ cs) (s_hdrs s) (s_objs s) (s_held s)).
Proof.
  intros s cs W Hcs. destruct W as [Wh Wc Whd Wn Wd Wi Wr].
  constructor; simpl; auto.
  - eapply Forall_lt_mono; [|exact Wh]. rewrite app_length. lia.
  - intros g o Hg. eapply Forall_lt_mono; [|eapply Wc; exact Hg]. rewrite app_length. lia.
  - apply refs_after_extend; assumption.
Qed.

(* references handed to the client *)
Lemma wf_hold : forall s ls,
  wf s -> Forall (fun l => l < List.length (s_heap s)) ls ->
  wf (mkst (s_heap s) (s_hdrs s) (s_objs s) (s_held s ++ ls)).
Proof.
  intros s ls W Hls. destruct W as [Wh Wc Whd Wn Wd Wi Wr].
  constructor; simpl; auto. apply Forall_app. split; assumption.
Qed.

(* lists that belong to nobody are attached to object f *)
Definition unowned (s : astate) (ls : list nat) : Prop :=
  NoDup ls /\ Forall (fun l => l < List.length (s_heap s)) ls /\
  forall g o l, nth_error (s_objs s) g = Some o -> In l ls -> ~ In l (oclauses o).

Lemma wf_attach : forall s f o nv ls,
  wf s -> nth_error (s_objs s) f = Some o -> unowned s ls ->
  wf (mkst (s_heap s) (s_hdrs s) (hp_set f (mkobj (okind o) nv (oclauses o ++ ls) (ohdr o)) (s_objs s)) (s_held s)).
Proof.
  intros s f o nv ls W Hf [Hnd [Hb Hun]]. destruct W as [Wh Wc Whd Wn Wd Wi Wr].
  constructor; simpl; auto.
  - intros g o' Hg. apply nth_error_hp_set_some in Hg. destruct Hg as [[-> [-> _]]|[Hne Hg]]; simpl.
    + apply Forall_app. split; [eapply Wc; exact Hf|exact Hb].
    + eapply Wc; exact Hg.
  - intros g o' Hg. apply nth_error_hp_set_some in Hg. destruct Hg as [[-> [-> _]]|[Hne Hg]]; simpl.
    + eapply Whd; exact Hf.
    + eapply Whd; exact Hg.
  - intros g o' Hg. apply nth_error_hp_set_some in Hg. destruct Hg as [[-> [-> _]]|[Hne Hg]]; simpl.
    + apply nodup_app; [eapply Wn; exact Hf|exact Hnd|]. intros x Hx Hx2. eapply Hun; [exact Hf|exact Hx2|exact Hx].
    + eapply Wn; exact Hg.
  - intros g1 g2 o1 o2 l Hne H1 H2 Hin.
    apply nth_error_hp_set_some in H1. apply nth_error_hp_set_some in H2.
    destruct H1 as [[-> [-> _]]|[Hn1 H1]]; destruct H2 as [[-> [-> _]]|[Hn2 H2]]; simpl in *.
    + congruence.
    + apply in_app_or in Hin. destruct Hin as [Hin|Hin].
      * eapply Wd; [|exact Hf|exact H2|exact Hin]. congruence.
      * eapply Hun; [exact H2|exact Hin].
    + intro Hin2. apply in_app_or in Hin2. destruct Hin2 as [Hin2|Hin2].
      * eapply Wd; [|exact H1|exact Hf|exact Hin|exact Hin2]. congruence.
      * eapply Hun; [exact H1|exact Hin2|exact Hin].
    + eapply Wd; [exact Hne|exact H1|exact H2|exact Hin].
  - intros g1 g2 o1 o2 Hne H1 H2.
    apply nth_error_hp_set_some in H1. apply nth_error_hp_set_some in H2.
    destruct H1 as [[-> [-> _]]|[Hn1 H1]]; destruct H2 as [[-> [-> _]]|[Hn2 H2]]; simpl in *.
    + congruence.
    + eapply Wi; [|exact Hf|exact H2]. congruence.
    + eapply Wi; [|exact H1|exact Hf]. congruence.
    + eapply Wi; [exact Hne|exact H1|exact H2].
Qed.

(* a new object owning lists that belong to nobody, with a new header dict *)
Lemma wf_push : forall s k nv ls hd,
  wf s -> unowned s ls ->
  wf (mkst (s_heap s) (s_hdrs s ++ [hd]) (s_objs s ++ [mkobj k nv ls (List.length (s_hdrs s))]) (s_held s)).
Proof.
  intros s k nv ls hd W [Hnd [Hb Hun]]. destruct W as [Wh Wc Whd Wn Wd Wi Wr].
  constructor; simpl; auto.
  - intros g o Hg. apply nth_error_snoc_some in Hg. destruct Hg as [Hg|[_ ->]]; simpl; [eapply Wc; exact Hg|exact Hb].
  - intros g o Hg. rewrite app_length. simpl. apply nth_error_snoc_some in Hg.
    destruct Hg as [Hg|[_ ->]]; simpl; [specialize (Whd g o Hg); lia|lia].
  - intros g o Hg. apply nth_error_snoc_some in Hg. destruct Hg as [Hg|[_ ->]]; simpl; [eapply Wn; exact Hg|exact Hnd].
  - intros g1 g2 o1 o2 l Hne H1 H2 Hin.
    apply nth_error_snoc_some in H1. apply nth_error_snoc_some in H2.
    destruct H1 as [H1|[E1 ->]]; destruct H2 as [H2|[E2 ->]]; simpl in *.
    + eapply Wd; [exact Hne|exact H1|exact H2|exact Hin].
    + intro Hin2. eapply Hun; [exact H1|exact Hin2|exact Hin].
    + eapply Hun; [exact H2|exact Hin].
    + lia.
  - intros g1 g2 o1 o2 Hne H1 H2.
    apply nth_error_snoc_some in H1. apply nth_error_snoc_some in H2.
    destruct H1 as [H1|[E1 ->]]; destruct H2 as [H2|[E2 ->]]; simpl in *.
    + eapply Wi; [exact Hne|exact H1|exact H2].
    + specialize (Whd g1 o1 H1). lia.
    + specialize (Whd g2 o2 H2). lia.
    + lia.
Qed.

Lemma fresh_unowned : forall s cs,
  wf s -> unowned (mkst (s_heap s ++ cs) (s_hdrs s) (s_objs s) (s_held s)) (seq (List.length (s_heap s)) (List.length cs)).
Proof.
  intros s cs W. split; [apply seq_NoDup|]. split.
  - simpl. apply Forall_forall. intros l Hl. apply in_seq in Hl. rewrite app_length. lia.
  - simpl. intros g o l Hg Hl Hin. apply in_seq in Hl.
    pose proof (wf_cl s W g o Hg) as Hb. rewrite Forall_forall in Hb. specialize (Hb l Hin). lia.
Qed.

(* ------------------------------------------------------------------ *)
(* micro-operations preserve the structural invariant                   *)
(* ------------------------------------------------------------------ *)
Definition uop_wfok (n : nat) (u : uop) : Prop :=
  match u with
  | UAllocHeld c | UAllocTmp c => refs_bounded n c
  | UAddCells _ _ cs | UNewObj _ _ cs _ => Forall (refs_bounded n) cs
  | UHold ls => Forall (fun l => l < n) ls
  | USetHdr _ _ | UMut _ _ => True
  end.

Lemma uop_wfok_mono : forall n m u, n <= m -> uop_wfok n u -> uop_wfok m u.
Proof.
  intros n m u Hnm H. destruct u; simpl in *; auto;
    try (eapply refs_bounded_mono; eauto; fail);
    try (eapply Forall_impl; [|exact H]; intros c Hc; eapply refs_bounded_mono; eauto; fail).
  eapply Forall_lt_mono; eauto.
Qed.

Lemma ustep_heap_length : forall s u, List.length (s_heap s) <= List.length (s_heap (ustep s u)).
Proof.
  intros s u. destruct u; simpl; try rewrite app_length; try lia.
  - destruct (nth_error (s_objs s) f); simpl; try rewrite app_length; lia.
  - destruct (nth_error (s_objs s) f); simpl; lia.
  - rewrite hp_set_length. lia.
Qed.

Lemma ustep_wf : forall s u, wf s -> uop_wfok (List.length (s_heap s)) u -> wf (ustep s u).
Proof.
  intros s u W Hok. destruct u as [c|c|f nv cs|k nv cs hd|ls|f hd|l m]; simpl in *.
  - (* UAllocHeld *)
    assert (W1 := wf_extend s [c] W (Forall_cons _ Hok (Forall_nil _))).
    apply (wf_hold _ [List.length (s_heap s)]) in W1; [exact W1|].
    simpl. constructor; [rewrite app_length; simpl; lia|constructor].
  - (* UAllocTmp *)
    exact (wf_extend s [c] W (Forall_cons _ Hok (Forall_nil _))).
  - (* UAddCells *)
    destruct (nth_error (s_objs s) f) as [o|] eqn:Hf; [|exact W].
    assert (W1 := wf_extend s cs W Hok).
    exact (wf_attach _ f o nv _ W1 Hf (fresh_unowned s cs W)).
  - (* UNewObj *)
    assert (W1 := wf_extend s cs W Hok).
    exact (wf_push _ k nv _ hd W1 (fresh_unowned s cs W)).
  - (* UHold *)
    exact (wf_hold s ls W Hok).
  - (* USetHdr *)
    destruct (nth_error (s_objs s) f) as [o|] eqn:Hf; [|exact W].
    destruct W as [Wh Wc Whd Wn Wd Wi Wr]. constructor; simpl; auto.
    intros g o' Hg. rewrite hp_set_length. eapply Whd; exact Hg.
  - (* UMut *)
    destruct W as [Wh Wc Whd Wn Wd Wi Wr]. constructor; simpl; auto.
    + eapply Forall_lt_mono; [|exact Wh]. rewrite hp_set_length. lia.
    + intros g o Hg. eapply Forall_lt_mono; [|eapply Wc; exact Hg]. rewrite hp_set_length. lia.
    + intros l'. rewrite hp_set_length. destruct (Nat.eq_dec l l') as [<-|Hne].
      * destruct (Nat.lt_ge_cases l (List.length (s_heap s))) as [Hlt|Hge].
        -- unfold hp_get at 1. rewrite (nth_error_nth _ _ _ (nth_error_hp_set_eq _ _ _ _ Hlt)).
           unfold refs_bounded. apply Forall_forall. intros p Hp. apply cell_refs_mutate in Hp.
           specialize (Wr l). unfold refs_bounded in Wr. rewrite Forall_forall in Wr. apply Wr. exact Hp.
        -- rewrite hp_get_default by (rewrite hp_set_length; exact Hge). apply refs_bounded_default.
      * rewrite hp_get_set_neq by exact Hne. apply Wr.
Qed.

Lemma usteps_wf : forall us s, wf s -> Forall (uop_wfok (List.length (s_heap s))) us -> wf (fold_left ustep us s).
Proof.
  induction us as [|u us IH]; intros s W H; simpl; [exact W|].
  inversion H as [|u' us' Hu Hus]; subst. apply IH.
  - apply ustep_wf; assumption.
  - eapply Forall_impl; [|exact Hus]. intros u0 H0. eapply uop_wfok_mono; [|exact H0]. apply ustep_heap_length.
Qed.

(* ------------------------------------------------------------------ *)
(* what compile produces                                                *)
(* ------------------------------------------------------------------ *)
Definition pr_free (c : hcell) : Prop := cell_refs c = [].

Lemma pr_free_bounded : forall n c, pr_free c -> refs_bounded n c.
Proof. intros n c H. unfold refs_bounded. rewrite H. constructor. Qed.

Lemma refs_map_tup : forall A (f g : A -> Z) l, flat_map term_refs (map (fun x => PTup (f x) (g x)) l) = [].
Proof. induction l as [|x t IH]; simpl; auto. Qed.

Lemma pr_free_lits : forall xs, pr_free (HLits xs).
Proof. reflexivity. Qed.

Lemma pr_free_clause_cell : forall k xs, pr_free (clause_cell k xs).
Proof. intros [|] xs; unfold pr_free; simpl; [reflexivity|]. apply (refs_map_tup Z (fun _ => 1%Z) (fun l => l)). Qed.

Lemma pr_free_pbc_cell : forall c, pr_free (pbc_cell c).
Proof. intros c. unfold pr_free, pbc_cell. simpl. apply (refs_map_tup (Z * Z) fst snd). Qed.

Lemma Forall_map_all : forall A B (P : B -> Prop) (f : A -> B) l, (forall x, P (f x)) -> Forall P (map f l).
Proof. intros. apply Forall_forall. intros y Hy. apply in_map_iff in Hy. destruct Hy as [x [<- _]]. auto. Qed.

Lemma linear_cells_pr_free : forall k xs o c cs, linear_cells k xs o c = Some cs -> Forall pr_free cs.
Proof.
  intros k xs o c cs H. unfold linear_cells in H. destruct k.
  - inversion H. apply Forall_map_all. intros; apply pr_free_lits.
  - destruct o; inversion H; subst;
      try (constructor; [apply pr_free_pbc_cell|constructor]; fail);
      apply Forall_map_all; intros; apply pr_free_pbc_cell.
Qed.

Lemma parity_cells_pr_free : forall k xs c, Forall pr_free (parity_cells k xs c).
Proof. intros. apply Forall_map_all. intros; apply pr_free_clause_cell. Qed.

Lemma collect_all : forall (P : hcell -> Prop) one,
  (forall h nv nv' c, one h nv = IOk nv' c -> P c) ->
  forall hs nv, Forall P (snd (fst (collect one nv hs))).
Proof.
  intros P one H. induction hs as [|h t IH]; intros nv; simpl; [constructor|].
  destruct (one h nv) as [nv' c| |] eqn:E; simpl; try constructor.
  specialize (IH nv'). destruct (collect one nv' t) as [[nv2 cs] r]. simpl in *.
  constructor; [eapply H; exact E|exact IH].
Qed.

Lemma one_clause_pr_free : forall s k check h nv nv' c, one_clause s k check h nv = IOk nv' c -> pr_free c.
Proof.
  intros s k check h nv nv' c H. unfold one_clause in H. destruct (read_lits s h); [|discriminate].
  destruct (check && has_zero l)%bool; inversion H. apply pr_free_clause_cell.
Qed.

Lemma store_term_refs : forall live fr ts X p,
  In p (flat_map term_refs (map (store_term live fr) (combine ts X))) -> In p (flat_map term_refs ts).
Proof.
  intros live fr. induction ts as [|t ts IH]; intros X p H; simpl in *; [contradiction|].
  destruct X as [|x X]; simpl in *; [contradiction|].
  apply in_app_or in H. apply in_or_app. destruct H as [H|H]; [|right; eapply IH; exact H].
  left. destruct x as [orig nrm]. unfold store_term in H.
  destruct (fr || (fst orig <? 0)%Z)%bool; simpl in H; [contradiction|].
  destruct t as [c l|q]; [exact H|]. destruct live; simpl in H; [exact H|contradiction].
Qed.

Lemma store_term_refs_dead : forall fr ts X, flat_map term_refs (map (store_term false fr) (combine ts X)) = [].
Proof.
  intros fr. induction ts as [|t ts IH]; intros X; simpl; [reflexivity|].
  destruct X as [|x X]; simpl; [reflexivity|]. rewrite IH.
  destruct x as [orig nrm]. unfold store_term.
  destruct (fr || (fst orig <? 0)%Z)%bool; simpl; [reflexivity|]. destruct t; reflexivity.
Qed.

Lemma one_constraint_refs : forall live s check h nv nv' c l,
  one_constraint live s check h nv = IOk nv' c -> handle_loc s h = Some l ->
  forall p, In p (cell_refs c) -> In p (cell_refs (hp_get (s_heap s) l)).
Proof.
  intros live s check h nv nv' c l H Hl p Hp. unfold one_constraint in H. rewrite Hl in H.
  destruct (hp_get (s_heap s) l) as [xs|ts o d]; [destruct check; discriminate|].
  destruct (all_pairs (map (term_val (s_heap s)) ts)) as [origs|]; [|discriminate].
  destruct (check && terms_zero (pb_terms (normalize_opb (mkpbc origs o d))))%bool; inversion H; subst c.
  simpl in *. eapply store_term_refs. exact Hp.
Qed.

Lemma one_constraint_dead_pr_free : forall s check h nv nv' c,
  one_constraint false s check h nv = IOk nv' c -> pr_free c.
Proof.
  intros s check h nv nv' c H. unfold one_constraint in H.
  destruct (handle_loc s h) as [l|]; [|discriminate].
  destruct (hp_get (s_heap s) l) as [xs|ts o d]; [destruct check; discriminate|].
  destruct (all_pairs (map (term_val (s_heap s)) ts)) as [origs|]; [|discriminate].
  destruct (check && terms_zero (pb_terms (normalize_opb (mkpbc origs o d))))%bool; inversion H.
  unfold pr_free. simpl. apply store_term_refs_dead.
Qed.

Lemma one_constraint_bounded : forall live s check h nv nv' c,
  wf s -> one_constraint live s check h nv = IOk nv' c -> refs_bounded (List.length (s_heap s)) c.
Proof.
  intros live s check h nv nv' c W H.
  destruct (handle_loc s h) as [l|] eqn:Hl; [|unfold one_constraint in H; rewrite Hl in H; discriminate].
  unfold refs_bounded. apply Forall_forall. intros p Hp.
  pose proof (one_constraint_refs _ _ _ _ _ _ _ _ H Hl p Hp) as Hin.
  pose proof (wf_refs s W l) as Hb. unfold refs_bounded in Hb. rewrite Forall_forall in Hb. apply Hb. exact Hin.
Qed.

Lemma resolve_terms_refs : forall s ts r p,
  resolve_terms s ts = Some r -> In p (flat_map term_refs r) -> In p (s_held s).
Proof.
  intros s. induction ts as [|t ts IH]; intros r p H Hp; simpl in H.
  - inversion H; subst. simpl in Hp. contradiction.
  - destruct t as [c l|h].
    + destruct (resolve_terms s ts) as [r'|]; [|discriminate]. inversion H; subst. simpl in Hp. eapply IH; eauto.
    + destruct (handle_loc s h) as [q|] eqn:Hq; [|discriminate].
      destruct (resolve_terms s ts) as [r'|]; [|discriminate]. inversion H; subst. simpl in Hp.
      destruct Hp as [<-|Hp]; [|eapply IH; eauto]. unfold handle_loc in Hq. eapply nth_error_In. exact Hq.
Qed.

Lemma add_cells_wfok : forall n f x,
  Forall (refs_bounded n) (snd (fst x)) -> Forall (uop_wfok n) (fst (add_cells f x)).
Proof.
  intros n f [[nv cs] r] H. simpl in *. destruct cs; simpl; constructor; [exact H|constructor].
Qed.

Lemma Forall_pr_free_bounded : forall n cs, Forall pr_free cs -> Forall (refs_bounded n) cs.
Proof. intros n cs H. eapply Forall_impl; [|exact H]. intros c Hc. apply pr_free_bounded. exact Hc. Qed.

Lemma transform_wfok : forall n s t o, Forall (uop_wfok n) (fst (transform s t o)).
Proof.
  intros n s t o. unfold transform. destruct t as [|k|k|fl pm cp].
  - destruct (flip_polarity_spec (onumvar o) (obj_cnf s o)) as [nv out]. simpl. constructor; [|constructor].
    simpl. apply Forall_pr_free_bounded. apply Forall_map_all. intros; apply pr_free_lits.
  - destruct (xor_substitution (onumvar o) k (obj_cnf s o)) as [[nv out]|]; simpl; constructor; [|constructor].
    simpl. apply Forall_pr_free_bounded. apply Forall_map_all. intros; apply pr_free_lits.
  - destruct (or_substitution (onumvar o) k (obj_cnf s o)) as [[nv out]|]; simpl; constructor; [|constructor].
    simpl. apply Forall_pr_free_bounded. apply Forall_map_all. intros; apply pr_free_lits.
  - destruct (sharg_of s fl); [|simpl; constructor]. destruct (sharg_of s pm); [|simpl; constructor].
    destruct (sharg_of s cp); [|simpl; constructor].
    destruct (shuffle (onumvar o) (obj_cnf s o) s0 s1 s2); simpl; constructor; [|constructor].
    simpl. apply Forall_pr_free_bounded. apply Forall_map_all. intros; apply pr_free_lits.
Qed.

Lemma compile_wfok : forall lv s op, wf s -> Forall (uop_wfok (List.length (s_heap s))) (fst (compile lv s op)).
Proof.
  intros lv s op W. set (n := List.length (s_heap s)).
  assert (Hcl : forall k check nv hs, Forall (refs_bounded n) (snd (fst (collect (one_clause s k check) nv hs)))).
  { intros. apply collect_all. intros h0 nv0 nv' c Hc. apply pr_free_bounded. eapply one_clause_pr_free. exact Hc. }
  assert (Hco : forall live check nv hs, Forall (refs_bounded n) (snd (fst (collect (one_constraint live s check) nv hs)))).
  { intros. apply collect_all. intros h0 nv0 nv' c Hc. eapply one_constraint_bounded; eauto. }
  destruct op; simpl.
  - (* ONewList *) constructor; [apply pr_free_bounded, pr_free_lits|constructor].
  - (* ONewPb *)
    destruct (resolve_terms s ts) as [r|] eqn:Hr; simpl; constructor; [|constructor].
    simpl. unfold refs_bounded. simpl. apply Forall_forall. intros p Hp.
    pose proof (resolve_terms_refs s ts r p Hr Hp) as Hin.
    pose proof (wf_held s W) as Hh. rewrite Forall_forall in Hh. apply Hh. exact Hin.
  - (* ONewFormula *) constructor; [simpl; constructor|constructor].
  - (* ONewFrom *)
    destruct k.
    + specialize (Hcl KCnf true 0%Z hs). destruct (collect (one_clause s KCnf true) 0 hs) as [[nv cs] r]. simpl in *.
      destruct r; simpl; constructor; [exact Hcl|constructor].
    + specialize (Hco (lv_pair lv) true 0%Z hs). destruct (collect (one_constraint (lv_pair lv) s true) 0 hs) as [[nv cs] r]. simpl in *.
      destruct r; simpl; constructor; [exact Hco|constructor].
  - (* OAddClause *)
    destruct (nth_error (s_objs s) f) as [o|]; simpl; [|constructor]. apply add_cells_wfok.
    exact (Hcl (okind o) check (onumvar o) [h]).
  - (* OAddClausesFrom *)
    destruct (nth_error (s_objs s) f) as [o|]; simpl; [|constructor]. apply add_cells_wfok. apply Hcl.
  - (* OAddLinear *)
    destruct (nth_error (s_objs s) f) as [ob|]; simpl; [|constructor].
    destruct (read_lits s h) as [xs|]; simpl; [|constructor].
    destruct (linear_cells (okind ob) xs o c) as [cs|] eqn:Hl; simpl; [|constructor].
    destruct (check && has_zero xs)%bool; simpl; [constructor|].
    apply Forall_app. split.
    + destruct o; simpl; repeat constructor.
    + constructor; [|constructor]. simpl. apply Forall_pr_free_bounded. eapply linear_cells_pr_free. exact Hl.
  - (* OAddParity *)
    destruct (nth_error (s_objs s) f) as [ob|]; simpl; [|constructor].
    destruct (read_lits s h) as [xs|]; simpl; [|constructor].
    destruct (check && has_zero xs)%bool; simpl; constructor; [|constructor].
    simpl. apply Forall_pr_free_bounded. apply parity_cells_pr_free.
  - (* OAddConstraint *)
    destruct (nth_error (s_objs s) f) as [o|]; simpl; [|constructor].
    destruct (okind o); simpl; [constructor|]. apply add_cells_wfok.
    exact (Hco (lv_pair lv) check (onumvar o) [h]).
  - (* OAddConstraintsFrom *)
    destruct (nth_error (s_objs s) f) as [o|]; simpl; [|constructor].
    destruct (okind o); simpl; [constructor|]. apply add_cells_wfok. apply Hco.
  - (* OGetItem *)
    destruct (nth_error (s_objs s) f) as [o|]; simpl; [|constructor].
    destruct (nth_error (oclauses o) i) as [l|]; simpl; constructor; [|constructor]. simpl. apply (wf_refs s W).
  - (* OIter *)
    destruct (nth_error (s_objs s) f) as [o|] eqn:Hf; simpl; [|constructor].
    destruct (lv_iter lv); simpl.
    + constructor; [|constructor]. simpl. eapply wf_cl; eauto.
    + apply Forall_map_all. intros l. simpl. apply (wf_refs s W).
  - (* OSlice *)
    destruct (nth_error (s_objs s) f) as [o|] eqn:Hf; simpl; [|constructor].
    destruct (lv_iter lv); simpl.
    + constructor; [|constructor]. simpl. apply Forall_forall. intros l Hl. apply sub_list_incl in Hl.
      pose proof (wf_cl s W f o Hf) as Hb. rewrite Forall_forall in Hb. apply Hb. exact Hl.
    + apply Forall_map_all. intros l. simpl. apply (wf_refs s W).
  - (* OHdrSet *)
    destruct (nth_error (s_objs s) f) as [o|]; simpl; constructor; [exact I|constructor].
  - (* OHdrDel *)
    destruct (nth_error (s_objs s) f) as [o|]; simpl; [|constructor].
    destruct (has_key (hdr_at s o) k); simpl; constructor; [exact I|constructor].
  - (* OTransform *)
    destruct (nth_error (s_objs s) f) as [o|]; simpl; [|constructor].
    destruct (okind o); simpl; [|constructor].
    destruct (lits_in_range (onumvar o) (obj_cnf s o)); simpl; [|constructor]. apply transform_wfok.
  - (* OMut *)
    destruct (handle_loc s h) as [l|]; simpl; constructor; [exact I|constructor].
Qed.

Lemma al_step_eq : forall lv s op, al_step lv s op = fold_left ustep (fst (compile lv s op)) s.
Proof. intros. unfold al_step, al_exec. destruct (compile lv s op) as [us r]. reflexivity. Qed.

Lemma step_wf : forall lv s op, wf s -> wf (al_step lv s op).
Proof. intros. rewrite al_step_eq. apply usteps_wf; [assumption|]. apply compile_wfok. assumption. Qed.

Lemma fold_wf : forall lv h s, wf s -> wf (fold_left (al_step lv) h s).
Proof. induction h as [|op h IH]; intros s W; simpl; [exact W|]. apply IH. apply step_wf. exact W. Qed.

Lemma run_wf : forall lv h, wf (al_run lv h).
Proof. intros. unfold al_run. apply fold_wf. apply wf_init. Qed.

(* ------------------------------------------------------------------ *)
(* frame: an operation changes only the object it acts on              *)
(* ------------------------------------------------------------------ *)
Lemma aval_ext : forall s s' g o,
  nth_error (s_objs s) g = Some o -> nth_error (s_objs s') g = Some o ->
  (forall l, In l (oclauses o) -> cell_val (s_heap s') l = cell_val (s_heap s) l) ->
  nth (ohdr o) (s_hdrs s') [] = nth (ohdr o) (s_hdrs s) [] ->
  aval s' g = aval s g.
Proof.
  intros s s' g o H H' Hc Hh. unfold aval. rewrite H, H'. unfold hdr_at. rewrite Hh.
  rewrite (map_ext_in _ _ _ Hc). reflexivity.
Qed.

Lemma cell_val_extend : forall s cs g o l,
  wf s -> nth_error (s_objs s) g = Some o -> In l (oclauses o) ->
  cell_val (s_heap s ++ cs) l = cell_val (s_heap s) l.
Proof.
  intros s cs g o l W Hg Hl. apply cell_val_app_l.
  - pose proof (wf_cl s W g o Hg) as Hb. rewrite Forall_forall in Hb. apply Hb. exact Hl.
  - apply (wf_refs s W).
Qed.

Definition utouches (s : astate) (u : uop) (g : nat) : bool :=
  match u with
  | UAddCells f _ _ | USetHdr f _ => Nat.eqb f g
  | UMut l _ => match nth_error (s_objs s) g with
                | Some o => nat_in l (obj_reach (s_heap s) o)
                | None => false
                end
  | _ => false
  end.

Lemma ustep_frame : forall s u g,
  wf s -> g < List.length (s_objs s) -> utouches s u g = false -> aval (ustep s u) g = aval s g.
Proof.
  intros s u g W Hg Ht.
  destruct (nth_error (s_objs s) g) as [o|] eqn:Ho; [|apply nth_error_None in Ho; lia].
  destruct u as [c|c|f nv cs|k nv cs hd|ls|f hd|l m]; simpl in *.
  - apply (aval_ext _ _ g o Ho); simpl; auto. intros l Hl. exact (cell_val_extend s _ g o l W Ho Hl).
  - apply (aval_ext _ _ g o Ho); simpl; auto. intros l Hl. exact (cell_val_extend s _ g o l W Ho Hl).
  - destruct (nth_error (s_objs s) f) as [of|] eqn:Hf; [|reflexivity].
    apply Nat.eqb_neq in Ht.
    apply (aval_ext _ _ g o Ho); simpl; auto.
    + rewrite nth_error_hp_set_neq by exact Ht. exact Ho.
    + intros l Hl. exact (cell_val_extend s _ g o l W Ho Hl).
  - apply (aval_ext _ _ g o Ho); simpl; auto.
    + apply nth_error_app_l. exact Ho.
    + intros l Hl. exact (cell_val_extend s _ g o l W Ho Hl).
    + apply app_nth1. eapply wf_hd; eauto.
  - apply (aval_ext _ _ g o Ho); simpl; auto.
  - destruct (nth_error (s_objs s) f) as [of|] eqn:Hf; [|reflexivity].
    apply Nat.eqb_neq in Ht.
    apply (aval_ext _ _ g o Ho); simpl; auto.
    apply nth_hp_set_neq. eapply (wf_hdr_inj s W f g); eauto.
  - rewrite Ho in Ht. apply nat_in_false in Ht. unfold obj_reach in Ht.
    apply (aval_ext _ _ g o Ho); simpl; auto.
    intros c Hc. apply cell_val_ext.
    + apply hp_get_set_neq. intros ->. apply Ht. apply in_or_app. left. exact Hc.
    + intros p Hp. unfold lits_at. rewrite hp_get_set_neq; [reflexivity|].
      intros ->. apply Ht. apply in_or_app. right. apply in_flat_map. exists c. split; assumption.
Qed.

Definition ustatic (u : uop) (g : nat) : bool :=
  match u with
  | UAddCells f _ _ | USetHdr f _ => Nat.eqb f g
  | UMut _ _ => true
  | _ => false
  end.

Lemma ustatic_utouches : forall s u g, ustatic u g = false -> utouches s u g = false.
Proof. intros s u g H. destruct u; simpl in *; auto. discriminate. Qed.

Lemma ustep_objs_length : forall s u, List.length (s_objs s) <= List.length (s_objs (ustep s u)).
Proof.
  intros s u. destruct u; simpl; try lia.
  - destruct (nth_error (s_objs s) f); simpl; [rewrite hp_set_length|]; lia.
  - rewrite app_length. simpl. lia.
  - destruct (nth_error (s_objs s) f); simpl; lia.
Qed.

Lemma usteps_frame : forall us s g,
  wf s -> Forall (uop_wfok (List.length (s_heap s))) us -> g < List.length (s_objs s) ->
  Forall (fun u => ustatic u g = false) us -> aval (fold_left ustep us s) g = aval s g.
Proof.
  induction us as [|u us IH]; intros s g W Hok Hg Hst; simpl; [reflexivity|].
  inversion Hok as [|u' us' Hu Hus]; subst. inversion Hst as [|u'' us'' Hsu Hsus]; subst.
  rewrite IH.
  - apply ustep_frame; auto. apply ustatic_utouches. exact Hsu.
  - apply ustep_wf; assumption.
  - eapply Forall_impl; [|exact Hus]. intros u0 H0. eapply uop_wfok_mono; [|exact H0]. apply ustep_heap_length.
  - pose proof (ustep_objs_length s u). lia.
  - exact Hsus.
Qed.

Lemma add_cells_static : forall f g x, Nat.eqb f g = false -> Forall (fun u => ustatic u g = false) (fst (add_cells f x)).
Proof. intros f g [[nv cs] r] H. simpl. destruct cs; simpl; constructor; [exact H|constructor]. Qed.

Lemma transform_static : forall s t o g, Forall (fun u => ustatic u g = false) (fst (transform s t o)).
Proof.
  intros s t o g. unfold transform. destruct t as [|k|k|fl pm cp].
  - destruct (flip_polarity_spec (onumvar o) (obj_cnf s o)). simpl. repeat constructor.
  - destruct (xor_substitution (onumvar o) k (obj_cnf s o)) as [[nv out]|]; simpl; repeat constructor.
  - destruct (or_substitution (onumvar o) k (obj_cnf s o)) as [[nv out]|]; simpl; repeat constructor.
  - destruct (sharg_of s fl); [|simpl; constructor]. destruct (sharg_of s pm); [|simpl; constructor].
    destruct (sharg_of s cp); [|simpl; constructor].
    destruct (shuffle (onumvar o) (obj_cnf s o) s0 s1 s2); simpl; repeat constructor.
Qed.

Lemma compile_static : forall lv s op g,
  is_mut op = false -> touches s op g = false -> Forall (fun u => ustatic u g = false) (fst (compile lv s op)).
Proof.
  intros lv s op g Hm Ht. destruct op; simpl in *; try discriminate.
  - repeat constructor.
  - destruct (resolve_terms s ts); simpl; repeat constructor.
  - repeat constructor.
  - destruct k.
    + destruct (collect (one_clause s KCnf true) 0 hs) as [[nv cs] r]. destruct r; simpl; repeat constructor.
    + destruct (collect (one_constraint (lv_pair lv) s true) 0 hs) as [[nv cs] r]. destruct r; simpl; repeat constructor.
  - destruct (nth_error (s_objs s) f); simpl; [|constructor]. apply add_cells_static. exact Ht.
  - destruct (nth_error (s_objs s) f); simpl; [|constructor]. apply add_cells_static. exact Ht.
  - destruct (nth_error (s_objs s) f) as [ob|]; simpl; [|constructor].
    destruct (read_lits s h) as [xs|]; simpl; [|constructor].
    destruct (linear_cells (okind ob) xs o c); simpl; [|constructor].
    destruct (check && has_zero xs)%bool; simpl; [constructor|].
    apply Forall_app. split; [destruct o; simpl; repeat constructor|]. constructor; [exact Ht|constructor].
  - destruct (nth_error (s_objs s) f) as [ob|]; simpl; [|constructor].
    destruct (read_lits s h) as [xs|]; simpl; [|constructor].
    destruct (check && has_zero xs)%bool; simpl; constructor; [exact Ht|constructor].
  - destruct (nth_error (s_objs s) f) as [o|]; simpl; [|constructor].
    destruct (okind o); simpl; [constructor|]. apply add_cells_static. exact Ht.
  - destruct (nth_error (s_objs s) f) as [o|]; simpl; [|constructor].
    destruct (okind o); simpl; [constructor|]. apply add_cells_static. exact Ht.
  - destruct (nth_error (s_objs s) f) as [o|]; simpl; [|constructor].
    destruct (nth_error (oclauses o) i); simpl; repeat constructor.
  - destruct (nth_error (s_objs s) f) as [o|]; simpl; [|constructor].
    destruct (lv_iter lv); simpl; [repeat constructor|]. apply Forall_map_all. reflexivity.
  - destruct (nth_error (s_objs s) f) as [o|]; simpl; [|constructor].
    destruct (lv_iter lv); simpl; [repeat constructor|]. apply Forall_map_all. reflexivity.
  - destruct (nth_error (s_objs s) f) as [o|]; simpl; constructor; [exact Ht|constructor].
  - destruct (nth_error (s_objs s) f) as [o|]; simpl; [|constructor].
    destruct (has_key (hdr_at s o) k); simpl; constructor; [exact Ht|constructor].
  - destruct (nth_error (s_objs s) f) as [o|]; simpl; [|constructor].
    destruct (okind o); simpl; [|constructor].
    destruct (lits_in_range (onumvar o) (obj_cnf s o)); simpl; [|constructor]. apply transform_static.
Qed.

(* THE FRAME PROPERTY, for one operation in any well-formed state *)
Lemma step_frame : forall lv s op g,
  wf s -> g < List.length (s_objs s) -> touches s op g = false -> aval (al_step lv s op) g = aval s g.
Proof.
  intros lv s op g W Hg Ht. rewrite al_step_eq.
  destruct (is_mut op) eqn:Hm.
  - destruct op; try discriminate. simpl in *.
    destruct (handle_loc s h) as [l|] eqn:Hl; simpl; [|reflexivity].
    apply (ustep_frame s (UMut l m) g W Hg). simpl. exact Ht.
  - apply usteps_frame; auto.
    + apply compile_wfok. exact W.
    + apply compile_static; assumption.
Qed.

Lemma usteps_objs_length : forall us s, List.length (s_objs s) <= List.length (s_objs (fold_left ustep us s)).
Proof.
  induction us as [|u us IH]; intros s; simpl; [lia|]. specialize (IH (ustep s u)). pose proof (ustep_objs_length s u). lia.
Qed.

Lemma step_objs_length : forall lv s op, List.length (s_objs s) <= List.length (s_objs (al_step lv s op)).
Proof. intros. rewrite al_step_eq. apply usteps_objs_length. Qed.

(* a whole suffix that never acts on g *)
Fixpoint untouched (lv : liveness) (s : astate) (h : list aop) (g : nat) : bool :=
  match h with
  | [] => true
  | op :: t => negb (touches s op g) && untouched lv (al_step lv s op) t g
  end.

Lemma suffix_frame : forall lv h s g,
  wf s -> g < List.length (s_objs s) -> untouched lv s h g = true ->
  aval (fold_left (al_step lv) h s) g = aval s g.
Proof.
  intros lv. induction h as [|op h IH]; intros s g W Hg Hu; simpl in *; [reflexivity|].
  apply andb_true_iff in Hu. destruct Hu as [H1 H2]. apply negb_true_iff in H1.
  rewrite IH; auto.
  - apply step_frame; assumption.
  - apply step_wf. exact W.
  - pose proof (step_objs_length lv s op). lia.
Qed.

(* ------------------------------------------------------------------ *)
(* client separation: no list reachable from a formula is held by the client *)
(* ------------------------------------------------------------------ *)
Record sep (lv : liveness) (s : astate) : Prop := mksep {
  sep_held : forall g o l, nth_error (s_objs s) g = Some o -> In l (s_held s) -> ~ In l (oclauses o);
  sep_owned_prfree : forall g o l, nth_error (s_objs s) g = Some o -> In l (oclauses o) -> pr_free (hp_get (s_heap s) l);
  sep_all_prfree : lv_pair lv = true -> forall l, pr_free (hp_get (s_heap s) l)
}.

Lemma sep_init : forall lv, sep lv al_init.
Proof.
  intros lv. constructor; simpl; intros.
  - destruct g; discriminate.
  - destruct g; discriminate.
  - unfold hp_get. destruct l; reflexivity.
Qed.

Definition uop_sepok (lv : liveness) (held : list nat) (u : uop) : Prop :=
  match u with
  | UAllocHeld c | UAllocTmp c => lv_pair lv = true -> pr_free c
  | UAddCells _ _ cs | UNewObj _ _ cs _ => Forall pr_free cs
  | UHold _ => False
  | USetHdr _ _ => True
  | UMut l _ => In l held
  end.

Lemma prfree_extend : forall h cs,
  (forall l, pr_free (hp_get h l)) -> Forall pr_free cs -> forall l, pr_free (hp_get (h ++ cs) l).
Proof.
  intros h cs Hh Hcs l. destruct (Nat.lt_ge_cases l (List.length h)) as [Hlt|Hge].
  - rewrite hp_get_app_l by exact Hlt. apply Hh.
  - rewrite hp_get_app_r by exact Hge.
    destruct (Nat.lt_ge_cases (l - List.length h) (List.length cs)) as [Hl2|Hg2].
    + rewrite Forall_forall in Hcs. apply Hcs. apply nth_In. exact Hl2.
    + rewrite nth_overflow by exact Hg2. reflexivity.
Qed.

Lemma hp_get_fresh : forall h cs l, In l (seq (List.length h) (List.length cs)) -> In (hp_get (h ++ cs) l) cs.
Proof.
  intros h cs l Hl. apply in_seq in Hl. rewrite hp_get_app_r by lia. apply nth_In. lia.
Qed.

(* the parts of sep that only talk about one object list / the heap, after fresh cells were appended *)
Lemma sep_extend : forall lv s cs,
  wf s -> sep lv s -> (lv_pair lv = true -> Forall pr_free cs) ->
  sep lv (mkst (s_heap s ++ cs) (s_hdrs s) (s_objs s) (s_held s)).
Proof.
  intros lv s cs W [Sh So Sa] Hcs. constructor; simpl.
  - exact Sh.
  - intros g o l Hg Hl. rewrite hp_get_app_l; [eapply So; eauto|].
    pose proof (wf_cl s W g o Hg) as Hb. rewrite Forall_forall in Hb. apply Hb. exact Hl.
  - intros Hp. apply prfree_extend; auto.
Qed.

Lemma ustep_sep : forall lv s u, wf s -> sep lv s -> uop_sepok lv (s_held s) u -> sep lv (ustep s u).
Proof.
  intros lv s u W S Hok. destruct u as [c|c|f nv cs|k nv cs hd|ls|f hd|l m]; simpl in *.
  - (* UAllocHeld *)
    assert (S1 : sep lv (mkst (s_heap s ++ [c]) (s_hdrs s) (s_objs s) (s_held s))).
    { apply sep_extend; [exact W|exact S|]. intros Hp. constructor; [auto|constructor]. }
    destruct S1 as [Sh So Sa]. constructor; simpl in *; auto.
    intros g o l Hg Hl. apply in_app_or in Hl. destruct Hl as [Hl|[<-|[]]]; [eapply Sh; eauto|].
    intro Hin. pose proof (wf_cl s W g o Hg) as Hb. rewrite Forall_forall in Hb. specialize (Hb _ Hin). lia.
  - (* UAllocTmp *)
    apply sep_extend; [exact W|exact S|]. intros Hp. constructor; [auto|constructor].
  - (* UAddCells *)
    destruct (nth_error (s_objs s) f) as [of|] eqn:Hf; [|exact S].
    assert (S1 : sep lv (mkst (s_heap s ++ cs) (s_hdrs s) (s_objs s) (s_held s))).
    { apply sep_extend; auto. }
    destruct S1 as [Sh So Sa]. constructor; simpl in *; auto.
    + intros g o l Hg Hl. apply nth_error_hp_set_some in Hg. destruct Hg as [[-> [-> _]]|[Hne Hg]]; simpl.
      * intro Hin. apply in_app_or in Hin. destruct Hin as [Hin|Hin]; [eapply Sh; eauto|].
        apply in_seq in Hin. pose proof (wf_held s W) as Hb. rewrite Forall_forall in Hb. specialize (Hb _ Hl). lia.
      * eapply Sh; eauto.
    + intros g o l Hg Hl. apply nth_error_hp_set_some in Hg. destruct Hg as [[-> [-> _]]|[Hne Hg]]; simpl in *.
      * apply in_app_or in Hl. destruct Hl as [Hl|Hl]; [eapply So; eauto|].
        rewrite Forall_forall in Hok. apply Hok. apply hp_get_fresh. exact Hl.
      * eapply So; eauto.
  - (* UNewObj *)
    assert (S1 : sep lv (mkst (s_heap s ++ cs) (s_hdrs s) (s_objs s) (s_held s))).
    { apply sep_extend; auto. }
    destruct S1 as [Sh So Sa]. constructor; simpl in *; auto.
    + intros g o l Hg Hl. apply nth_error_snoc_some in Hg. destruct Hg as [Hg|[_ ->]]; simpl; [eapply Sh; eauto|].
      intro Hin. apply in_seq in Hin. pose proof (wf_held s W) as Hb. rewrite Forall_forall in Hb. specialize (Hb _ Hl). lia.
    + intros g o l Hg Hl. apply nth_error_snoc_some in Hg. destruct Hg as [Hg|[_ ->]]; simpl in *; [eapply So; eauto|].
      rewrite Forall_forall in Hok. apply Hok. apply hp_get_fresh. exact Hl.
  - contradiction.
  - (* USetHdr *)
    destruct (nth_error (s_objs s) f); [|exact S]. destruct S as [Sh So Sa]. constructor; simpl; auto.
  - (* UMut *)
    destruct S as [Sh So Sa]. constructor; simpl; auto.
    + intros g o c Hg Hc. rewrite hp_get_set_neq; [eapply So; eauto|].
      intros ->. eapply Sh; eauto.
    + intros Hp l'. destruct (Nat.eq_dec l l') as [<-|Hne].
      * destruct (Nat.lt_ge_cases l (List.length (s_heap s))) as [Hlt|Hge].
        -- unfold hp_get at 1. rewrite (nth_error_nth _ _ _ (nth_error_hp_set_eq _ _ _ _ Hlt)).
           unfold pr_free. destruct (cell_refs (mutate m (hp_get (s_heap s) l))) as [|p ps] eqn:E; [reflexivity|].
           assert (Hin : In p (cell_refs (hp_get (s_heap s) l))).
           { apply (cell_refs_mutate m). rewrite E. left. reflexivity. }
           rewrite (Sa Hp l) in Hin. contradiction.
        -- rewrite hp_get_default by (rewrite hp_set_length; exact Hge). reflexivity.
      * rewrite hp_get_set_neq by exact Hne. apply Sa. exact Hp.
Qed.

Lemma uop_sepok_mono : forall lv held held' u, incl held held' -> uop_sepok lv held u -> uop_sepok lv held' u.
Proof. intros lv held held' u Hi H. destruct u; simpl in *; auto. Qed.

Lemma ustep_held_incl : forall s u, incl (s_held s) (s_held (ustep s u)).
Proof.
  intros s u. destruct u; simpl; try apply incl_refl; try (apply incl_appl; apply incl_refl).
  - destruct (nth_error (s_objs s) f); apply incl_refl.
  - destruct (nth_error (s_objs s) f); apply incl_refl.
Qed.

Lemma usteps_sep : forall lv us s,
  wf s -> sep lv s -> Forall (uop_wfok (List.length (s_heap s))) us -> Forall (uop_sepok lv (s_held s)) us ->
  sep lv (fold_left ustep us s).
Proof.
  intros lv. induction us as [|u us IH]; intros s W S Hw Hs; simpl; [exact S|].
  inversion Hw as [|u' us' Hu Hus]; subst. inversion Hs as [|u'' us'' Hsu Hsus]; subst.
  apply IH.
  - apply ustep_wf; assumption.
  - apply ustep_sep; assumption.
  - eapply Forall_impl; [|exact Hus]. intros u0 H0. eapply uop_wfok_mono; [|exact H0]. apply ustep_heap_length.
  - eapply Forall_impl; [|exact Hsus]. intros u0 H0. eapply uop_sepok_mono; [|exact H0]. apply ustep_held_incl.
Qed.

Lemma resolve_terms_norefs : forall s ts r,
  existsb spec_has_ref ts = false -> resolve_terms s ts = Some r -> flat_map term_refs r = [].
Proof.
  intros s. induction ts as [|t ts IH]; intros r He H; simpl in *.
  - inversion H. reflexivity.
  - apply orb_false_iff in He. destruct He as [He1 He2]. destruct t as [c l|h]; simpl in He1; [|discriminate].
    destruct (resolve_terms s ts) as [r'|]; [|discriminate]. inversion H; subst. simpl. apply IH; auto.
Qed.

Lemma one_constraint_pr_free : forall lv s check h nv nv' c,
  sep lv s -> one_constraint (lv_pair lv) s check h nv = IOk nv' c -> pr_free c.
Proof.
  intros lv s check h nv nv' c S H. destruct (lv_pair lv) eqn:Hp.
  - destruct (handle_loc s h) as [l|] eqn:Hl; [|unfold one_constraint in H; rewrite Hl in H; discriminate].
    unfold pr_free. destruct (cell_refs c) as [|p ps] eqn:E; [reflexivity|].
    assert (Hin : In p (cell_refs (hp_get (s_heap s) l))).
    { eapply one_constraint_refs; eauto. rewrite E. left. reflexivity. }
    rewrite (sep_all_prfree lv s S Hp l) in Hin. contradiction.
  - eapply one_constraint_dead_pr_free. exact H.
Qed.

Lemma add_cells_sepok : forall lv held f x,
  Forall pr_free (snd (fst x)) -> Forall (uop_sepok lv held) (fst (add_cells f x)).
Proof. intros lv held f [[nv cs] r] H. simpl in *. destruct cs; simpl; constructor; [exact H|constructor]. Qed.

Lemma transform_sepok : forall lv held s t o, Forall (uop_sepok lv held) (fst (transform s t o)).
Proof.
  intros lv held s t o. unfold transform. destruct t as [|k|k|fl pm cp].
  - destruct (flip_polarity_spec (onumvar o) (obj_cnf s o)) as [nv out]. simpl. constructor; [|constructor].
    simpl. apply Forall_map_all. intros; apply pr_free_lits.
  - destruct (xor_substitution (onumvar o) k (obj_cnf s o)) as [[nv out]|]; simpl; constructor; [|constructor].
    simpl. apply Forall_map_all. intros; apply pr_free_lits.
  - destruct (or_substitution (onumvar o) k (obj_cnf s o)) as [[nv out]|]; simpl; constructor; [|constructor].
    simpl. apply Forall_map_all. intros; apply pr_free_lits.
  - destruct (sharg_of s fl); [|simpl; constructor]. destruct (sharg_of s pm); [|simpl; constructor].
    destruct (sharg_of s cp); [|simpl; constructor].
    destruct (shuffle (onumvar o) (obj_cnf s o) s0 s1 s2); simpl; constructor; [|constructor].
    simpl. apply Forall_map_all. intros; apply pr_free_lits.
Qed.

Lemma compile_sepok : forall lv s op,
  wf s -> sep lv s -> op_tame lv op = true -> Forall (uop_sepok lv (s_held s)) (fst (compile lv s op)).
Proof.
  intros lv s op W S Ht.
  assert (Hcl : forall k check nv hs, Forall pr_free (snd (fst (collect (one_clause s k check) nv hs)))).
  { intros. apply collect_all. intros h0 nv0 nv' c Hc. eapply one_clause_pr_free. exact Hc. }
  assert (Hco : forall check nv hs, Forall pr_free (snd (fst (collect (one_constraint (lv_pair lv) s check) nv hs)))).
  { intros. apply collect_all. intros h0 nv0 nv' c Hc. eapply one_constraint_pr_free; eauto. }
  assert (Hcopy : forall f o l, nth_error (s_objs s) f = Some o -> In l (oclauses o) ->
                   pr_free (hp_get (s_heap s) l)).
  { intros f o l Hf Hl. eapply sep_owned_prfree; eauto. }
  destruct op; simpl in *.
  - repeat constructor.
  - destruct (resolve_terms s ts) as [r|] eqn:Hr; simpl; constructor; [|constructor].
    simpl. intros Hp. rewrite Hp in Ht. simpl in Ht. apply negb_true_iff in Ht.
    unfold pr_free. simpl. eapply resolve_terms_norefs; eauto.
  - constructor; [simpl; constructor|constructor].
  - destruct k.
    + specialize (Hcl KCnf true 0%Z hs). destruct (collect (one_clause s KCnf true) 0 hs) as [[nv cs] r]. simpl in *.
      destruct r; simpl; constructor; [exact Hcl|constructor].
    + specialize (Hco true 0%Z hs). destruct (collect (one_constraint (lv_pair lv) s true) 0 hs) as [[nv cs] r]. simpl in *.
      destruct r; simpl; constructor; [exact Hco|constructor].
  - destruct (nth_error (s_objs s) f) as [o|]; simpl; [|constructor]. apply add_cells_sepok.
    exact (Hcl (okind o) check (onumvar o) [h]).
  - destruct (nth_error (s_objs s) f) as [o|]; simpl; [|constructor]. apply add_cells_sepok. apply Hcl.
  - destruct (nth_error (s_objs s) f) as [ob|]; simpl; [|constructor].
    destruct (read_lits s h) as [xs|]; simpl; [|constructor].
    destruct (linear_cells (okind ob) xs o c) as [cs|] eqn:Hl; simpl; [|constructor].
    destruct (check && has_zero xs)%bool; simpl; [constructor|].
    apply Forall_app. split.
    + destruct o; simpl; repeat constructor.
    + constructor; [|constructor]. simpl. eapply linear_cells_pr_free. exact Hl.
  - destruct (nth_error (s_objs s) f) as [ob|]; simpl; [|constructor].
    destruct (read_lits s h) as [xs|]; simpl; [|constructor].
    destruct (check && has_zero xs)%bool; simpl; constructor; [|constructor].
    simpl. apply parity_cells_pr_free.
  - destruct (nth_error (s_objs s) f) as [o|]; simpl; [|constructor].
    destruct (okind o); simpl; [constructor|]. apply add_cells_sepok.
    exact (Hco check (onumvar o) [h]).
  - destruct (nth_error (s_objs s) f) as [o|]; simpl; [|constructor].
    destruct (okind o); simpl; [constructor|]. apply add_cells_sepok. apply Hco.
  - destruct (nth_error (s_objs s) f) as [o|] eqn:Hf; simpl; [|constructor].
    destruct (nth_error (oclauses o) i) as [l|] eqn:Hi; simpl; constructor; [|constructor].
    simpl. intros _. eapply Hcopy; eauto. eapply nth_error_In. exact Hi.
  - destruct (nth_error (s_objs s) f) as [o|] eqn:Hf; simpl; [|constructor].
    apply negb_true_iff in Ht. rewrite Ht. simpl.
    apply Forall_forall. intros u Hu. apply in_map_iff in Hu. destruct Hu as [l [<- Hl]]. simpl. intros _. eapply Hcopy; eauto.
  - destruct (nth_error (s_objs s) f) as [o|] eqn:Hf; simpl; [|constructor].
    apply negb_true_iff in Ht. rewrite Ht. simpl.
    apply Forall_forall. intros u Hu. apply in_map_iff in Hu. destruct Hu as [l [<- Hl]].
    simpl. intros _. eapply Hcopy; eauto. eapply sub_list_incl. exact Hl.
  - destruct (nth_error (s_objs s) f) as [o|]; simpl; constructor; [exact I|constructor].
  - destruct (nth_error (s_objs s) f) as [o|]; simpl; [|constructor].
    destruct (has_key (hdr_at s o) k); simpl; constructor; [exact I|constructor].
  - destruct (nth_error (s_objs s) f) as [o|]; simpl; [|constructor].
    destruct (okind o); simpl; [|constructor].
    destruct (lits_in_range (onumvar o) (obj_cnf s o)); simpl; [|constructor]. apply transform_sepok.
  - destruct (handle_loc s h) as [l|] eqn:Hl; simpl; constructor; [|constructor].
    simpl. unfold handle_loc in Hl. eapply nth_error_In. exact Hl.
Qed.

Lemma step_sep : forall lv s op, wf s -> sep lv s -> op_tame lv op = true -> sep lv (al_step lv s op).
Proof.
  intros. rewrite al_step_eq. apply usteps_sep; auto.
  - apply compile_wfok. assumption.
  - apply compile_sepok; assumption.
Qed.

Lemma fold_sep : forall lv h s, wf s -> sep lv s -> forallb (op_tame lv) h = true -> sep lv (fold_left (al_step lv) h s).
Proof.
  intros lv. induction h as [|op h IH]; intros s W S Ht; simpl in *; [exact S|].
  apply andb_true_iff in Ht. destruct Ht as [H1 H2]. apply IH; auto.
  - apply step_wf. exact W.
  - apply step_sep; assumption.
Qed.

Lemma run_sep : forall lv h, forallb (op_tame lv) h = true -> sep lv (al_run lv h).
Proof. intros. unfold al_run. apply fold_sep; auto. apply wf_init. apply sep_init. Qed.

Lemma tame_repaired : forall h, forallb (op_tame repaired) h = true.
Proof. induction h as [|op h IH]; simpl; [reflexivity|]. rewrite IH. destruct op; reflexivity. Qed.

(* a held list is reachable from no object *)
Lemma sep_not_reach : forall lv s g o l,
  sep lv s -> nth_error (s_objs s) g = Some o -> In l (s_held s) -> ~ In l (obj_reach (s_heap s) o).
Proof.
  intros lv s g o l S Hg Hl Hin. unfold obj_reach in Hin. apply in_app_or in Hin. destruct Hin as [Hin|Hin].
  - eapply sep_held; eauto.
  - apply in_flat_map in Hin. destruct Hin as [c [Hc Hp]].
    rewrite (sep_owned_prfree lv s S g o c Hg Hc) in Hp. contradiction.
Qed.

Lemma mut_objs : forall lv s h m, s_objs (al_step lv s (OMut h m)) = s_objs s /\ s_hdrs (al_step lv s (OMut h m)) = s_hdrs s.
Proof. intros. rewrite al_step_eq. simpl. destruct (handle_loc s h); simpl; auto. Qed.

Lemma mutation_invisible : forall lv s h m g,
  wf s -> sep lv s -> aval (al_step lv s (OMut h m)) g = aval s g.
Proof.
  intros lv s h m g W S. destruct (Nat.lt_ge_cases g (List.length (s_objs s))) as [Hlt|Hge].
  - apply step_frame; auto. simpl.
    destruct (handle_loc s h) as [l|] eqn:Hl; [|reflexivity].
    destruct (nth_error (s_objs s) g) as [o|] eqn:Hg; [|reflexivity].
    apply nat_in_false. eapply sep_not_reach; eauto. unfold handle_loc in Hl. eapply nth_error_In. exact Hl.
  - unfold aval. destruct (mut_objs lv s h m) as [Ho _]. rewrite Ho.
    assert (Hn : nth_error (s_objs s) g = None) by (apply nth_error_None; exact Hge). rewrite Hn. reflexivity.
Qed.

(* ------------------------------------------------------------------ *)
(* only client mutations write into existing lists; only header edits write into existing headers *)
(* ------------------------------------------------------------------ *)
Definition is_umut (u : uop) : bool := match u with UMut _ _ => true | _ => false end.
Definition is_usethdr (u : uop) : bool := match u with USetHdr _ _ => true | _ => false end.

Lemma ustep_heap_prefix : forall s u, is_umut u = false -> exists extra, s_heap (ustep s u) = s_heap s ++ extra.
Proof.
  intros s u H. destruct u; simpl in *; try discriminate.
  - exists [c]. reflexivity.
  - exists [c]. reflexivity.
  - destruct (nth_error (s_objs s) f); simpl; [exists cs; reflexivity|exists []; rewrite app_nil_r; reflexivity].
  - exists cs. reflexivity.
  - exists []. rewrite app_nil_r. reflexivity.
  - destruct (nth_error (s_objs s) f); simpl; exists []; rewrite app_nil_r; reflexivity.
Qed.

Lemma usteps_heap_prefix : forall us s, Forall (fun u => is_umut u = false) us ->
  exists extra, s_heap (fold_left ustep us s) = s_heap s ++ extra.
Proof.
  induction us as [|u us IH]; intros s H; simpl.
  - exists []. rewrite app_nil_r. reflexivity.
  - inversion H as [|u' us' Hu Hus]; subst.
    destruct (ustep_heap_prefix s u Hu) as [e1 E1]. destruct (IH (ustep s u) Hus) as [e2 E2].
    exists (e1 ++ e2). rewrite E2, E1. rewrite app_assoc. reflexivity.
Qed.

Lemma ustep_hdrs_prefix : forall s u, is_usethdr u = false -> exists extra, s_hdrs (ustep s u) = s_hdrs s ++ extra.
Proof.
  intros s u H. destruct u; simpl in *; try discriminate;
    try (exists []; rewrite app_nil_r; reflexivity).
  - destruct (nth_error (s_objs s) f); simpl; exists []; rewrite app_nil_r; reflexivity.
  - exists [hd]. reflexivity.
Qed.

Lemma usteps_hdrs_prefix : forall us s, Forall (fun u => is_usethdr u = false) us ->
  exists extra, s_hdrs (fold_left ustep us s) = s_hdrs s ++ extra.
Proof.
  induction us as [|u us IH]; intros s H; simpl.
  - exists []. rewrite app_nil_r. reflexivity.
  - inversion H as [|u' us' Hu Hus]; subst.
    destruct (ustep_hdrs_prefix s u Hu) as [e1 E1]. destruct (IH (ustep s u) Hus) as [e2 E2].
    exists (e1 ++ e2). rewrite E2, E1. rewrite app_assoc. reflexivity.
Qed.

Lemma ustep_held_prefix : forall s u, exists extra, s_held (ustep s u) = s_held s ++ extra.
Proof.
  intros s u. destruct u; simpl; try (exists []; rewrite app_nil_r; reflexivity).
  - eexists. reflexivity.
  - destruct (nth_error (s_objs s) f); simpl; exists []; rewrite app_nil_r; reflexivity.
  - eexists. reflexivity.
  - destruct (nth_error (s_objs s) f); simpl; exists []; rewrite app_nil_r; reflexivity.
Qed.

Lemma usteps_held_prefix : forall us s, exists extra, s_held (fold_left ustep us s) = s_held s ++ extra.
Proof.
  induction us as [|u us IH]; intros s; simpl.
  - exists []. rewrite app_nil_r. reflexivity.
  - destruct (ustep_held_prefix s u) as [e1 E1]. destruct (IH (ustep s u)) as [e2 E2].
    exists (e1 ++ e2). rewrite E2, E1. rewrite app_assoc. reflexivity.
Qed.

Ltac compile_cases :=
  repeat match goal with
         | |- context [match ?x with _ => _ end] => destruct x eqn:?; simpl
         end.

Lemma compile_nomut : forall lv s op, is_mut op = false -> Forall (fun u => is_umut u = false) (fst (compile lv s op)).
Proof.
  intros lv s op H.
  destruct op; simpl in *; try discriminate; unfold add_cells, transform, neq_tmp;
    compile_cases; repeat (apply Forall_app; split); repeat constructor; try (apply Forall_map_all; reflexivity).
Qed.

Lemma compile_nosethdr : forall lv s op, is_hdr_edit op = false -> Forall (fun u => is_usethdr u = false) (fst (compile lv s op)).
Proof.
  intros lv s op H.
  destruct op; simpl in *; try discriminate; unfold add_cells, transform, neq_tmp;
    compile_cases; repeat (apply Forall_app; split); repeat constructor; try (apply Forall_map_all; reflexivity).
Qed.

Lemma step_heap_prefix : forall lv s op, is_mut op = false -> exists extra, s_heap (al_step lv s op) = s_heap s ++ extra.
Proof. intros. rewrite al_step_eq. apply usteps_heap_prefix. apply compile_nomut. assumption. Qed.

Lemma step_hdrs_prefix : forall lv s op, is_hdr_edit op = false -> exists extra, s_hdrs (al_step lv s op) = s_hdrs s ++ extra.
Proof. intros. rewrite al_step_eq. apply usteps_hdrs_prefix. apply compile_nosethdr. assumption. Qed.

Lemma step_held_prefix : forall lv s op, exists extra, s_held (al_step lv s op) = s_held s ++ extra.
Proof. intros. rewrite al_step_eq. apply usteps_held_prefix. Qed.

(* the observable content of every list the client holds is the same after any operation that is not a client mutation *)
Lemma step_arguments_unchanged : forall lv s op h l,
  wf s -> is_mut op = false -> handle_loc s h = Some l ->
  handle_loc (al_step lv s op) h = Some l /\ cell_val (s_heap (al_step lv s op)) l = cell_val (s_heap s) l.
Proof.
  intros lv s op h l W Hm Hl. split.
  - destruct (step_held_prefix lv s op) as [e E]. unfold handle_loc in *. rewrite E. apply nth_error_app_l. exact Hl.
  - destruct (step_heap_prefix lv s op Hm) as [e E]. rewrite E. apply cell_val_app_l.
    + pose proof (wf_held s W) as Hb. rewrite Forall_forall in Hb. apply Hb. unfold handle_loc in Hl. eapply nth_error_In. exact Hl.
    + apply (wf_refs s W).
Qed.

(* ------------------------------------------------------------------ *)
(* error paths                                                          *)
(* ------------------------------------------------------------------ *)
Lemma collect_err_prefix : forall one hs nv nv' cs,
  collect one nv hs = ((nv', cs), AErr) ->
  exists n, n < List.length hs /\ collect one nv (firstn n hs) = ((nv', cs), AOk).
Proof.
  intros one. induction hs as [|h t IH]; intros nv nv' cs H; simpl in H; [discriminate|].
  destruct (one h nv) as [nv1 c| |] eqn:E.
  - destruct (collect one nv1 t) as [[nv2 cs2] r] eqn:E2. inversion H; subst.
    destruct (IH nv1 nv' cs2 E2) as [n [Hn Hc]]. exists (S n). split; [simpl; lia|].
    simpl. rewrite E, Hc. reflexivity.
  - inversion H; subst. exists 0. split; [simpl; lia|reflexivity].
  - discriminate.
Qed.

(* add_clauses_from that raises = add_clauses_from of the clauses before the rejected one *)
Lemma clauses_from_error : forall lv s f hs check s',
  al_exec lv s (OAddClausesFrom f hs check) = (s', AErr) ->
  exists n, n < List.length hs /\ al_exec lv s (OAddClausesFrom f (firstn n hs) check) = (s', AOk).
Proof.
  intros lv s f hs check s' H. unfold al_exec in *. simpl in *.
  destruct (nth_error (s_objs s) f) as [o|]; [|simpl in H; inversion H].
  destruct (collect (one_clause s (okind o) check) (onumvar o) hs) as [[nv cs] r] eqn:E.
  assert (r = AErr) by (simpl in H; destruct cs; inversion H; reflexivity). subst r.
  destruct (collect_err_prefix _ _ _ _ _ E) as [n [Hn Hc]]. exists n. split; [exact Hn|].
  rewrite Hc. simpl in *. destruct cs; inversion H; reflexivity.
Qed.

Lemma constraints_from_error : forall lv s f hs check s',
  al_exec lv s (OAddConstraintsFrom f hs check) = (s', AErr) ->
  exists n, n < List.length hs /\ al_exec lv s (OAddConstraintsFrom f (firstn n hs) check) = (s', AOk).
Proof.
  intros lv s f hs check s' H. unfold al_exec in *. simpl in *.
  destruct (nth_error (s_objs s) f) as [o|]; [|simpl in H; inversion H].
  destruct (okind o); [simpl in H; inversion H|].
  destruct (collect (one_constraint (lv_pair lv) s check) (onumvar o) hs) as [[nv cs] r] eqn:E.
  assert (r = AErr) by (simpl in H; destruct cs; inversion H; reflexivity). subst r.
  destruct (collect_err_prefix _ _ _ _ _ E) as [n [Hn Hc]]. exists n. split; [exact Hn|].
  rewrite Hc. simpl in *. destruct cs; inversion H; reflexivity.
Qed.

(* every other call that raises leaves the whole state as it was *)
Definition single_call (op : aop) : bool :=
  match op with OAddClausesFrom _ _ _ | OAddConstraintsFrom _ _ _ => false | _ => true end.

Lemma collect_single_err : forall one nv h nv' cs, collect one nv [h] = ((nv', cs), AErr) -> cs = [].
Proof.
  intros one nv h nv' cs H. simpl in H. destruct (one h nv); inversion H; reflexivity.
Qed.

Ltac hyp_cases H :=
  repeat match type of H with
         | context [match ?x with _ => _ end] =>
             lazymatch x with
             | context [match _ with _ => _ end] => fail
             | _ => destruct x eqn:?; simpl in H
             end
         end.

Lemma error_atomic : forall lv s op s', single_call op = true -> al_exec lv s op = (s', AErr) -> s' = s.
Proof.
  intros lv s op s' Hs H. unfold al_exec in H.
  destruct op; try discriminate Hs.
  all: simpl in H; unfold transform, neq_tmp, add_cells in H; hyp_cases H; try congruence; inversion H; reflexivity.
Qed.

(* ------------------------------------------------------------------ *)
(* a transformation that returns makes exactly one new object             *)
(* ------------------------------------------------------------------ *)
Lemma transform_ok_new : forall s t o us, transform s t o = (us, AOk) -> exists k nv cs hd, us = [UNewObj k nv cs hd].
Proof.
  intros s t o us H. unfold transform in H. destruct t.
  - destruct (flip_polarity_spec (onumvar o) (obj_cnf s o)). inversion H. eauto.
  - destruct (xor_substitution (onumvar o) k (obj_cnf s o)) as [[nv out]|]; inversion H. eauto.
  - destruct (or_substitution (onumvar o) k (obj_cnf s o)) as [[nv out]|]; inversion H. eauto.
  - destruct (sharg_of s fl); [|inversion H]. destruct (sharg_of s pm); [|inversion H].
    destruct (sharg_of s cp); [|inversion H].
    destruct (shuffle (onumvar o) (obj_cnf s o) s0 s1 s2); inversion H. eauto.
Qed.

Lemma transform_new_object : forall lv s t f s',
  al_exec lv s (OTransform t f) = (s', AOk) ->
  List.length (s_objs s') = S (List.length (s_objs s)) /\ s_held s' = s_held s.
Proof.
  intros lv s t f s' H. unfold al_exec in H. simpl in H.
  destruct (nth_error (s_objs s) f) as [o|]; [|inversion H].
  destruct (okind o); [|inversion H].
  destruct (lits_in_range (onumvar o) (obj_cnf s o)); [|inversion H].
  destruct (transform s t o) as [us r] eqn:E. inversion H; subst.
  destruct (transform_ok_new _ _ _ _ E) as [k [nv [cs [hd ->]]]]. simpl.
  rewrite app_length. simpl. split; [lia|reflexivity].
Qed.

(* ------------------------------------------------------------------ *)
(* statements over all histories (used by Prop_C19_alias.v)              *)
(* ------------------------------------------------------------------ *)
Lemma run_objects_separate : forall lv h,
  let s := al_run lv h in
  (forall g1 g2 o1 o2 l, g1 <> g2 -> nth_error (s_objs s) g1 = Some o1 -> nth_error (s_objs s) g2 = Some o2 ->
                         In l (oclauses o1) -> ~ In l (oclauses o2)) /\
  (forall g o, nth_error (s_objs s) g = Some o -> NoDup (oclauses o)) /\
  (forall g1 g2 o1 o2, g1 <> g2 -> nth_error (s_objs s) g1 = Some o1 -> nth_error (s_objs s) g2 = Some o2 ->
                       ohdr o1 <> ohdr o2).
Proof.
  intros lv h s. pose proof (run_wf lv h) as W. fold s in W. repeat split.
  - apply (wf_disj s W).
  - apply (wf_nodup s W).
  - apply (wf_hdr_inj s W).
Qed.

Lemma run_client_separated : forall lv h,
  forallb (op_tame lv) h = true ->
  let s := al_run lv h in
  forall g o l, nth_error (s_objs s) g = Some o -> In l (s_held s) -> ~ In l (obj_reach (s_heap s) o).
Proof. intros lv h Ht s g o l Hg Hl. eapply sep_not_reach; eauto. apply run_sep. exact Ht. Qed.

Lemma run_client_separated_repaired : forall h,
  let s := al_run repaired h in
  forall g o l, nth_error (s_objs s) g = Some o -> In l (s_held s) -> ~ In l (obj_reach (s_heap s) o).
Proof. intros h. apply run_client_separated. apply tame_repaired. Qed.

Lemma run_frame : forall lv h op g,
  let s := al_run lv h in
  g < List.length (s_objs s) -> touches s op g = false -> aval (al_step lv s op) g = aval s g.
Proof. intros lv h op g s Hg Ht. apply step_frame; auto. apply run_wf. Qed.

Lemma run_mutation_invisible : forall lv h hnd m g,
  forallb (op_tame lv) h = true ->
  aval (al_step lv (al_run lv h) (OMut hnd m)) g = aval (al_run lv h) g.
Proof. intros lv h hnd m g Ht. apply mutation_invisible; [apply run_wf|apply run_sep; exact Ht]. Qed.

Lemma run_mutation_invisible_repaired : forall h hnd m g,
  aval (al_step repaired (al_run repaired h) (OMut hnd m)) g = aval (al_run repaired h) g.
Proof. intros. apply run_mutation_invisible. apply tame_repaired. Qed.

Lemma run_transformation_pure : forall lv h t f g,
  let s := al_run lv h in
  g < List.length (s_objs s) -> aval (al_step lv s (OTransform t f)) g = aval s g.
Proof. intros lv h t f g s Hg. apply run_frame; auto. Qed.

Lemma run_suffix_frame : forall lv h h2 g,
  let s := al_run lv h in
  g < List.length (s_objs s) -> untouched lv s h2 g = true ->
  aval (al_run lv (h ++ h2)) g = aval s g.
Proof.
  intros lv h h2 g s Hg Hu. unfold al_run. rewrite fold_left_app. apply suffix_frame; auto. apply run_wf.
Qed.

Lemma run_arguments_unchanged : forall lv h op hnd l,
  let s := al_run lv h in
  is_mut op = false -> handle_loc s hnd = Some l ->
  handle_loc (al_step lv s op) hnd = Some l /\ cell_val (s_heap (al_step lv s op)) l = cell_val (s_heap s) l.
Proof. intros lv h op hnd l s Hm Hl. apply step_arguments_unchanged; auto. apply run_wf. Qed.

(* ---- the code as found: witnesses ---- *)
Definition wit_iter : list aop :=
  [ONewFormula KCnf []; ONewList [1; 2]%Z; OAddClause 0 0 true; OIter 0].
Definition wit_slice : list aop :=
  [ONewFormula KCnf []; ONewList [1; 2]%Z; OAddClause 0 0 true; OSlice 0 0 1].
Definition wit_pair : list aop :=
  [ONewFormula KOpb []; ONewFormula KOpb []; ONewList [1; 2]%Z; ONewPb [TsRef 0] PGe 1%Z;
   OAddConstraint 0 1 true; OAddConstraint 1 1 true].

Lemma as_found_client_holds_internal_list :
  exists h g o l, nth_error (s_objs (al_run as_found h)) g = Some o /\ In l (s_held (al_run as_found h)) /\
                  In l (obj_reach (s_heap (al_run as_found h)) o).
Proof. exists wit_iter, 0, (mkobj KCnf 2%Z [1] 0), 1. vm_compute. repeat split; auto. Qed.

Lemma as_found_iteration_mutation_visible :
  exists h hnd m g, aval (al_step as_found (al_run as_found h) (OMut hnd m)) g <> aval (al_run as_found h) g.
Proof. exists wit_iter, 1, (MAppend 7%Z), 0. vm_compute. intro H. discriminate H. Qed.

Lemma as_found_slice_mutation_visible :
  exists h hnd m g, aval (al_step as_found (al_run as_found h) (OMut hnd m)) g <> aval (al_run as_found h) g.
Proof. exists wit_slice, 1, (MSet 0 (-2)%Z), 0. vm_compute. intro H. discriminate H. Qed.

(* a two-element list passed as a pair: the client still holds it, and ONE edit changes TWO formulas *)
Lemma as_found_pair_shared :
  exists h hnd m, aval (al_step as_found (al_run as_found h) (OMut hnd m)) 0 <> aval (al_run as_found h) 0 /\
                  aval (al_step as_found (al_run as_found h) (OMut hnd m)) 1 <> aval (al_run as_found h) 1.
Proof. exists wit_pair, 0, (MSet 1 99%Z). vm_compute. split; intro H; discriminate H. Qed.

Lemma as_found_number_of_variables_stale :
  exists h hnd m, match aval (al_step as_found (al_run as_found h) (OMut hnd m)) 0 with
                  | Some (_, nv, [VLits c], _) => (nv <? max_var_clause c)%Z = true
                  | _ => False
                  end.
Proof. exists wit_iter, 1, (MAppend 7%Z). vm_compute. reflexivity. Qed.

(* ---- non-vacuity ---- *)
Definition ex_hdr : header := [(KO "description", "d")]%string.
Definition ex_history : list aop :=
  [ONewFormula KCnf ex_hdr; ONewList [1; -2; 3]%Z; OAddClause 0 0 true; OMut 0 (MNeg 1);
   OAddLinear 0 0 CNe 1%Z true; OMut 0 (MAppend 0%Z); OAddClause 0 0 true;
   OGetItem 0 0; OMut 1 MClear; OIter 0; OMut 2 (MSet 0 5%Z);
   OTransform TFlip 0; OHdrSet 1 (KO "note") "scribble"%string; OAddClause 1 0 false;
   ONewFormula KOpb []; ONewList [2; 3]%Z; ONewPb [TsTup 1 1; TsRef 6] PGe 1%Z; OAddConstraint 2 7 true;
   OMut 6 (MSet 1 (-3)%Z)].

Definition ex_tame_history : list aop :=
  [ONewFormula KCnf ex_hdr; ONewList [1; -2; 3]%Z; OAddClause 0 0 true; OMut 0 (MNeg 1);
   OAddLinear 0 0 CNe 1%Z true; OMut 0 (MAppend 0%Z); OAddClause 0 0 true;
   OGetItem 0 0; OMut 1 MClear; OMut 0 MPop;
   OTransform TFlip 0; OHdrSet 1 (KO "note") "scribble"%string; OAddClause 1 0 false; OMut 0 MReverse;
   ONewFormula KOpb []; ONewPb [TsTup 1 1; TsTup (-2) 3] PLt 1%Z; OAddConstraint 2 2 true;
   OMut 2 (MTermSet 0 5 5)].

(* the statements are not true of the state type by construction: a state in which two objects share a list
   (what a transformation that kept `clauses` by reference would produce) violates them *)
Definition shared_state : astate :=
  mkst [HLits [1; 2]%Z] [[]; []] [mkobj KCnf 2%Z [0] 0; mkobj KCnf 2%Z [0] 1] [].

Lemma sharing_is_expressible :
  ~ wf shared_state /\
  aval (ustep shared_state (UMut 0 (MAppend 3%Z))) 0 <> aval shared_state 0 /\
  aval (ustep shared_state (UMut 0 (MAppend 3%Z))) 1 <> aval shared_state 1.
Proof.
  split; [|split; vm_compute; intro H; discriminate H].
  intro W. apply (wf_disj shared_state W 0 1 (mkobj KCnf 2%Z [0] 0) (mkobj KCnf 2%Z [0] 1) 0); simpl; auto.
Qed.
