(* Fam_tseitin_Conv.v — the converse direction of the Tseitin criterion and the structure of the
   set of models: the formula is satisfiable as soon as every connected component has even total
   charge, and then every choice of values for the edges outside a spanning forest extends to
   exactly one model.  Proof by induction on the list of edges (a functional union-find,
   Fam_tseitin_Forest.uf). *)
From Coq Require Import ZArith List Bool Lia ZifyBool.
From Cnfgen Require Import Sem Comb Linear SemFacts LinearFacts IR IRFacts C02Common C02CommonFacts
  Fam_tseitin Fam_tseitin_Facts Fam_tseitin_Forest.
Import ListNotations.
Open Scope Z_scope.

(* ---------- the union-find ---------- *)
Definition iedges_ok (n : Z) (L : list (Z * (Z * Z))) : Prop :=
  NoDup (map fst L) /\
  forall x, In x L -> 0 < fst x /\ 1 <= fst (snd x) <= n /\ 1 <= snd (snd x) <= n.

Lemma iedges_ok_tail n x L : iedges_ok n (x :: L) -> iedges_ok n L.
Proof.
  intros [Hnd Hr]. split; [now inversion Hnd|]. intros y Hy. apply Hr. now right.
Qed.

(* both ends of an edge have the same representative *)
Lemma uf_edge L x : In x L -> uf L (fst (snd x)) = uf L (snd (snd x)).
Proof.
  induction L as [|y L IH]; intros Hin; [destruct Hin|]. cbn [uf]. destruct Hin as [->|Hin].
  - rewrite Z.eqb_refl. destruct (uf L (fst (snd x)) =? uf L (snd (snd x))); reflexivity.
  - now rewrite (IH Hin).
Qed.

(* a set that no edge leaves contains a vertex iff it contains its representative *)
Lemma uf_closed L (S : Z -> bool) : (forall x, In x L -> S (fst (snd x)) = S (snd (snd x))) ->
  forall v, S (uf L v) = S v.
Proof.
  induction L as [|y L IH]; intros Hcl v; [reflexivity|]. cbn [uf].
  assert (IH' : forall z, S (uf L z) = S z) by (apply IH; intros x Hx; apply Hcl; now right).
  destruct (Z.eqb_spec (uf L v) (uf L (snd (snd y)))) as [Heq|Hne]; [|apply IH'].
  rewrite IH', (Hcl y (or_introl eq_refl)), <- (IH' (snd (snd y))), <- Heq. apply IH'.
Qed.

Lemma uf_idem L v : uf L (uf L v) = uf L v.
Proof.
  revert v. induction L as [|y L IH]; intros v; [reflexivity|]. cbn [uf].
  destruct (Z.eqb_spec (uf L v) (uf L (snd (snd y)))) as [Heq|Hne].
  - rewrite IH. destruct (uf L (fst (snd y)) =? uf L (snd (snd y))); reflexivity.
  - rewrite IH. destruct (Z.eqb_spec (uf L v) (uf L (snd (snd y)))); [contradiction|reflexivity].
Qed.

Lemma uf_range n L : (forall x, In x L -> 1 <= fst (snd x) <= n /\ 1 <= snd (snd x) <= n) ->
  forall v, 1 <= v <= n -> 1 <= uf L v <= n.
Proof.
  induction L as [|y L IH]; intros Hr v Hv; [exact Hv|]. cbn [uf].
  assert (IH' : forall z, 1 <= z <= n -> 1 <= uf L z <= n) by (apply IH; intros x Hx; apply Hr; now right).
  destruct (uf L v =? uf L (snd (snd y))); [|now apply IH'].
  apply IH'. apply (Hr y). now left.
Qed.

(* [uf] decides connectivity: same representative iff no union of components separates them *)
Theorem uf_spec L u w :
  uf L u = uf L w <-> forall S : Z -> bool, (forall x, In x L -> S (fst (snd x)) = S (snd (snd x))) -> S u = S w.
Proof.
  split.
  - intros Heq S Hcl. now rewrite <- (uf_closed L S Hcl u), Heq, (uf_closed L S Hcl w).
  - intros H. specialize (H (fun v => uf L v =? uf L u)). cbn beta in H. rewrite Z.eqb_refl in H.
    symmetry. apply Z.eqb_eq. symmetry. apply H. intros x Hx. now rewrite (uf_edge L x Hx).
Qed.

(* ---------- parity sums ---------- *)
Lemma xsum_delta_rng w (g : Z -> bool) n : 1 <= w <= n -> xsum (fun v => (w =? v) && g v) (rng n) = g w.
Proof.
  intros Hw. rewrite xsum_delta by apply NoDup_rng.
  destruct (in_dec Z.eq_dec w (rng n)) as [_|Hn]; [reflexivity|]. exfalso. apply Hn. now apply In_rng.
Qed.

Lemma inc_par_nil a v : inc_par a [] v = false. Proof. reflexivity. Qed.

Lemma inc_par_ext a b L v : (forall x, In x L -> 0 < fst x) -> (forall i, In i (map fst L) -> a i = b i) ->
  inc_par a L v = inc_par b L v.
Proof.
  induction L as [|[j [u w]] L IH]; intros Hpos Hext; [reflexivity|].
  rewrite !inc_par_cons by (apply (Hpos (j, (u, w))); now left).
  rewrite (Hext j) by (now left). rewrite IH; [reflexivity| |].
  - intros x Hx. apply Hpos. now right.
  - intros i Hi. apply Hext. now right.
Qed.

Lemma inc_par_upd a L v i b : ~ In i (map fst L) -> (forall x, In x L -> 0 < fst x) ->
  inc_par (fun j => if j =? i then b else a j) L v = inc_par a L v.
Proof.
  intros Hni Hpos. apply inc_par_ext; [exact Hpos|]. intros j Hj.
  destruct (Z.eqb_spec j i) as [->|_]; [contradiction|reflexivity].
Qed.

Lemma inc_par_xor a b L v : (forall x, In x L -> 0 < fst x) ->
  inc_par (fun j => xorb (a j) (b j)) L v = xorb (inc_par a L v) (inc_par b L v).
Proof.
  induction L as [|[j [u w]] L IH]; intros Hpos; [reflexivity|].
  rewrite !inc_par_cons by (apply (Hpos (j, (u, w))); now left).
  rewrite IH by (intros x Hx; apply Hpos; now right).
  destruct (w =? v), (u =? v), (a j), (b j), (inc_par a L v), (inc_par b L v); reflexivity.
Qed.

Lemma nonforest_ids L i : In i (nonforest L) -> In i (map fst L).
Proof.
  induction L as [|x L IH]; [intros []|]. cbn [nonforest map].
  destruct (uf L (fst (snd x)) =? uf L (snd (snd x))).
  - intros [->|H]; [now left|right; now apply IH].
  - intros H. right. now apply IH.
Qed.

(* the sum of c over the class of x *)
Definition csum (L : list (Z * (Z * Z))) (c : Z -> bool) (n x : Z) : bool :=
  xsum (fun v => (uf L v =? x) && c v) (rng n).

(* ---------- existence ---------- *)
(* if the charges c add up to even on every class then every choice g of values on the edges
   outside the forest extends to a solution of the parity system *)
Lemma forest_solve n : forall L, iedges_ok n L -> forall (c g : Z -> bool),
  (forall x, csum L c n x = false) ->
  exists a, (forall v, 1 <= v <= n -> inc_par a L v = c v) /\ (forall i, In i (nonforest L) -> a i = g i).
Proof.
  induction L as [|[i [u w]] L IH]; intros Hok c g Hc.
  - exists g. split; [|intros i []]. intros v Hv. specialize (Hc v). unfold csum in Hc. cbn [uf] in Hc.
    rewrite (xsum_ext_in _ (fun y => (v =? y) && c y)) in Hc by (intros y _; now rewrite Z.eqb_sym).
    rewrite xsum_delta_rng in Hc by assumption. now rewrite inc_par_nil, Hc.
  - pose proof (iedges_ok_tail _ _ _ Hok) as Hok'. destruct Hok as [Hnd Hr].
    destruct (Hr (i, (u, w)) (or_introl eq_refl)) as [Hi [Hu Hw]]. cbn [fst snd] in Hi, Hu, Hw.
    assert (Hni : ~ In i (map fst L)) by (now inversion Hnd).
    assert (Hpos : forall x, In x L -> 0 < fst x) by (intros x Hx; apply Hr; now right).
    set (r := uf L) in *.
    (* the effect of the new edge with value b on the class sums *)
    assert (Hshift : forall b x,
      csum L (fun v => xorb (c v) (b && xorb (w =? v) (u =? v))) n x =
      xorb (csum L c n x) (b && xorb (r w =? x) (r u =? x))).
    { intros b x. unfold csum. fold r.
      rewrite (xsum_ext_in _ (fun v => xorb ((r v =? x) && c v)
                 (xorb ((w =? v) && (b && (r v =? x))) ((u =? v) && (b && (r v =? x)))))).
      2:{ intros v _. destruct (r v =? x), (c v), b, (w =? v), (u =? v); reflexivity. }
      rewrite !xsum_xorb, !xsum_delta_rng by assumption.
      destruct b, (r w =? x), (r u =? x); reflexivity. }
    (* the step itself, once the value b of the new edge is known *)
    assert (Hfin : forall b, ((r u =? r w) = true -> b = g i) ->
      (forall x, csum L (fun v => xorb (c v) (b && xorb (w =? v) (u =? v))) n x = false) ->
      exists a, (forall v, 1 <= v <= n -> inc_par a ((i, (u, w)) :: L) v = c v) /\
                (forall j, In j (nonforest ((i, (u, w)) :: L)) -> a j = g j)).
    { intros b Hb Hc'. destruct (IH Hok' _ g Hc') as [a' [Ha' Hg']].
      exists (fun j => if j =? i then b else a' j). split.
      - intros v Hv. rewrite inc_par_cons by assumption. rewrite inc_par_upd by assumption.
        rewrite (Ha' v Hv), Z.eqb_refl. destruct (w =? v), (u =? v), b, (c v); reflexivity.
      - intros j Hj. cbn [nonforest fst snd] in Hj. fold r in Hj.
        destruct (Z.eqb_spec j i) as [->|Hne].
        + destruct (r u =? r w) eqn:E; [now apply Hb|]. apply nonforest_ids in Hj. contradiction.
        + apply Hg'. destruct (r u =? r w); [destruct Hj as [Hj|Hj]; [congruence|exact Hj]|exact Hj]. }
    destruct (Z.eqb_spec (r u) (r w)) as [Heq|Hne].
    + apply (Hfin (g i)); [reflexivity|]. intros x. rewrite Hshift, Heq, xorb_nilpotent, andb_false_r, xorb_false_r.
      rewrite <- (Hc x). unfold csum. apply xsum_ext_in. intros v _. cbn [uf fst snd]. fold r.
      destruct (Z.eqb_spec (r v) (r w)) as [E|E]; [|reflexivity]. now rewrite Heq, <- E.
    + assert (HA : csum L c n (r w) = csum L c n (r u)).
      { pose proof (Hc (r u)) as H. unfold csum in H. cbn [uf fst snd] in H. fold r in H.
        rewrite (xsum_ext_in _ (fun v => xorb ((r v =? r w) && c v) ((r v =? r u) && c v))) in H.
        2:{ intros v _. destruct (Z.eqb_spec (r v) (r w)) as [E|E].
            - rewrite Z.eqb_refl. destruct (Z.eqb_spec (r v) (r u)) as [E'|_]; [congruence|]. now destruct (c v).
            - cbn [andb xorb]. now destruct ((r v =? r u) && c v). }
        rewrite xsum_xorb in H. unfold csum. fold r.
        destruct (xsum (fun v => (r v =? r w) && c v) (rng n)), (xsum (fun v => (r v =? r u) && c v) (rng n)); (reflexivity || discriminate). }
      assert (HB : forall x, x <> r u -> x <> r w -> csum L c n x = false).
      { intros x Hx1 Hx2. rewrite <- (Hc x). unfold csum. apply xsum_ext_in. intros v _. cbn [uf fst snd]. fold r.
        destruct (Z.eqb_spec (r v) (r w)) as [E|E]; [|reflexivity].
        destruct (Z.eqb_spec (r v) x) as [E'|_]; [congruence|]. destruct (Z.eqb_spec (r u) x) as [E'|_]; [congruence|reflexivity]. }
      apply (Hfin (csum L c n (r u))); [discriminate|]. intros x. rewrite Hshift.
      destruct (Z.eqb_spec (r u) x) as [E1|E1]; destruct (Z.eqb_spec (r w) x) as [E2|E2].
      * congruence.
      * subst x. now destruct (csum L c n (r u)).
      * subst x. rewrite HA. now destruct (csum L c n (r u)).
      * rewrite HB by congruence. now destruct (csum L c n (r u)).
Qed.

(* ---------- uniqueness ---------- *)
(* a solution of the homogeneous system that vanishes outside the forest vanishes everywhere *)
Lemma forest_unique0 n : forall L, iedges_ok n L -> forall d : Z -> bool,
  (forall v, 1 <= v <= n -> inc_par d L v = false) ->
  (forall i, In i (nonforest L) -> d i = false) ->
  forall i, In i (map fst L) -> d i = false.
Proof.
  induction L as [|[i [u w]] L IH]; intros Hok d Hd Hnf; [intros j []|].
  pose proof (iedges_ok_tail _ _ _ Hok) as Hok'. destruct Hok as [Hnd Hr].
  destruct (Hr (i, (u, w)) (or_introl eq_refl)) as [Hi [Hu Hw]]. cbn [fst snd] in Hi, Hu, Hw.
  set (r := uf L).
  assert (Hdi : d i = false).
  { destruct (Z.eqb_spec (r u) (r w)) as [Heq|Hne].
    - apply Hnf. cbn [nonforest fst snd]. fold r. rewrite (proj2 (Z.eqb_eq _ _) Heq). now left.
    - assert (Hs : xsum (fun v => (r v =? r u) && inc_par d L v) (rng n) = false).
      { apply inc_par_sum. intros j u' w' Hin. destruct (Hr (j, (u', w')) (or_intror Hin)) as [Hj [Hu' Hw']].
        pose proof (uf_edge L (j, (u', w')) Hin) as E.
        cbn [fst snd] in *. repeat split; try lia. unfold r. now rewrite E. }
      assert (H : xsum (fun v => (r v =? r u) && inc_par d ((i, (u, w)) :: L) v) (rng n) = false).
      { rewrite (xsum_ext_in _ (fun _ => false)); [apply xsum_false|]. intros v Hv. apply In_rng in Hv.
        rewrite Hd by assumption. apply andb_false_r. }
      rewrite (xsum_ext_in _ (fun v => xorb (xorb ((w =? v) && ((r v =? r u) && d i)) ((u =? v) && ((r v =? r u) && d i)))
                                            ((r v =? r u) && inc_par d L v))) in H.
      2:{ intros v _. rewrite inc_par_cons by assumption.
          destruct (r v =? r u), (w =? v), (u =? v), (d i), (inc_par d L v); reflexivity. }
      rewrite !xsum_xorb, !xsum_delta_rng in H by assumption. rewrite Hs, Z.eqb_refl in H.
      destruct (Z.eqb_spec (r w) (r u)) as [E|_]; [congruence|]. now destruct (d i). }
  intros j [<-|Hj]; [exact Hdi|]. apply (IH Hok' d); [| |exact Hj].
  - intros v Hv. rewrite <- (Hd v Hv), inc_par_cons, Hdi by assumption.
    destruct (w =? v), (u =? v), (inc_par d L v); reflexivity.
  - intros k Hk. apply Hnf. cbn [nonforest fst snd]. destruct (uf L u =? uf L w); [now right|exact Hk].
Qed.

Lemma forest_unique n L (a b : Z -> bool) : iedges_ok n L ->
  (forall v, 1 <= v <= n -> inc_par a L v = inc_par b L v) ->
  (forall i, In i (nonforest L) -> a i = b i) ->
  forall i, In i (map fst L) -> a i = b i.
Proof.
  intros Hok Hab Hnf i Hi.
  assert (Hpos : forall x, In x L -> 0 < fst x) by (intros x Hx; now apply (proj2 Hok)).
  assert (H : xorb (a i) (b i) = false).
  { apply (forest_unique0 n L Hok (fun j => xorb (a j) (b j))); [| |exact Hi].
    - intros v Hv. rewrite inc_par_xor, (Hab v Hv) by assumption. apply xorb_nilpotent.
    - intros j Hj. rewrite (Hnf j Hj). apply xorb_nilpotent. }
  destruct (a i), (b i); (reflexivity || discriminate).
Qed.

(* ---------- counting the edges outside the forest ---------- *)
Lemma filter_remove_one (p : Z -> bool) z : forall l, NoDup l -> In z l -> p z = true ->
  len (filter (fun v => p v && negb (v =? z)) l) = len (filter p l) - 1.
Proof.
  induction l as [|x l IH]; intros Hnd Hin Hp; [destruct Hin|]. inversion Hnd as [|? ? Hx Hl]; subst.
  cbn [filter]. destruct Hin as [->|Hin].
  - rewrite Hp, Z.eqb_refl. cbn [negb andb]. rewrite len_cons.
    assert (E : filter (fun v => p v && negb (v =? z)) l = filter p l).
    { apply filter_ext_in. intros v Hv. destruct (Z.eqb_spec v z) as [->|_]; [contradiction|]. now destruct (p v). }
    rewrite E. lia.
  - destruct (Z.eqb_spec x z) as [->|Hne]; [contradiction|]. cbn [negb]. rewrite andb_true_r.
    destruct (p x); rewrite ?len_cons, IH by assumption; lia.
Qed.

Lemma nonforest_count n : 0 <= n -> forall L, iedges_ok n L ->
  len (nonforest L) = len L - n + len (filter (fun v => uf L v =? v) (rng n)).
Proof.
  intros Hn. induction L as [|[i [u w]] L IH]; intros Hok.
  - cbn [nonforest uf]. rewrite (filter_ext_in _ (fun _ => true)) by (intros v _; apply Z.eqb_refl).
    assert (E : filter (fun _ : Z => true) (rng n) = rng n) by (induction (rng n) as [|x t IHt]; [reflexivity|cbn; now rewrite IHt]).
    rewrite E, len_rng by assumption. cbn. lia.
  - pose proof (iedges_ok_tail _ _ _ Hok) as Hok'. specialize (IH Hok'). destruct Hok as [Hnd Hr].
    destruct (Hr (i, (u, w)) (or_introl eq_refl)) as [Hi [Hu Hw]]. cbn [fst snd] in Hi, Hu, Hw.
    assert (Hrange : forall v, 1 <= v <= n -> 1 <= uf L v <= n).
    { apply uf_range. intros x Hx. apply Hr. now right. }
    cbn [nonforest uf fst snd]. set (r := uf L) in *. rewrite len_cons.
    destruct (Z.eqb_spec (r u) (r w)) as [Heq|Hne].
    + rewrite len_cons, IH.
      rewrite (filter_ext_in (fun v => (if r v =? r w then r u else r v) =? v) (fun v => r v =? v)); [lia|].
      intros v _. destruct (Z.eqb_spec (r v) (r w)) as [E|E]; [|reflexivity]. now rewrite Heq, <- E.
    + rewrite IH.
      rewrite (filter_ext_in (fun v => (if r v =? r w then r u else r v) =? v)
                             (fun v => (r v =? v) && negb (v =? r w))).
      2:{ intros v _. destruct (Z.eqb_spec (r v) (r w)) as [E|E].
          - destruct (Z.eqb_spec (r u) v) as [E1|E1].
            + exfalso. apply Hne. rewrite <- E. rewrite <- E1. unfold r. now rewrite uf_idem.
            + destruct (Z.eqb_spec (r v) v) as [E2|E2]; [|reflexivity].
              destruct (Z.eqb_spec v (r w)) as [E3|E3]; [reflexivity|]. congruence.
          - destruct (Z.eqb_spec (r v) v) as [E2|E2]; [|reflexivity].
            destruct (Z.eqb_spec v (r w)) as [E3|E3]; [congruence|reflexivity]. }
      rewrite (filter_remove_one (fun v => r v =? v) (r w)).
      * lia.
      * apply NoDup_rng.
      * apply In_rng. now apply Hrange.
      * unfold r. rewrite uf_idem. apply Z.eqb_refl.
Qed.

(* ---------- the edge list of a graph ---------- *)
Lemma map_fst_combine_len {A B} : forall (l : list A) (l' : list B), length l = length l' -> map fst (combine l l') = l.
Proof. induction l as [|x l IH]; intros [|y l'] H; try discriminate; [reflexivity|]. cbn. f_equal. apply IH. now injection H. Qed.
Lemma map_snd_combine_len {A B} : forall (l : list A) (l' : list B), length l = length l' -> map snd (combine l l') = l'.
Proof. induction l as [|x l IH]; intros [|y l'] H; try discriminate; [reflexivity|]. cbn. f_equal. apply IH. now injection H. Qed.
Lemma eidx_lengths (E : list (Z * Z)) : length (rng (len E)) = length E.
Proof. unfold rng. rewrite length_zrange. unfold len. lia. Qed.
Lemma eidx_ids E : map fst (eidx E) = rng (len E).
Proof. apply map_fst_combine_len, eidx_lengths. Qed.
Lemma eidx_edges E : map snd (eidx E) = E.
Proof. apply map_snd_combine_len, eidx_lengths. Qed.
Lemma len_eidx E : len (eidx E) = len E.
Proof. unfold len. now rewrite <- (map_length snd), eidx_edges. Qed.

Lemma eidx_iedges_ok n E : edges_ok n E = true -> iedges_ok n (eidx E).
Proof.
  intros Hok. split; [rewrite eidx_ids; apply NoDup_rng|]. intros [i [u w]] Hin. apply eidx_in in Hin as [Hi He].
  pose proof (edges_ok_in n E u w Hok He). cbn [fst snd]. lia.
Qed.

Lemma closed_eidx S E : closed_under_edges S E <-> forall x, In x (eidx E) -> S (fst (snd x)) = S (snd (snd x)).
Proof.
  split.
  - intros Hcl [i e] Hin. apply eidx_in in Hin as [_ He]. exact (Hcl e He).
  - intros H e He. rewrite <- (eidx_edges E) in He. apply in_map_iff in He as [x [<- Hx]]. now apply H.
Qed.

(* the classes of the union-find are unions of components, and they are connected *)
Lemma uf_class_closed E x : closed_under_edges (fun v => uf (eidx E) v =? x) E.
Proof. apply closed_eidx. intros y Hy. now rewrite (uf_edge _ y Hy). Qed.

Theorem connected_spec E u w :
  connected E u w = true <-> forall S, closed_under_edges S E -> S u = S w.
Proof.
  unfold connected. rewrite Z.eqb_eq, uf_spec. split; intros H S HS; apply H; now apply closed_eidx.
Qed.

(* ---------- Tseitin ---------- *)
Lemma tseitin_char_inc a n E ch :
  irs_hold a (tseitin_ir n E ch) = true <-> forall v, 1 <= v <= n -> inc_par a (eidx E) v = tseitin_charge ch v.
Proof. exact (tseitin_char a n E ch). Qed.

Lemma charge_parity_csum ch n E x : csum (eidx E) (tseitin_charge ch) n x = charge_parity ch (fun v => uf (eidx E) v =? x) n.
Proof. reflexivity. Qed.

(* every choice of values on the free edges extends to a model, when the components are even *)
Theorem tseitin_extend_of_even_components n E ch (g : Z -> bool) : edges_ok n E = true ->
  (forall S, closed_under_edges S E -> charge_parity ch S n = false) ->
  exists a, irs_hold a (tseitin_ir n E ch) = true /\ forall i, In i (free_edges E) -> a i = g i.
Proof.
  intros Hok Hev.
  destruct (forest_solve n (eidx E) (eidx_iedges_ok n E Hok) (tseitin_charge ch) g) as [a [Ha Hg]].
  - intros x. rewrite charge_parity_csum. apply Hev, uf_class_closed.
  - exists a. split; [now apply tseitin_char_inc|exact Hg].
Qed.

(* T3, converse direction *)
Theorem tseitin_sat_of_even_components : tseitin_sat_of_even_components_statement.
Proof.
  intros n E ch Hwf Hev. unfold graph_wf in Hwf. apply andb_true_iff in Hwf as [Hwf _]. apply andb_true_iff in Hwf as [_ Hok].
  destruct (tseitin_extend_of_even_components n E ch (fun _ => false) Hok Hev) as [a [Ha _]]. now exists a.
Qed.

Lemma tseitin_even_of_sat n E ch : edges_ok n E = true -> (exists a, irs_hold a (tseitin_ir n E ch) = true) ->
  forall S, closed_under_edges S E -> charge_parity ch S n = false.
Proof.
  intros Hok [a Ha] S HS. destruct (charge_parity ch S n) eqn:Hp; [|reflexivity].
  rewrite (tseitin_unsat_of_odd_component n E ch S a Hok HS Hp) in Ha. discriminate.
Qed.

Theorem tseitin_sat_iff n E ch : edges_ok n E = true ->
  ((exists a, irs_hold a (tseitin_ir n E ch) = true) <->
   forall S, closed_under_edges S E -> charge_parity ch S n = false).
Proof.
  intros Hok. split; [now apply tseitin_even_of_sat|]. intros Hev.
  destruct (tseitin_extend_of_even_components n E ch (fun _ => false) Hok Hev) as [a [Ha _]]. now exists a.
Qed.

(* the classes that matter are those of the representatives in 1..n *)
Lemma csum_of_components n E (c : Z -> bool) : edges_ok n E = true ->
  (forall x, 1 <= x <= n -> xsum (fun v => connected E v x && c v) (rng n) = false) ->
  forall x, csum (eidx E) c n x = false.
Proof.
  intros Hok H x. unfold csum.
  assert (Hrange : forall v, 1 <= v <= n -> 1 <= uf (eidx E) v <= n).
  { apply uf_range. intros y Hy. now apply (proj2 (eidx_iedges_ok n E Hok)). }
  destruct (Z.eqb_spec (uf (eidx E) x) x) as [Hroot|Hnroot].
  - destruct (Z_le_dec 1 x) as [H1|H1]; [destruct (Z_le_dec x n) as [H2|H2]|].
    + rewrite <- (H x (conj H1 H2)). apply xsum_ext_in. intros v _. unfold connected. now rewrite Hroot.
    + rewrite (xsum_ext_in _ (fun _ => false)); [apply xsum_false|]. intros v Hv. apply In_rng in Hv.
      destruct (Z.eqb_spec (uf (eidx E) v) x) as [E1|_]; [|reflexivity]. specialize (Hrange v Hv). lia.
    + rewrite (xsum_ext_in _ (fun _ => false)); [apply xsum_false|]. intros v Hv. apply In_rng in Hv.
      destruct (Z.eqb_spec (uf (eidx E) v) x) as [E1|_]; [|reflexivity]. specialize (Hrange v Hv). lia.
  - rewrite (xsum_ext_in _ (fun _ => false)); [apply xsum_false|]. intros v _.
    destruct (Z.eqb_spec (uf (eidx E) v) x) as [E1|_]; [|reflexivity]. exfalso. apply Hnroot. rewrite <- E1. apply uf_idem.
Qed.

(* the criterion with the components enumerated: one parity check per vertex *)
Theorem tseitin_sat_iff_components n E ch : edges_ok n E = true ->
  ((exists a, irs_hold a (tseitin_ir n E ch) = true) <->
   forall x, 1 <= x <= n -> charge_parity ch (fun v => connected E v x) n = false).
Proof.
  intros Hok. split.
  - intros Hs x Hx. apply (tseitin_even_of_sat n E ch Hok Hs). exact (uf_class_closed E (uf (eidx E) x)).
  - intros Hc.
    destruct (forest_solve n (eidx E) (eidx_iedges_ok n E Hok) (tseitin_charge ch) (fun _ => false)) as [a [Ha _]].
    + apply (csum_of_components n E _ Hok). exact Hc.
    + exists a. now apply tseitin_char_inc.
Qed.

(* the same as an executable test *)
Theorem tseitin_sat_decide n E ch : edges_ok n E = true ->
  ((exists a, irs_hold a (tseitin_ir n E ch) = true) <-> tseitin_components_even n E ch = true).
Proof.
  intros Hok. rewrite (tseitin_sat_iff_components n E ch Hok). unfold tseitin_components_even. rewrite forallb_forall. split.
  - intros H x Hx. apply In_rng in Hx. now rewrite (H x Hx).
  - intros H x Hx. apply In_rng in Hx. specialize (H x Hx). now apply negb_true_iff in H.
Qed.

(* ---------- the models of a satisfiable formula ---------- *)
Lemma free_edges_range E i : In i (free_edges E) -> 1 <= i <= len E.
Proof. intros H. apply nonforest_ids in H. rewrite eidx_ids in H. now apply In_rng. Qed.

Lemma nonforest_NoDup L : NoDup (map fst L) -> NoDup (nonforest L).
Proof.
  induction L as [|x L IH]; intros Hnd; [constructor|]. inversion Hnd as [|? ? Hx Hl]; subst. cbn [nonforest].
  destruct (uf L (fst (snd x)) =? uf L (snd (snd x))); [|now apply IH].
  constructor; [|now apply IH]. intros H. apply Hx. now apply nonforest_ids.
Qed.
Lemma free_edges_NoDup E : NoDup (free_edges E).
Proof. apply nonforest_NoDup. rewrite eidx_ids. apply NoDup_rng. Qed.

Theorem free_edges_count n E : 0 <= n -> edges_ok n E = true ->
  len (free_edges E) = len E - n + uf_components n E.
Proof.
  intros Hn Hok. unfold free_edges, uf_components. rewrite (nonforest_count n Hn (eidx E) (eidx_iedges_ok n E Hok)).
  now rewrite len_eidx.
Qed.

Theorem tseitin_extend n E ch (g : Z -> bool) : edges_ok n E = true ->
  (exists a, irs_hold a (tseitin_ir n E ch) = true) ->
  exists a, irs_hold a (tseitin_ir n E ch) = true /\ forall i, In i (free_edges E) -> a i = g i.
Proof.
  intros Hok Hs. apply tseitin_extend_of_even_components; [exact Hok|]. now apply tseitin_even_of_sat.
Qed.

Theorem tseitin_model_unique n E ch a b : edges_ok n E = true ->
  irs_hold a (tseitin_ir n E ch) = true -> irs_hold b (tseitin_ir n E ch) = true ->
  (forall i, In i (free_edges E) -> a i = b i) -> forall i, 1 <= i <= len E -> a i = b i.
Proof.
  intros Hok Ha Hb Hf i Hi. rewrite tseitin_char_inc in Ha, Hb.
  apply (forest_unique n (eidx E) a b (eidx_iedges_ok n E Hok)); [|exact Hf|].
  - intros v Hv. now rewrite (Ha v Hv), (Hb v Hv).
  - rewrite eidx_ids. now apply In_rng.
Qed.

(* the value of the formula depends on the edge variables only *)
Lemma tseitin_ext n E ch a b : edges_ok n E = true -> (forall i, 1 <= i <= len E -> a i = b i) ->
  irs_hold a (tseitin_ir n E ch) = irs_hold b (tseitin_ir n E ch).
Proof.
  intros Hok Hab.
  assert (H : forall a b, (forall i, 1 <= i <= len E -> a i = b i) ->
              irs_hold a (tseitin_ir n E ch) = true -> irs_hold b (tseitin_ir n E ch) = true).
  { clear a b Hab. intros a b Hab Ha. rewrite tseitin_char_inc in *. intros v Hv. rewrite <- (Ha v Hv). symmetry.
    apply inc_par_ext; [intros x Hx; now apply (proj2 (eidx_iedges_ok n E Hok))|].
    intros i Hi. rewrite eidx_ids in Hi. apply In_rng in Hi. now apply Hab. }
  destruct (irs_hold a (tseitin_ir n E ch)) eqn:Ea.
  - symmetry. now apply (H a b).
  - destruct (irs_hold b (tseitin_ir n E ch)) eqn:Eb; [|reflexivity].
    rewrite <- Ea. apply (H b a); [|exact Eb]. intros i Hi. symmetry. now apply Hab.
Qed.

(* MODEL COUNT, as a bijection: the models (as assignments to the variables 1..|E|) correspond one to
   one to the boolean vectors indexed by the free edges, of which there are |E| - |V| + components *)
Theorem tseitin_models_bijection n E ch : 0 <= n -> edges_ok n E = true ->
  (exists a, irs_hold a (tseitin_ir n E ch) = true) ->
  (forall g : Z -> bool, exists a, irs_hold a (tseitin_ir n E ch) = true /\ forall i, In i (free_edges E) -> a i = g i) /\
  (forall a b, irs_hold a (tseitin_ir n E ch) = true -> irs_hold b (tseitin_ir n E ch) = true ->
     (forall i, In i (free_edges E) -> a i = b i) -> forall i, 1 <= i <= tseitin_numvar E -> a i = b i) /\
  NoDup (free_edges E) /\ (forall i, In i (free_edges E) -> 1 <= i <= tseitin_numvar E) /\
  len (free_edges E) = len E - n + uf_components n E.
Proof.
  intros Hn Hok Hs. split; [|split; [|split; [|split]]].
  - intros g. now apply tseitin_extend.
  - intros a b Ha Hb Hf. now apply (tseitin_model_unique n E ch).
  - apply free_edges_NoDup.
  - apply free_edges_range.
  - now apply free_edges_count.
Qed.
