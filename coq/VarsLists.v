(* VarsLists.v — list lemmas used by VarsFacts.v: zrange, znth, index_of, pos_of,
   bisect_right, NoDup of concatenations. *)
From Coq Require Import ZArith List Bool Lia ZifyBool FinFun.
From Cnfgen Require Import Sem Comb SemFacts Vars.
Import ListNotations.
Open Scope Z_scope.

(* ---------- zrange ---------- *)
Lemma zrange_empty a b : b <= a -> zrange a b = [].
Proof. intros H. unfold zrange. replace (Z.to_nat (b - a)) with 0%nat by lia. reflexivity. Qed.

Lemma zrange_length a b : length (zrange a b) = Z.to_nat (b - a).
Proof. unfold zrange. now rewrite map_length, seq_length. Qed.

Lemma zrange_len a b : a <= b -> len (zrange a b) = b - a.
Proof. intros H. unfold len. rewrite zrange_length. lia. Qed.

Lemma zrange_cons a b : a < b -> zrange a b = a :: zrange (a + 1) b.
Proof.
  intros H. unfold zrange.
  replace (Z.to_nat (b - a)) with (S (Z.to_nat (b - (a + 1)))) by lia.
  cbn [seq map]. f_equal; [lia|].
  rewrite <- seq_shift, map_map. apply map_ext. intros i. lia.
Qed.

Lemma seq_add_map k n : seq k n = map (Nat.add k) (seq 0 n).
Proof.
  induction k as [|k IH]; [now rewrite map_id|].
  rewrite <- seq_shift, IH, map_map. reflexivity.
Qed.

Lemma zrange_app a b c : a <= b -> b <= c -> zrange a c = zrange a b ++ zrange b c.
Proof.
  intros H1 H2. unfold zrange.
  replace (Z.to_nat (c - a)) with (Z.to_nat (b - a) + Z.to_nat (c - b))%nat by lia.
  rewrite seq_app, map_app. f_equal. cbn [Nat.add].
  rewrite seq_add_map, map_map. apply map_ext. intros i. lia.
Qed.

Lemma zrange_snoc a b : a <= b -> zrange a (b + 1) = zrange a b ++ [b].
Proof.
  intros H. rewrite (zrange_app a b (b + 1)) by lia. f_equal.
  rewrite zrange_cons by lia. now rewrite zrange_empty by lia.
Qed.

Lemma in_zrange x a b : In x (zrange a b) <-> a <= x < b.
Proof.
  unfold zrange. rewrite in_map_iff. split.
  - intros [i [E Hi]]. apply in_seq in Hi. lia.
  - intros H. exists (Z.to_nat (x - a)). split; [lia|]. apply in_seq. lia.
Qed.

Lemma zrange_map_add d a b : map (Z.add d) (zrange a b) = zrange (d + a) (d + b).
Proof.
  unfold zrange. rewrite map_map. replace (d + b - (d + a)) with (b - a) by lia.
  apply map_ext. intros; lia.
Qed.

Lemma zrange_map_shift (f : Z -> Z) d a b : (forall x, f x = x + d) -> map f (zrange a b) = zrange (a + d) (b + d).
Proof.
  intros H. rewrite (map_ext f (Z.add d)) by (intros; rewrite H; lia).
  rewrite zrange_map_add. f_equal; lia.
Qed.

Lemma zrange_nth_error a b (j : nat) : (Z.of_nat j < b - a) -> nth_error (zrange a b) j = Some (a + Z.of_nat j).
Proof.
  intros H. unfold zrange. rewrite nth_error_map.
  rewrite (nth_error_nth' _ 0%nat) by (rewrite seq_length; lia).
  rewrite seq_nth by lia. reflexivity.
Qed.

Lemma NoDup_zrange a b : NoDup (zrange a b).
Proof.
  unfold zrange. apply Injective_map_NoDup; [|apply seq_NoDup].
  intros x y. lia.
Qed.

(* ---------- znth ---------- *)
Lemma znth_cons {A} (i : Z) (x : A) t : znth i (x :: t) = if i =? 0 then Some x else znth (i - 1) t.
Proof.
  unfold znth. destruct (Z.ltb_spec i 0) as [H|H].
  - destruct (Z.eqb_spec i 0); [lia|]. destruct (Z.ltb_spec (i - 1) 0); [reflexivity|lia].
  - destruct (Z.eqb_spec i 0) as [->|N]; [reflexivity|].
    destruct (Z.ltb_spec (i - 1) 0); [lia|].
    replace (Z.to_nat i) with (S (Z.to_nat (i - 1))) by lia. reflexivity.
Qed.

Lemma znth_nil {A} i : @znth A i [] = None.
Proof. unfold znth. destruct (i <? 0); [reflexivity|]. now destruct (Z.to_nat i). Qed.

Lemma znth_Some {A} i (l : list A) x : znth i l = Some x -> 0 <= i < len l /\ nth_error l (Z.to_nat i) = Some x.
Proof.
  unfold znth. destruct (Z.ltb_spec i 0) as [H|H]; [discriminate|]. intros E. split; [|exact E].
  assert (Z.to_nat i < length l)%nat by (apply nth_error_Some; congruence). unfold len. lia.
Qed.

Lemma znth_of_nat {A} (j : nat) (l : list A) : znth (Z.of_nat j) l = nth_error l j.
Proof. unfold znth. destruct (Z.ltb_spec (Z.of_nat j) 0); [lia|]. now rewrite Nat2Z.id. Qed.

Lemma znth_In {A} i (l : list A) x : znth i l = Some x -> In x l.
Proof. intros H. apply znth_Some in H as [_ H]. eapply nth_error_In; eauto. Qed.

Lemma znth_app1 {A} i (l1 l2 : list A) : i < len l1 -> znth i (l1 ++ l2) = znth i l1.
Proof.
  intros H. unfold znth. destruct (Z.ltb_spec i 0); [reflexivity|].
  apply nth_error_app1. unfold len in H. lia.
Qed.
Lemma znth_app2 {A} i (l1 l2 : list A) : len l1 <= i -> znth i (l1 ++ l2) = znth (i - len l1) l2.
Proof.
  intros H. unfold znth, len in *. destruct (Z.ltb_spec i 0); [lia|].
  destruct (Z.ltb_spec (i - Z.of_nat (length l1)) 0); [lia|].
  rewrite nth_error_app2 by lia. f_equal. lia.
Qed.
Lemma znth_map {A B} (f : A -> B) i l : znth i (map f l) = option_map f (znth i l).
Proof. unfold znth. destruct (i <? 0); [reflexivity|]. apply nth_error_map. Qed.

Lemma znth_zrange a b i : 0 <= i < b - a -> znth i (zrange a b) = Some (a + i).
Proof.
  intros H. replace i with (Z.of_nat (Z.to_nat i)) at 1 by lia. rewrite znth_of_nat.
  rewrite zrange_nth_error by lia. f_equal. lia.
Qed.

Lemma znth_none {A} i (l : list A) : i < 0 \/ len l <= i -> znth i l = None.
Proof.
  unfold znth, len. intros H. destruct (Z.ltb_spec i 0); [reflexivity|].
  apply nth_error_None. lia.
Qed.

(* ---------- index_of / pos_of ---------- *)
Lemma index_of_Some x l p : index_of x l = Some p -> znth p l = Some x /\ 0 <= p < len l.
Proof.
  revert p. induction l as [|y t IH]; intros p H; [discriminate|].
  cbn [index_of] in H. rewrite len_cons. destruct (Z.eqb_spec x y) as [->|N].
  - injection H as <-. rewrite znth_cons. pose proof (len_nonneg t). split; [reflexivity|lia].
  - destruct (index_of x t) as [q|] eqn:E; [|discriminate]. cbn in H. injection H as <-.
    destruct (IH q eq_refl) as [H1 H2]. rewrite znth_cons.
    destruct (Z.eqb_spec (Z.succ q) 0); [lia|]. replace (Z.succ q - 1) with q by lia. split; [exact H1|lia].
Qed.

Lemma index_of_None x l : index_of x l = None -> ~ In x l.
Proof.
  induction l as [|y t IH]; intros H; [tauto|].
  cbn [index_of] in H. destruct (Z.eqb_spec x y) as [->|N]; [discriminate|].
  destruct (index_of x t); [discriminate|]. intros [E|I]; [congruence|]. now apply IH.
Qed.

Lemma index_of_In x l : In x l -> exists p, index_of x l = Some p.
Proof. intros H. destruct (index_of x l) eqn:E; [eauto|]. now apply index_of_None in E. Qed.

(* for a duplicate-free list, the position of the j-th element is j *)
Lemma index_of_nth l : NoDup l -> forall j x, znth j l = Some x -> index_of x l = Some j.
Proof.
  induction 1 as [|y t Hy Ht IH]; intros j x H; [now rewrite znth_nil in H|].
  rewrite znth_cons in H. cbn [index_of]. destruct (Z.eqb_spec j 0) as [->|N].
  - injection H as ->. now rewrite Z.eqb_refl.
  - destruct (Z.eqb_spec x y) as [->|N2]; [exfalso; apply Hy; eapply znth_In; eauto|].
    rewrite (IH _ _ H). cbn. f_equal. lia.
Qed.

Lemma map_index_of_self l : NoDup l -> forall d, map (fun v => option_map (Z.add d) (index_of v l)) l = map Some (zrange d (d + len l)).
Proof.
  induction 1 as [|y t Hy Ht IH]; intros d; [now rewrite zrange_empty by (cbn; lia)|].
  rewrite len_cons. pose proof (len_nonneg t). rewrite zrange_cons by lia. cbn [map index_of]. rewrite Z.eqb_refl. cbn [option_map].
  f_equal; [f_equal; lia|]. replace (d + (1 + len t)) with ((d + 1) + len t) by lia. rewrite <- IH.
  apply map_ext_in. intros v Hv. destruct (Z.eqb_spec v y) as [->|N]; [contradiction|].
  destruct (index_of v t); cbn [option_map]; [f_equal; lia|reflexivity].
Qed.

Lemma list_eqb_spec a b : list_eqb a b = true <-> a = b.
Proof.
  revert b. induction a as [|x a IH]; intros [|y b]; cbn; try (split; congruence).
  rewrite andb_true_iff, IH, Z.eqb_eq. split; [intros [-> ->]; reflexivity|intros E; injection E; auto].
Qed.
Lemma list_eqb_refl a : list_eqb a a = true. Proof. now apply list_eqb_spec. Qed.

Lemma pos_of_Some x l p : pos_of x l = Some p -> znth p l = Some x /\ 0 <= p < len l.
Proof.
  revert p. induction l as [|y t IH]; intros p H; [discriminate|].
  cbn [pos_of] in H. rewrite len_cons. destruct (list_eqb x y) eqn:E.
  - apply list_eqb_spec in E. subst y. injection H as <-. rewrite znth_cons. pose proof (len_nonneg t). split; [reflexivity|lia].
  - destruct (pos_of x t) as [q|] eqn:E2; [|discriminate]. cbn in H. injection H as <-.
    destruct (IH q eq_refl) as [H1 H2]. rewrite znth_cons.
    destruct (Z.eqb_spec (Z.succ q) 0); [lia|]. replace (Z.succ q - 1) with q by lia. split; [exact H1|lia].
Qed.

Lemma pos_of_None x l : pos_of x l = None -> ~ In x l.
Proof.
  induction l as [|y t IH]; intros H; [tauto|].
  cbn [pos_of] in H. destruct (list_eqb x y) eqn:E; [discriminate|].
  destruct (pos_of x t); [discriminate|]. intros [E2|I]; [subst; now rewrite list_eqb_refl in E|]. now apply IH.
Qed.

Lemma pos_of_nth l : NoDup l -> forall j x, znth j l = Some x -> pos_of x l = Some j.
Proof.
  induction 1 as [|y t Hy Ht IH]; intros j x H; [now rewrite znth_nil in H|].
  rewrite znth_cons in H. cbn [pos_of]. destruct (Z.eqb_spec j 0) as [->|N].
  - injection H as ->. now rewrite list_eqb_refl.
  - destruct (list_eqb x y) eqn:E.
    + apply list_eqb_spec in E. subst y. exfalso. apply Hy. eapply znth_In; eauto.
    + rewrite (IH _ _ H). cbn. f_equal. lia.
Qed.

Lemma map_pos_of_self l : NoDup l -> forall d, map (fun v => option_map (fun p => d + p) (pos_of v l)) l = map Some (zrange d (d + len l)).
Proof.
  induction 1 as [|y t Hy Ht IH]; intros d; [now rewrite zrange_empty by (cbn; lia)|].
  rewrite len_cons. pose proof (len_nonneg t). rewrite zrange_cons by lia. cbn [map pos_of]. rewrite list_eqb_refl. cbn [option_map].
  f_equal; [f_equal; lia|]. replace (d + (1 + len t)) with ((d + 1) + len t) by lia. rewrite <- IH.
  apply map_ext_in. intros v Hv. destruct (list_eqb v y) eqn:E.
  - apply list_eqb_spec in E. subst. contradiction.
  - destruct (pos_of v t); cbn [option_map]; [f_equal; lia|reflexivity].
Qed.

(* ---------- bisect_right ---------- *)
Lemma bisect_right_nonneg x l : 0 <= bisect_right x l.
Proof. induction l as [|y t IH]; cbn [bisect_right]; [lia|]. destruct (x <? y); lia. Qed.

Lemma bisect_right_all_gt x l : (forall y, In y l -> x < y) -> bisect_right x l = 0.
Proof.
  destruct l as [|y t]; intros H; [reflexivity|]. cbn [bisect_right].
  destruct (Z.ltb_spec x y); [reflexivity|]. specialize (H y (or_introl eq_refl)). lia.
Qed.

(* ---------- NoDup of concatenations ---------- *)
Lemma NoDup_app_intro {A} (l1 l2 : list A) :
  NoDup l1 -> NoDup l2 -> (forall x, In x l1 -> In x l2 -> False) -> NoDup (l1 ++ l2).
Proof.
  induction 1 as [|x t Hx Ht IH]; intros H2 D; [exact H2|].
  cbn [app]. constructor.
  - rewrite in_app_iff. intros [I|I]; [contradiction|]. apply (D x); [now left|exact I].
  - apply IH; [exact H2|]. intros y I1 I2. apply (D y); [now right|exact I2].
Qed.

Lemma NoDup_flat_map_intro {A B} (g : A -> list B) (l : list A) :
  NoDup l -> (forall i, In i l -> NoDup (g i)) ->
  (forall i j x, In i l -> In j l -> i <> j -> In x (g i) -> In x (g j) -> False) ->
  NoDup (flat_map g l).
Proof.
  induction 1 as [|i t Hi Ht IH]; intros Hg D; [constructor|].
  cbn [flat_map]. apply NoDup_app_intro.
  - apply Hg. now left.
  - apply IH; [intros; apply Hg; now right|]. intros a b x Ia Ib. apply D; now right.
  - intros x I1 I2. apply in_flat_map in I2 as [j [Ij Ix]].
    apply (D i j x); [now left|now right| |exact I1|exact Ix]. intros ->. contradiction.
Qed.

Lemma NoDup_map_cons {A} (x : A) P : NoDup P -> NoDup (map (cons x) P).
Proof. intros H. apply Injective_map_NoDup; [|exact H]. intros a b E. now injection E. Qed.

(* a list equal, after mapping, to an initial segment of the integers *)
Lemma map_eq_zrange_nth {A} (f : A -> option Z) (l : list A) a b :
  map f l = map Some (zrange a b) ->
  forall j x, znth j l = Some x -> f x = Some (a + j) /\ 0 <= j < b - a.
Proof.
  intros H j x Hx. apply znth_Some in Hx as [Hj Hx].
  assert (L : length l = Z.to_nat (b - a)).
  { apply (f_equal (@length _)) in H. now rewrite !map_length, zrange_length in H. }
  assert (E : nth_error (map f l) (Z.to_nat j) = Some (f x)) by (rewrite nth_error_map, Hx; reflexivity).
  rewrite H, nth_error_map in E. unfold len in Hj.
  rewrite zrange_nth_error in E by lia. cbn in E. injection E as E. split; [rewrite <- E; f_equal; lia|lia].
Qed.

Lemma In_znth {A} (x : A) l : In x l -> exists j, znth j l = Some x.
Proof.
  intros H. apply In_nth_error in H as [n Hn]. exists (Z.of_nat n). now rewrite znth_of_nat.
Qed.

Lemma len_flat_map_const {A B} (g : A -> list B) (l : list A) k :
  (forall x, In x l -> len (g x) = k) -> len (flat_map g l) = len l * k.
Proof.
  induction l as [|x t IH]; intros H; [reflexivity|].
  cbn [flat_map]. rewrite len_app, len_cons, IH, H; [lia|now left|intros; apply H; now right].
Qed.

Lemma nth_error_ext_eq {A} (l l' : list A) : (forall n, nth_error l n = nth_error l' n) -> l = l'.
Proof.
  revert l'. induction l as [|x t IH]; intros [|y t'] H; [reflexivity| | |].
  - specialize (H 0%nat). discriminate.
  - specialize (H 0%nat). discriminate.
  - pose proof (H 0%nat) as H0. cbn in H0. injection H0 as ->. f_equal. apply IH. intros n. apply (H (S n)).
Qed.
