(* Fam_iso_Facts.v — GraphIsomorphism / GraphAutomorphism: the satisfying assignments are
   exactly the graphs of the isomorphisms (T1), hence satisfiable iff isomorphic (T2) and the
   models are in bijection with the isomorphisms (model count). *)
From Coq Require Import ZArith List Bool Lia ZifyBool.
From Cnfgen Require Import Sem Comb Linear SemFacts LinearFacts IR IRFacts C02Common C02CommonFacts Fam_iso.
Import ListNotations.
Open Scope Z_scope.

Lemma iso_ok n1 E1 n2 E2 : irs_ok (iso_ir n1 E1 n2 E2) = true.
Proof.
  unfold iso_ir. rewrite !irs_ok_app_iff.
  repeat split; [apply um_complete_ok|apply um_surjective_ok|apply um_functional_ok|apply um_injective_ok|apply cons_pair_ok]; lia.
Qed.

(* T1, relational form *)
Lemma iso_rel a n1 E1 n2 E2 :
  irs_hold a (iso_ir n1 E1 n2 E2) = true <->
  rel_total (rel_of a 0 n2) n1 n2 /\ rel_surjective (rel_of a 0 n2) n1 n2 /\
  rel_functional (rel_of a 0 n2) n1 n2 /\ rel_injective (rel_of a 0 n2) n1 n2 /\
  rel_straight (rel_of a 0 n2) (iso_bad E1 E2) n1 n2 /\ rel_crossed (rel_of a 0 n2) (iso_bad E1 E2) n1 n2.
Proof.
  unfold iso_ir. rewrite !irs_hold_app_iff.
  rewrite um_complete_sem, um_surjective_sem, um_functional_sem, um_injective_sem, cons_pair_sem by lia.
  intuition.
Qed.

Lemma iso_bad_false E1 E2 u1 u2 v1 v2 : iso_bad E1 E2 u1 u2 v1 v2 = false <-> has_edge E1 u1 u2 = has_edge E2 v1 v2.
Proof. unfold iso_bad. destruct (has_edge E1 u1 u2), (has_edge E2 v1 v2); cbn; split; congruence. Qed.

(* what the constraints say about a function whose graph the assignment is *)
Lemma iso_fun R phi n1 E1 n2 E2 : graph_of R phi n1 n2 ->
  (rel_surjective R n1 n2 /\ rel_injective R n1 n2 /\
   rel_straight R (iso_bad E1 E2) n1 n2 /\ rel_crossed R (iso_bad E1 E2) n1 n2 <->
   isomorphism n1 E1 n2 E2 phi).
Proof.
  intros G. rewrite (graph_surjective R phi n1 n2 G), (graph_injective R phi n1 n2 G),
    (graph_straight R phi n1 n2 _ G), (graph_crossed R phi n1 n2 _ G).
  unfold isomorphism. split.
  - intros [Hs [Hi [Hst Hcr]]]. split; [intros u Hu; apply (G u Hu)|]. split; [exact Hi|]. split; [exact Hs|].
    assert (Hlt : forall u1 u2, 1 <= u1 -> u1 < u2 -> u2 <= n1 -> has_edge E1 u1 u2 = has_edge E2 (phi u1) (phi u2)).
    { intros u1 u2 A1 A2 A3.
      assert (phi u1 <> phi u2) by (intros E; apply Hi in E; lia).
      destruct (Z.lt_ge_cases (phi u1) (phi u2)) as [L|L].
      - apply iso_bad_false. now apply Hst.
      - rewrite (has_edge_sym E2). apply iso_bad_false. apply Hcr; auto. lia. }
    intros u1 u2 H1 H2 Hne. destruct (Z.lt_ge_cases u1 u2) as [L|L].
    + apply Hlt; lia.
    + rewrite (has_edge_sym E1), (has_edge_sym E2). apply Hlt; lia.
  - intros [Hr [Hi [Hs He]]]. split; [exact Hs|]. split; [exact Hi|]. split.
    + intros i1 i2 A1 A2 A3 L. apply iso_bad_false. apply He; lia.
    + intros i1 i2 A1 A2 A3 L. apply iso_bad_false. rewrite (has_edge_sym E2). apply He; lia.
Qed.

(* T1: the true variables are the graph of an isomorphism *)
Theorem iso_char a n1 E1 n2 E2 :
  irs_hold a (iso_ir n1 E1 n2 E2) = true <->
  exists phi, graph_of (rel_of a 0 n2) phi n1 n2 /\ isomorphism n1 E1 n2 E2 phi.
Proof.
  rewrite iso_rel. split.
  - intros [Ht [Hs [Hf [Hi [Hst Hcr]]]]]. exists (dec_map a 0 n2).
    assert (G := dec_map_graph a 0 n2 n1 Ht Hf). split; [exact G|]. apply (iso_fun _ _ _ _ _ _ G). auto.
  - intros [phi [G HI]]. apply (iso_fun _ _ _ _ _ _ G) in HI as [Hs [Hi [Hst Hcr]]].
    repeat split; auto; [eapply graph_of_total|eapply graph_of_functional]; eauto.
Qed.

Lemma iso_dec a n1 E1 n2 E2 : irs_hold a (iso_ir n1 E1 n2 E2) = true ->
  graph_of (rel_of a 0 n2) (dec_map a 0 n2) n1 n2 /\ isomorphism n1 E1 n2 E2 (dec_map a 0 n2).
Proof.
  intros H. apply iso_rel in H as [Ht [Hs [Hf [Hi [Hst Hcr]]]]].
  assert (G := dec_map_graph a 0 n2 n1 Ht Hf). split; [exact G|]. apply (iso_fun _ _ _ _ _ _ G). auto.
Qed.
Lemma iso_enc n1 E1 n2 E2 phi : isomorphism n1 E1 n2 E2 phi ->
  irs_hold (enc_map 0 n2 phi) (iso_ir n1 E1 n2 E2) = true.
Proof.
  intros HI. apply iso_char. exists phi. split; [|exact HI]. apply enc_map_graph; [lia|]. apply HI.
Qed.

(* T2: satisfiable iff isomorphic *)
Theorem iso_sat_iff n1 E1 n2 E2 :
  (exists a, irs_hold a (iso_ir n1 E1 n2 E2) = true) <-> exists phi, isomorphism n1 E1 n2 E2 phi.
Proof.
  split.
  - intros [a H]. apply iso_char in H as [phi [_ HI]]. now exists phi.
  - intros [phi HI]. exists (enc_map 0 n2 phi). now apply iso_enc.
Qed.

(* model count: [dec_map] and [enc_map] are mutually inverse between the models (as assignments
   of the variables 1..n1*n2) and the isomorphisms (as functions on 1..n1) *)
Theorem iso_bijection n1 E1 n2 E2 : 0 <= n1 ->
  (forall a, irs_hold a (iso_ir n1 E1 n2 E2) = true -> isomorphism n1 E1 n2 E2 (dec_map a 0 n2)) /\
  (forall phi, isomorphism n1 E1 n2 E2 phi -> irs_hold (enc_map 0 n2 phi) (iso_ir n1 E1 n2 E2) = true) /\
  (forall phi, isomorphism n1 E1 n2 E2 phi -> forall u, 1 <= u <= n1 -> dec_map (enc_map 0 n2 phi) 0 n2 u = phi u) /\
  (forall a, irs_hold a (iso_ir n1 E1 n2 E2) = true ->
     forall v, 1 <= v <= iso_numvar n1 n2 -> enc_map 0 n2 (dec_map a 0 n2) v = a v).
Proof.
  intros Hn. split; [|split; [|split]].
  - intros a H. now apply iso_dec in H.
  - intros phi HI. now apply iso_enc.
  - intros phi HI u Hu. pose proof (iso_enc _ _ _ _ _ HI) as H. apply iso_dec in H as [G _].
    assert (G' : graph_of (rel_of (enc_map 0 n2 phi) 0 n2) phi n1 n2) by (apply enc_map_graph; [lia|apply HI]).
    apply (graph_of_unique _ _ _ _ _ G G' u Hu).
  - intros a H v Hv. apply iso_dec in H as [G HI]. unfold iso_numvar in Hv.
    apply (graph_of_same_vars _ _ 0 n1 n2 (dec_map a 0 n2)); try lia; [|exact G].
    apply enc_map_graph; [lia|apply HI].
Qed.

(* ---------- automorphism and the documented nontrivial=True ---------- *)
Lemma nontrivial_clause_sem a phi n1 n2 r : graph_of (rel_of a 0 n2) phi n1 n2 -> r <= n1 -> r <= n2 ->
  (clause_sat a (map (fun u => - mvar 0 n2 u u) (rng r)) = true <-> exists u, 1 <= u <= r /\ phi u <> u).
Proof.
  intros G H1 H2. rewrite (clause_neg_map a (fun u => mvar 0 n2 u u)).
  2:{ intros u Hu. apply In_rng in Hu. apply mvar_pos; lia. }
  split; intros [u [Hu T]]; exists u.
  - apply In_rng in Hu. split; [assumption|]. destruct (G u ltac:(lia)) as [_ Gu]. intros E.
    specialize (Gu u ltac:(lia)). unfold rel_of in Gu. apply Gu in E. cbn beta in T. congruence.
  - split; [now apply In_rng|]. destruct (G u ltac:(lia)) as [_ Gu]. specialize (Gu u ltac:(lia)). unfold rel_of in Gu.
    destruct (a (mvar 0 n2 u u)); [|reflexivity]. exfalso. apply T. now apply Gu.
Qed.

Lemma auto_ok n E : irs_ok (auto_ir n E) = true.
Proof.
  unfold auto_ir. rewrite irs_ok_app_iff. split; [apply iso_ok|]. unfold irs_ok, ir_ok. cbn [forallb ir_lits].
  rewrite andb_true_r. apply (lits_ok_map_neg (fun u => mvar 0 n u u)). intros u Hu. apply In_rng in Hu. apply mvar_pos; lia.
Qed.

Theorem auto_char a n E :
  irs_hold a (auto_ir n E) = true <->
  exists phi, graph_of (rel_of a 0 n) phi n n /\ isomorphism n E n E phi /\ exists u, 1 <= u <= n /\ phi u <> u.
Proof.
  unfold auto_ir. rewrite irs_hold_app_iff, iso_char, irs_hold_cons, irs_hold_nil, andb_true_r. cbn [ir_holds]. split.
  - intros [[phi [G HI]] Hc]. exists phi. split; [exact G|]. split; [exact HI|].
    apply (nontrivial_clause_sem a phi n n n G) in Hc; [assumption|lia|lia].
  - intros [phi [G [HI Hu]]]. split; [now exists phi|]. apply (nontrivial_clause_sem a phi n n n G); [lia|lia|assumption].
Qed.

Theorem auto_sat_iff n E :
  (exists a, irs_hold a (auto_ir n E) = true) <->
  exists phi, isomorphism n E n E phi /\ exists u, 1 <= u <= n /\ phi u <> u.
Proof.
  split.
  - intros [a H]. apply auto_char in H as [phi [_ H]]. now exists phi.
  - intros [phi [HI Hu]]. exists (enc_map 0 n phi). apply auto_char. exists phi. split; [|auto].
    apply enc_map_graph; [lia|apply HI].
Qed.

Lemma iso_nontrivial_ok n1 E1 n2 E2 : irs_ok (iso_nontrivial_ir n1 E1 n2 E2) = true.
Proof.
  unfold iso_nontrivial_ir. rewrite irs_ok_app_iff. split; [apply iso_ok|]. unfold irs_ok, ir_ok. cbn [forallb ir_lits].
  rewrite andb_true_r. apply (lits_ok_map_neg (fun u => mvar 0 n2 u u)). intros u Hu. apply In_rng in Hu. apply mvar_pos; lia.
Qed.

Theorem iso_nontrivial_char a n1 E1 n2 E2 :
  irs_hold a (iso_nontrivial_ir n1 E1 n2 E2) = true <->
  exists phi, graph_of (rel_of a 0 n2) phi n1 n2 /\ isomorphism n1 E1 n2 E2 phi /\
              exists u, 1 <= u <= Z.min n1 n2 /\ phi u <> u.
Proof.
  unfold iso_nontrivial_ir. rewrite irs_hold_app_iff, iso_char, irs_hold_cons, irs_hold_nil, andb_true_r. cbn [ir_holds]. split.
  - intros [[phi [G HI]] Hc]. exists phi. split; [exact G|]. split; [exact HI|].
    apply (nontrivial_clause_sem a phi n1 n2 _ G) in Hc; [assumption|lia|lia].
  - intros [phi [G [HI Hu]]]. split; [now exists phi|]. apply (nontrivial_clause_sem a phi n1 n2 _ G); [lia|lia|assumption].
Qed.

Theorem iso_nontrivial_sat_iff n1 E1 n2 E2 :
  (exists a, irs_hold a (iso_nontrivial_ir n1 E1 n2 E2) = true) <->
  exists phi, isomorphism n1 E1 n2 E2 phi /\ exists u, 1 <= u <= Z.min n1 n2 /\ phi u <> u.
Proof.
  split.
  - intros [a H]. apply iso_nontrivial_char in H as [phi [_ H]]. now exists phi.
  - intros [phi [HI Hu]]. exists (enc_map 0 n2 phi). apply iso_nontrivial_char. exists phi. split; [|auto].
    apply enc_map_graph; [lia|apply HI].
Qed.

(* the code ignores nontrivial=True: one vertex, no edge — the only isomorphism is the identity,
   yet the formula the code builds (iso_ir) is satisfiable *)
Lemma iso_nontrivial_ignored_witness :
  irs_hold (fun v => v =? 1) (iso_ir 1 [] 1 []) = true /\
  ~ (exists phi, isomorphism 1 [] 1 [] phi /\ exists u, 1 <= u <= Z.min 1 1 /\ phi u <> u).
Proof.
  split; [vm_compute; reflexivity|]. intros [phi [[Hr _] [u [Hu Hne]]]].
  assert (u = 1) by lia. subst. specialize (Hr 1 ltac:(lia)). lia.
Qed.
