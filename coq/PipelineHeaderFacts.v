(* PipelineHeaderFacts.v -- the program with its comment header (coq/PipelineHeader.v). *)
From Coq Require Import ZArith List Bool Ascii String Lia.
From Cnfgen Require Import Sem Comb Linear Text Dimacs DimacsFacts OpbText EndToEnd Header HeaderFacts Cli PipelineGraph Pipeline PipelineFacts PipelineHeader.
Import ListNotations.
Open Scope Z_scope.

(* -q: nothing changes *)
Theorem env_extends_quiet version argv t : cnfgen_main argv = POut t -> cnfgen_main_env version argv = POut t.
Proof.
  unfold cnfgen_main, cnfgen_main_env, pl_quiet_of, pl_header_choice.
  destruct (pl_formula argv) as [n F| | |]; cbn [pl_render pl_render_env]; try discriminate.
  destruct (pl_parse_chunks (pl_chunks_of argv)) as [c| |]; try discriminate.
  destruct (pl_quiet (pl_o c)); [|discriminate]. intros H. exact H.
Qed.

Theorem env_error_iff version argv : cnfgen_main_env version argv = PCliError <-> cnfgen_main argv = PCliError.
Proof.
  unfold cnfgen_main, cnfgen_main_env.
  destruct (pl_formula argv) as [n F| | |]; cbn [pl_render pl_render_env].
  - split.
    + destruct (pl_header_choice version argv); discriminate.
    + destruct (pl_quiet_of argv); discriminate.
  - split; reflexivity.
  - split; discriminate.
  - split; discriminate.
Qed.

Theorem env_total version argv :
  (exists text, cnfgen_main_env version argv = POut text) \/ cnfgen_main_env version argv = PCliError \/
  cnfgen_main_env version argv = POutside.
Proof.
  unfold cnfgen_main_env. pose proof (pl_formula_no_crash argv) as H.
  destruct (pl_formula argv) as [n F| | |]; cbn [pl_render_env].
  - destruct (pl_header_choice version argv); [left; eexists; reflexivity|right; right; reflexivity].
  - right; left; reflexivity.
  - contradiction.
  - right; right; reflexivity.
Qed.

(* with or without header, the text reads back as the formula *)
Theorem env_roundtrip version argv text : cnfgen_main_env version argv = POut text ->
  exists n F hh, pl_formula argv = FrOk n F /\ pl_header_choice version argv = Some hh /\
                 text = pl_write (pl_opb_of argv) hh n F /\ 0 <= n /\ lits_in_range n F = true /\
                 (printable n -> printable (len F) -> pl_reads_back (pl_opb_of argv) text n F).
Proof.
  unfold cnfgen_main_env. destruct (pl_formula argv) as [n F| | |] eqn:E; cbn [pl_render_env]; try discriminate.
  destruct (pl_header_choice version argv) as [hh|] eqn:Eh; [|discriminate]. intros H. inversion H; subst.
  destruct (pl_formula_in_range argv n F E) as [Hn HR].
  exists n, F, hh. repeat split; try assumption; try reflexivity.
  intros P1 P2. now apply pl_write_reads_back.
Qed.

(* the header: description, generator, copyright, url, then one numbered entry per transformation that records one,
   in the order applied, then the command line *)
Lemma plh_fresh_numbered version d : numbered 0 (plh_fresh version d).
Proof. apply no_transformation_numbered. intros i. reflexivity. Qed.

Theorem plh_final_shape version argv d ts :
  plh_final version argv d ts =
  plh_fresh version d ++ number_from 0 (flat_map pl_tdesc ts)
  ++ [(KO "command line", ("cnfgen " ++ plh_join " " argv)%string)].
Proof.
  unfold plh_final. destruct (apply_chain_numbered (flat_map pl_tdesc ts) 0 _ (plh_fresh_numbered version d)) as [E _].
  rewrite E. now rewrite <- app_assoc.
Qed.

Theorem pl_header_shape version argv g ts h : pl_header version argv g ts = Some h ->
  exists d, pl_fdesc g = Some d /\
  h = plh_render (plh_fresh version d ++ number_from 0 (flat_map pl_tdesc ts)
                  ++ [(KO "command line", ("cnfgen " ++ plh_join " " argv)%string)]).
Proof.
  unfold pl_header. destruct (pl_fdesc g) as [d|]; [|discriminate]. intros H. inversion H; subst.
  exists d. split; [reflexivity|]. now rewrite plh_final_shape.
Qed.

Theorem cnfgen_main_env_fast_eq version argv : cnfgen_main_env_fast version argv = cnfgen_main_env version argv.
Proof. unfold cnfgen_main_env_fast, cnfgen_main_env. now rewrite pl_formula_fast_eq. Qed.
