(* Property C08 at the level of the TOOLS: `pbgen_main : argv -> bytes` (coq/PipelinePb.v) next to
   `cnfgen_main : argv -> bytes` (coq/Pipeline.v).  argv is sys.argv[1:].  Statements only; proofs in
   PipelinePbFacts.v.  Tied to the real `pbgen` byte for byte by harness/c08_pipeline.py.

   The two programs share the sub-command parsers and the family models; they differ in
     -T <transformation> ...     cnfgen only   (pbgen: a token -T anywhere is a command line error: pbgen_rejects_T)
     -of dimacs                  cnfgen only   (pbgen: an invalid choice: pbgen_rejects_of_dimacs; default of pbgen: opb)
     the formula class (CNF / OPB), the comment character and the program name in the header.
   [noT argv]: no token of argv is -T.  [plb_of_dimacs toks]: the run of options in front of the formula name
   (-q --quiet -v --verbose, -of/--output-format opb) reaches `-of dimacs`.  On every other argv the two programs
   accept, reject and step outside the grammar together (tools_accept_same). *)
From Coq Require Import ZArith List Bool Ascii String.
From Cnfgen Require Import Sem Comb Linear IR Text Dimacs DimacsFacts OpbText OpbTextFacts Cli GraphSpec FamRange_Util.
From Cnfgen Require Import Header PipelineGraph Pipeline PipelineFacts PipelineHeader PipelinePb PipelinePbFacts.
Import ListNotations.
Open Scope Z_scope.

(* ------------------------------------------------------------------ *)
(* same variables, same models                                         *)
(* ------------------------------------------------------------------ *)
(* for EVERY argv on which both programs write something: there is ONE list l of builder calls and one n such that
   cnfgen writes the text of (n, to_cnf l), pbgen the text of (n, to_opb l); each text reads back (strict readers of
   the two formats) as exactly that formula; the two formulas have the same number of variables n and, for every
   assignment, the CNF is satisfied iff the pseudo-Boolean formula is.
   `printable z`: z has at most 4300 decimal digits; `opb_printable`: so have n, the number of constraints, every
   coefficient and every degree. *)
Theorem tools_same_variables_and_models : forall argv tc tp,
  cnfgen_main argv = POut tc -> pbgen_main argv = POut tp ->
  exists n l,
    pl_formula argv = FrOk n (to_cnf l) /\ plb_formula argv = PbOk n (to_opb l) /\
    tc = pl_write (pl_opb_of argv) None n (to_cnf l) /\ tp = plb_write None n (to_opb l) /\
    (printable n -> printable (len (to_cnf l)) -> pl_reads_back (pl_opb_of argv) tc n (to_cnf l)) /\
    (opb_printable (FOpb n (to_opb l)) -> parse_opb tp = OOk n (to_opb l)) /\
    forall a, cnf_sat a (to_cnf l) = opb_sat a (to_opb l).
Proof. exact tools_same_variables_and_models_proved. Qed.
Print Assumptions tools_same_variables_and_models.

(* the formula object of cnfgen is a rendering of the builder calls behind pbgen's, whenever pbgen writes something *)
Theorem tools_same_builder_calls : forall argv tp, pbgen_main argv = POut tp ->
  exists n l, plb_ir argv = RunIr (IrOk n l) /\ pl_formula argv = FrOk n (to_cnf l) /\ 0 <= n /\ lits_bounded n l.
Proof. exact tools_same_ir. Qed.
Print Assumptions tools_same_builder_calls.

(* one tool accepts argv iff the other does, on the common grammar *)
Theorem tools_accept_same : forall argv, noT argv -> plb_of_dimacs (map lit argv) = false ->
  ((exists t, cnfgen_main argv = POut t) <-> (exists t, pbgen_main argv = POut t)) /\
  (cnfgen_main argv = PCliError <-> pbgen_main argv = PCliError) /\
  (cnfgen_main argv = POutside <-> pbgen_main argv = POutside).
Proof. exact tools_accept_same_proved. Qed.
Print Assumptions tools_accept_same.

(* the options that exist in cnfgen only are command line errors of pbgen, whatever else the command line contains
   (ASCII tokens: the grammar of both models) *)
Theorem pbgen_rejects_transformations : forall argv,
  forallb pl_is_ascii (map lit argv) = true -> In "-T"%string argv -> pbgen_main argv = PCliError.
Proof. exact pbgen_rejects_T. Qed.
Print Assumptions pbgen_rejects_transformations.

Theorem pbgen_rejects_dimacs_format : forall argv,
  forallb pl_is_ascii (map lit argv) = true -> plb_of_dimacs (map lit argv) = true -> pbgen_main argv = PCliError.
Proof. exact pbgen_rejects_of_dimacs. Qed.
Print Assumptions pbgen_rejects_dimacs_format.

(* the model of cnfgen is, sub-command by sub-command, a rendering of the builder calls [plb_ir_of] *)
Theorem cnfgen_builds_rendering : forall render c, pl_build_with render c = plb_rendered render (plb_ir_of c).
Proof. exact pl_build_via_ir. Qed.
Print Assumptions cnfgen_builds_rendering.

(* ------------------------------------------------------------------ *)
(* pbgen alone: totality and round trip                                *)
(* ------------------------------------------------------------------ *)
(* for EVERY list of strings: a text, a clean command line error, or "outside the token grammar" *)
Theorem pbgen_total : forall argv,
  (exists text, pbgen_main argv = POut text) \/ pbgen_main argv = PCliError \/ pbgen_main argv = POutside.
Proof. exact pbgen_main_total. Qed.
Print Assumptions pbgen_total.

Theorem pbgen_never_crashes : forall argv, plb_formula argv <> PbCrash.
Proof. exact plb_formula_no_crash. Qed.
Print Assumptions pbgen_never_crashes.

(* whatever is written is the OPB rendering of the builder calls of the family model, every literal is a variable of
   1..n or its negation, and a strict reader of the format returns exactly (n, constraints in order) *)
Theorem pbgen_roundtrip : forall argv text, pbgen_main argv = POut text ->
  exists n l, plb_ir argv = RunIr (IrOk n l) /\ plb_formula argv = PbOk n (to_opb l) /\
              text = plb_write None n (to_opb l) /\ 0 <= n /\ lits_bounded n l /\
              (opb_printable (FOpb n (to_opb l)) -> parse_opb text = OOk n (to_opb l)).
Proof. exact pbgen_main_roundtrip. Qed.
Print Assumptions pbgen_roundtrip.

(* ------------------------------------------------------------------ *)
(* without -q: the comment header                                      *)
(* ------------------------------------------------------------------ *)
Theorem pbgen_env_total : forall version argv,
  (exists text, pbgen_main_env version argv = POut text) \/ pbgen_main_env version argv = PCliError \/
  pbgen_main_env version argv = POutside.
Proof. exact pbgen_main_env_total. Qed.
Print Assumptions pbgen_env_total.

Theorem pbgen_env_extends_quiet_variant : forall version argv t, pbgen_main argv = POut t -> pbgen_main_env version argv = POut t.
Proof. exact pbgen_env_extends_quiet. Qed.
Print Assumptions pbgen_env_extends_quiet_variant.

Theorem pbgen_env_errors : forall version argv, pbgen_main_env version argv = PCliError <-> pbgen_main argv = PCliError.
Proof. exact pbgen_env_error_iff. Qed.
Print Assumptions pbgen_env_errors.

(* with the header in front the text still reads back as exactly the formula *)
Theorem pbgen_env_roundtrip : forall version argv text, pbgen_main_env version argv = POut text ->
  exists n l hh, plb_ir argv = RunIr (IrOk n l) /\ plb_header_choice version argv = Some hh /\
                 text = plb_write hh n (to_opb l) /\ 0 <= n /\ lits_bounded n l /\
                 (opb_printable (FOpb n (to_opb l)) -> parse_opb text = OOk n (to_opb l)).
Proof. exact pbgen_main_env_roundtrip. Qed.
Print Assumptions pbgen_env_roundtrip.

(* description, generator, copyright, url of the generated formula, then the command line of pbgen *)
Theorem pbgen_header_shape : forall version argv g h, plb_header version argv g = Some h ->
  exists d, pl_fdesc g = Some d /\
  h = plh_render (List.app (plh_fresh version d) [(KO "command line", String.append "pbgen " (plh_join " " argv))]).
Proof. exact plb_header_shape. Qed.
Print Assumptions pbgen_header_shape.

(* ------------------------------------------------------------------ *)
(* the hypotheses are satisfiable, every outcome occurs                *)
(* ------------------------------------------------------------------ *)
Example pbgen_nonvacuous :
  pbgen_main ["-q"; "php"; "3"; "2"]%string = POut (lit "* #variable= 6 #constraint= 5
+1 x1 +1 x2 >= 1
+1 x3 +1 x4 >= 1
+1 x5 +1 x6 >= 1
+1 ~x1 +1 ~x3 +1 ~x5 >= 2
+1 ~x2 +1 ~x4 +1 ~x6 >= 2
") /\
  pbgen_main ["-q"; "parity"; "4"]%string = POut (lit "* #variable= 6 #constraint= 4
+1 x1 +1 x2 +1 x3 = 1
+1 x1 +1 x4 +1 x5 = 1
+1 x2 +1 x4 +1 x6 = 1
+1 x3 +1 x5 +1 x6 = 1
") /\
  pbgen_main ["-q"; "-of"; "opb"; "php"; "2"; "1"]%string = POut (lit "* #variable= 2 #constraint= 3
+1 x1 >= 1
+1 x2 >= 1
+1 ~x1 +1 ~x2 >= 1
") /\
  pbgen_main ["-q"; "-of"; "dimacs"; "php"; "2"; "1"]%string = PCliError /\
  pbgen_main ["-q"; "php"; "2"; "1"; "-T"; "xor"; "2"]%string = PCliError /\
  pbgen_main ["-q"; "op"; "3"; "--total"; "--smart"]%string = PCliError /\
  pbgen_main ["-q"]%string = PCliError /\
  pbgen_main ["-q"; "php"; "--help"]%string = POutside /\
  pbgen_main ["php"; "2"; "1"]%string = POutside /\
  pbgen_main_env "0.9.1" ["php"; "2"; "1"]%string = POut (lit "* #variable= 2 #constraint= 3
* description: Pigeonhole principle formula for 2 pigeons and 1 holes
* generator: CNFgen (0.9.1)
* copyright: (C) 2012-2022 Massimo Lauria <massimo.lauria@uniroma1.it>
* url: https://massimolauria.net/cnfgen
* command line: pbgen php 2 1
*
+1 x1 >= 1
+1 x2 >= 1
+1 ~x1 +1 ~x2 >= 1
") /\
  (exists tc tp, cnfgen_main ["-q"; "php"; "3"; "2"]%string = POut tc /\ pbgen_main ["-q"; "php"; "3"; "2"]%string = POut tp) /\
  noT ["-q"; "php"; "3"; "2"]%string /\
  plb_of_dimacs (map lit ["-q"; "php"; "3"; "2"]%string) = false /\
  plb_of_dimacs (map lit ["-q"; "--output-format"; "opb"; "-of"; "dimacs"; "php"; "3"; "2"]%string) = true /\
  (exists l, plb_ir ["-q"; "php"; "3"; "2"]%string = RunIr (IrOk 6 l) /\ to_cnf l <> map (fun c => map snd (pb_terms c)) (to_opb l)).
Proof.
  repeat split; try (vm_compute; reflexivity).
  - eexists; eexists. split; vm_compute; reflexivity.
  - intros [H|[H|[H|[H|[]]]]]; discriminate.
  - eexists. split; [vm_compute; reflexivity|]. vm_compute. discriminate.
Qed.
