(* Property C10 — every formula mentions only variables it owns, and allocates them
   freshly.  Generic statements (any family is a list of builder calls; any run is a
   history of allocation operations); the per-family "number of variables =
   documented formula" statements live with the family theorems (Prop_C01..C03) and
   the per-transformation ones in Prop_C05 (composes: exactly nv variables, literals
   within 1..nv) and Prop_C09 (shuffle keeps the count). *)
From Coq Require Import ZArith List Bool.
From Cnfgen Require Import Sem Comb Linear IR Alloc SemFacts LinearFacts IRFacts IRRange AllocFacts.
Import ListNotations.
Open Scope Z_scope.

(* for EVERY list of builder calls: the CNF rendering mentions only non-zero
   literals whose variable is at most the largest variable the calls mention *)
Theorem C10_rendering_in_range : forall n l,
  irs_ok l = true -> irs_max_var l <= n -> lits_in_range n (to_cnf l) = true.
Proof. exact to_cnf_in_range. Qed.
Print Assumptions C10_rendering_in_range.

(* ... and so does the pseudo-Boolean rendering (class OPB) *)
Theorem C10_opb_rendering_in_range : forall n l,
  irs_ok l = true -> irs_max_var l <= n -> opb_in_range n (to_opb l) = true.
Proof. exact to_opb_in_range. Qed.
Print Assumptions C10_opb_rendering_in_range.

(* the certificate checker run (extracted) on the builder calls of an instance is sound *)
Theorem C10_checker_sound : forall n l, irs_in_range n l = true -> lits_in_range n (to_cnf l) = true.
Proof. exact irs_in_range_sound. Qed.
Print Assumptions C10_checker_sound.

(* for EVERY history of group creations, checked and (in-range) unchecked clause
   insertions and explicit raises, starting from the empty formula: *)
Theorem C10_history_invariant : forall ops s', arun ast0 ops = Some s' -> 0 <= a_mentioned s' <= a_numvar s'.
Proof. exact (fun ops s' E => arun_inv ops ast0 s' (conj (Z.le_refl 0) (Z.le_refl 0)) E). Qed.
Print Assumptions C10_history_invariant.

Theorem C10_fresh_allocation : forall ops s', arun ast0 ops = Some s' ->
  a_mentioned s' < first_id s' /\ a_numvar s' < first_id s'.
Proof. exact fresh_after_any_history. Qed.
Print Assumptions C10_fresh_allocation.

Theorem C10_numvar_monotone : forall ops s s', arun s ops = Some s' -> a_numvar s <= a_numvar s'.
Proof. exact arun_mono. Qed.
Print Assumptions C10_numvar_monotone.

Example C10_nonvacuous :
  arun ast0 [AGroup 6; AClause [1; -6] false; ARaise 9; AClause [12; -3] true; AGroup 2] = Some (mkast 14 12) /\
  arun ast0 [AGroup 2; AClause [5] false] = None /\
  irs_in_range 6 [IClause [1; -6]; ILin [2; 3; 4] CLe 1] = true /\
  irs_in_range 5 [IClause [1; -6]] = false.
Proof. vm_compute. repeat split. Qed.
