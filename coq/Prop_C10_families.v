(* Property C10, per family — "In every formula returned by a family every literal is a
   non-zero integer whose variable lies between 1 and the declared number of variables,
   and the declared number equals what the documentation of the family promises."

   For EVERY family model (all parameters, all graphs satisfying the well-formedness
   predicate the family's characterisation theorem uses):
     C10_<family>_in_range : lits_in_range (numvar p) (to_cnf (ir p)) = true
     C10_<family>_numvar   : numvar p = the closed formula of the documentation
   Proofs: FamRange_Util.v (transfer from the literals of the builder calls to the CNF
   rendering), FamRange_C01.v, FamRange_C02.v, FamRange_C03.v.  The generic statements
   (any list of builder calls, any allocation history) are in Prop_C10.v.
   [lits_in_range n F] (Sem.v) = every literal l of every clause of F has l <> 0 and |l| <= n. *)
From Coq Require Import ZArith List Bool.
From Cnfgen Require Import Sem Comb Linear IR
  FamTab Fam_php Fam_count Fam_subsetcard Fam_cliquecol Cli
  C02Common Fam_tseitin Fam_coloring Fam_domset Fam_iso Fam_subgraph
  C03_Util Fam_ordering Fam_pebbling Fam_cpls Fam_pitfall Fam_ramsey
  FamRange_Util FamRange_C01 FamRange_C02 FamRange_C03.
Import ListNotations.
Open Scope Z_scope.

(* ====================================================================== *)
(* C01: pigeonhole, counting, matching, subset cardinality, clique-colouring *)
(* ====================================================================== *)

(* ---- PigeonholePrinciple(m, n, functional, onto): m*n variables ---- *)
Theorem C10_php_in_range : forall m n f o, lits_in_range (php_numvar m n) (to_cnf (php_ir m n f o)) = true.
Proof. exact php_range. Qed.
Print Assumptions C10_php_in_range.
Theorem C10_php_numvar : forall m n, php_numvar m n = m * n.
Proof. exact php_numvar_doc. Qed.
Print Assumptions C10_php_numvar.

(* ---- GraphPigeonholePrinciple(G, functional, onto): one variable per edge ---- *)
Theorem C10_gphp_in_range : forall adj R f o, lits_in_range (gphp_numvar adj) (to_cnf (gphp_ir adj R f o)) = true.
Proof. exact gphp_range. Qed.
Print Assumptions C10_gphp_in_range.
(* [bip_edges adj] = sum of the lengths of the adjacency lists *)
Theorem C10_gphp_numvar : forall adj, gphp_numvar adj = bip_edges adj.
Proof. exact gphp_numvar_doc. Qed.
Print Assumptions C10_gphp_numvar.

(* ---- BinaryPigeonholePrinciple(m, n): m * ceil(log2 n) variables ---- *)
Theorem C10_bphp_in_range : forall m n, lits_in_range (bphp_numvar m n) (to_cnf (bphp_ir m n)) = true.
Proof. exact bphp_range. Qed.
Print Assumptions C10_bphp_in_range.
Theorem C10_bphp_numvar : forall m n, bphp_numvar m n = m * Z.log2_up n.
Proof. exact bphp_numvar_doc. Qed.
Print Assumptions C10_bphp_numvar.
(* the documented behaviour on the whole documented domain m, n >= 0 (repair of D30) *)
Theorem C10_bphp_spec_in_range : forall m n, lits_in_range (bphp_spec_numvar m n) (to_cnf (bphp_spec_ir m n)) = true.
Proof. exact bphp_spec_range. Qed.
Print Assumptions C10_bphp_spec_in_range.
Theorem C10_bphp_spec_numvar : forall m n, 1 <= m -> 1 <= n -> bphp_spec_numvar m n = m * Z.log2_up n.
Proof. exact bphp_spec_numvar_doc. Qed.
Print Assumptions C10_bphp_spec_numvar.

(* ---- RelativizedPigeonholePrinciple(m, r, n): p (m x r), q (r x n), r (r) ---- *)
Theorem C10_rphp_in_range : forall m r n, rphp_valid m r n = true ->
  lits_in_range (rphp_numvar m r n) (to_cnf (rphp_ir m r n)) = true.
Proof. exact rphp_range. Qed.
Print Assumptions C10_rphp_in_range.
Theorem C10_rphp_numvar : forall m r n, rphp_numvar m r n = m * r + r * n + r.
Proof. exact rphp_numvar_doc. Qed.
Print Assumptions C10_rphp_numvar.

(* ---- CountingPrinciple(M, p): one variable per p-subset of 1..M, C(M,p) of them ---- *)
Theorem C10_count_in_range : forall M p, lits_in_range (count_numvar M p) (to_cnf (count_ir M p)) = true.
Proof. exact count_range. Qed.
Print Assumptions C10_count_in_range.
(* [binom] (Cli.v) is Pascal's recurrence *)
Theorem C10_count_numvar : forall M p, count_numvar M p = Cli.binom (Z.to_nat M) (Z.to_nat p).
Proof. exact count_numvar_doc. Qed.
Print Assumptions C10_count_numvar.

(* ---- PerfectMatchingPrinciple(G): one variable per edge ---- *)
Theorem C10_matching_in_range : forall n es, lits_in_range (matching_numvar es) (to_cnf (matching_ir n es)) = true.
Proof. exact matching_range. Qed.
Print Assumptions C10_matching_in_range.
Theorem C10_matching_numvar : forall es, matching_numvar es = len es.
Proof. exact matching_numvar_doc. Qed.
Print Assumptions C10_matching_numvar.

(* ---- SubsetCardinalityFormula(B, equalities): one variable per edge ---- *)
Theorem C10_subsetcard_in_range : forall adj R eq,
  lits_in_range (subsetcard_numvar adj) (to_cnf (subsetcard_ir adj R eq)) = true.
Proof. exact subsetcard_range. Qed.
Print Assumptions C10_subsetcard_in_range.
Theorem C10_subsetcard_numvar : forall adj, subsetcard_numvar adj = bip_edges adj.
Proof. exact subsetcard_numvar_doc. Qed.
Print Assumptions C10_subsetcard_numvar.

(* ---- CliqueColoring(n, k, c): e (pairs), q (k x n), r (n x c) ---- *)
Theorem C10_cliquecol_in_range : forall n k c, cc_valid n k c = true ->
  lits_in_range (cc_numvar n k c) (to_cnf (cliquecol_ir n k c)) = true.
Proof. exact cliquecol_range. Qed.
Print Assumptions C10_cliquecol_in_range.
Theorem C10_cliquecol_numvar : forall n k c, 0 <= n -> cc_numvar n k c = n * (n - 1) / 2 + k * n + n * c.
Proof. exact cliquecol_numvar_doc. Qed.
Print Assumptions C10_cliquecol_numvar.

(* hypotheses are satisfiable, the formulas are not empty, and the bound is tight
   (one variable less is not enough) *)
Example C10_families_C01_nonvacuous :
  rphp_valid 2 2 2 = true /\ cc_valid 3 2 2 = true /\
  to_cnf (rphp_ir 2 2 2) <> [] /\ to_cnf (cliquecol_ir 3 2 2) <> [] /\
  lits_in_range (php_numvar 3 2 - 1) (to_cnf (php_ir 3 2 true true)) = false /\
  lits_in_range (gphp_numvar [[1; 2]; [2]] - 1) (to_cnf (gphp_ir [[1; 2]; [2]] 2 false false)) = false /\
  lits_in_range (bphp_numvar 3 4 - 1) (to_cnf (bphp_ir 3 4)) = false /\
  lits_in_range (rphp_numvar 2 2 2 - 1) (to_cnf (rphp_ir 2 2 2)) = false /\
  lits_in_range (count_numvar 4 2 - 1) (to_cnf (count_ir 4 2)) = false /\
  lits_in_range (matching_numvar [(1, 2); (2, 3)] - 1) (to_cnf (matching_ir 3 [(1, 2); (2, 3)])) = false /\
  lits_in_range (subsetcard_numvar [[1; 2]; [2]] - 1) (to_cnf (subsetcard_ir [[1; 2]; [2]] 2 false)) = false /\
  lits_in_range (cc_numvar 3 2 2 - 1) (to_cnf (cliquecol_ir 3 2 2)) = false /\
  count_numvar 4 2 = 6 /\ bip_edges [[1; 2]; [2]] = 3.
Proof. vm_compute. repeat split; discriminate. Qed.

(* ====================================================================== *)
(* C02: graph problems (tseitin, colouring, dominating set, isomorphism, subgraph) *)
(* ====================================================================== *)
(* A generator returning [option (list ir)]: [None] = the Python code raises ValueError.
   Hypotheses: [C02Common.edges_ok n E = true] (every edge (u,v) has 1 <= u < v <= n) or
   [C02Common.graph_wf n E = true] (what every cnfgen Graph satisfies) - the hypotheses of the T1
   theorems of Prop_C02.v; most families need none.  iso_nontrivial and ramlb (= ramlb_spec) are the
   DOCUMENTED variants of Fam_iso.v / Fam_subgraph.v, ramlb_as_is is the code as it is.  ramlb_spec
   needs 0 <= N (with N < 0 and k >= 1 the guard literal on the selector variable would be emitted
   while 1 + k*N + s*N may be below 1). *)
(* ---------------- tseitin ---------------- *)
Theorem C10_tseitin_in_range : forall n E ch,
  lits_in_range (tseitin_numvar E) (to_cnf (tseitin_ir n E ch)) = true.
Proof. exact tseitin_in_range. Qed.
Print Assumptions C10_tseitin_in_range.
Theorem C10_tseitin_numvar : forall E, tseitin_numvar E = len E.
Proof. exact tseitin_numvar_doc. Qed.
Print Assumptions C10_tseitin_numvar.

(* ---------------- kcolor ---------------- *)
Theorem C10_kcolor_in_range : forall n E k fn l, C02Common.edges_ok n E = true -> kcolor_ir n E k fn = Some l ->
  lits_in_range (kcolor_numvar n k) (to_cnf l) = true.
Proof. exact kcolor_in_range. Qed.
Print Assumptions C10_kcolor_in_range.
Theorem C10_kcolor_numvar : forall n k, kcolor_numvar n k = n * k.
Proof. exact kcolor_numvar_doc. Qed.
Print Assumptions C10_kcolor_numvar.

(* ---------------- ec ---------------- *)
Theorem C10_ec_in_range : forall n E l, ec_ir n E = Some l ->
  lits_in_range (ec_numvar E) (to_cnf l) = true.
Proof. exact ec_in_range. Qed.
Print Assumptions C10_ec_in_range.
Theorem C10_ec_numvar : forall E, ec_numvar E = len E.
Proof. exact ec_numvar_doc. Qed.
Print Assumptions C10_ec_numvar.

(* ---------------- domset (both encodings) ---------------- *)
Theorem C10_domset_in_range : forall n E d alt l, C02Common.graph_wf n E = true -> domset_ir n E d alt = Some l ->
  lits_in_range (domset_numvar n d) (to_cnf l) = true.
Proof. exact domset_in_range. Qed.
Print Assumptions C10_domset_in_range.
Theorem C10_domset_numvar : forall n d, domset_numvar n d = n + n * d.
Proof. exact domset_numvar_doc. Qed.
Print Assumptions C10_domset_numvar.

(* ---------------- tiling ---------------- *)
Theorem C10_tiling_in_range : forall n E, C02Common.edges_ok n E = true ->
  lits_in_range (tiling_numvar n) (to_cnf (tiling_ir n E)) = true.
Proof. exact tiling_in_range. Qed.
Print Assumptions C10_tiling_in_range.
Theorem C10_tiling_numvar : forall n, tiling_numvar n = n.
Proof. exact tiling_numvar_doc. Qed.
Print Assumptions C10_tiling_numvar.

(* ---------------- iso ---------------- *)
Theorem C10_iso_in_range : forall n1 E1 n2 E2,
  lits_in_range (iso_numvar n1 n2) (to_cnf (iso_ir n1 E1 n2 E2)) = true.
Proof. exact iso_in_range. Qed.
Print Assumptions C10_iso_in_range.
Theorem C10_iso_numvar : forall n1 n2, iso_numvar n1 n2 = n1 * n2.
Proof. exact iso_numvar_doc. Qed.
Print Assumptions C10_iso_numvar.

(* ---------------- auto ---------------- *)
Theorem C10_auto_in_range : forall n E,
  lits_in_range (iso_numvar n n) (to_cnf (auto_ir n E)) = true.
Proof. exact auto_in_range. Qed.
Print Assumptions C10_auto_in_range.
Theorem C10_auto_numvar : forall n, iso_numvar n n = n * n.
Proof. exact auto_numvar_doc. Qed.
Print Assumptions C10_auto_numvar.

(* ---------------- iso_nontrivial (documented variant) ---------------- *)
Theorem C10_iso_nontrivial_in_range : forall n1 E1 n2 E2,
  lits_in_range (iso_numvar n1 n2) (to_cnf (iso_nontrivial_ir n1 E1 n2 E2)) = true.
Proof. exact iso_nontrivial_in_range. Qed.
Print Assumptions C10_iso_nontrivial_in_range.
Theorem C10_iso_nontrivial_numvar : forall n1 n2, iso_numvar n1 n2 = n1 * n2.
Proof. exact iso_numvar_doc. Qed.
Print Assumptions C10_iso_nontrivial_numvar.

(* ---------------- subgraph ---------------- *)
Theorem C10_subgraph_in_range : forall N EG k EH ind sb,
  lits_in_range (subgraph_numvar N k) (to_cnf (subgraph_ir N EG k EH ind sb)) = true.
Proof. exact subgraph_in_range. Qed.
Print Assumptions C10_subgraph_in_range.
Theorem C10_subgraph_numvar : forall N k, subgraph_numvar N k = k * N.
Proof. exact subgraph_numvar_doc. Qed.
Print Assumptions C10_subgraph_numvar.

(* ---------------- kclique ---------------- *)
Theorem C10_kclique_in_range : forall N E k sb l, kclique_ir N E k sb = Some l ->
  lits_in_range (kclique_numvar N k) (to_cnf l) = true.
Proof. exact kclique_in_range. Qed.
Print Assumptions C10_kclique_in_range.
Theorem C10_kclique_numvar : forall N k, kclique_numvar N k = k * N.
Proof. exact kclique_numvar_doc. Qed.
Print Assumptions C10_kclique_numvar.

(* ---------------- kcliquebin ---------------- *)
Theorem C10_kcliquebin_in_range : forall N E k sb l, kcliquebin_ir N E k sb = Some l ->
  lits_in_range (kcliquebin_numvar N k) (to_cnf l) = true.
Proof. exact kcliquebin_in_range. Qed.
Print Assumptions C10_kcliquebin_in_range.
Theorem C10_kcliquebin_numvar : forall N k, kcliquebin_numvar N k = k * Z.log2_up N.
Proof. exact kcliquebin_numvar_doc. Qed.
Print Assumptions C10_kcliquebin_numvar.

(* ---------------- ramlb (documented variant ramlb_spec) ---------------- *)
Theorem C10_ramlb_in_range : forall N E k s sb l, 0 <= N -> ramlb_spec N E k s sb = Some l ->
  lits_in_range (ramlb_spec_numvar N k s) (to_cnf l) = true.
Proof. exact ramlb_spec_in_range. Qed.
Print Assumptions C10_ramlb_in_range.
Theorem C10_ramlb_numvar : forall N k s, ramlb_spec_numvar N k s = 1 + k * N + s * N.
Proof. exact ramlb_spec_numvar_doc. Qed.
Print Assumptions C10_ramlb_numvar.

(* ---------------- ramlb, the code as it is ---------------- *)
Theorem C10_ramlb_as_is_in_range : forall N E k s sb l, ramlb_as_is N E k s sb = Some l ->
  lits_in_range (ramlb_as_is_numvar N k s) (to_cnf l) = true.
Proof. exact ramlb_as_is_in_range. Qed.
Print Assumptions C10_ramlb_as_is_in_range.
Theorem C10_ramlb_as_is_numvar : forall N k s, ramlb_as_is_numvar N k s = 1 + k * N.
Proof. exact ramlb_as_is_numvar_doc. Qed.
Print Assumptions C10_ramlb_as_is_numvar.

(* ---------------- the hypotheses are satisfiable, the Some-branches are reached ---------------- *)
(* path 1-2-3, triangle 1-2-3, 4-cycle; every instance has at least one builder call, and the bound
   is attained (the largest variable mentioned is exactly numvar) for the instances listed last *)
Example C10_families_C02_nonvacuous :
  C02Common.edges_ok 3 [(1,2);(2,3)] = true /\ C02Common.graph_wf 3 [(1,2);(2,3)] = true /\
  C02Common.graph_wf 3 [(1,2);(1,3);(2,3)] = true /\
  tseitin_ir 3 [(1,2);(2,3)] None <> [] /\
  (exists l, kcolor_ir 3 [(1,2);(2,3)] 2 true = Some l /\ l <> []) /\
  (exists l, ec_ir 4 [(1,2);(1,4);(2,3);(3,4)] = Some l /\ l <> []) /\
  (exists l, domset_ir 3 [(1,2);(2,3)] 1 false = Some l /\ l <> []) /\
  (exists l, domset_ir 3 [(1,2);(2,3)] 2 true = Some l /\ l <> []) /\
  tiling_ir 3 [(1,2);(2,3)] <> [] /\
  iso_ir 3 [(1,2);(2,3)] 3 [(1,3);(2,3)] <> [] /\
  auto_ir 3 [(1,2);(2,3)] <> [] /\
  iso_nontrivial_ir 3 [(1,2);(2,3)] 3 [(1,3);(2,3)] <> [] /\
  subgraph_ir 3 [(1,2);(2,3)] 2 [(1,2)] true false <> [] /\
  (exists l, kclique_ir 3 [(1,2);(1,3);(2,3)] 3 true = Some l /\ l <> []) /\
  (exists l, kcliquebin_ir 3 [(1,2);(1,3);(2,3)] 3 false = Some l /\ l <> []) /\
  (exists l, ramlb_spec 3 [(1,2);(2,3)] 2 2 false = Some l /\ l <> []) /\
  (exists l, ramlb_as_is 3 [(1,2);(2,3)] 2 2 true = Some l /\ l <> []) /\
  irs_max_var (tseitin_ir 3 [(1,2);(2,3)] None) = tseitin_numvar [(1,2);(2,3)] /\
  irs_max_var (iso_ir 3 [(1,2);(2,3)] 3 [(1,3);(2,3)]) = iso_numvar 3 3 /\
  irs_max_var (subgraph_ir 3 [(1,2);(2,3)] 2 [(1,2)] true false) = subgraph_numvar 3 2.
Proof.
  vm_compute.
  repeat split; try discriminate; try (eexists; split; [reflexivity|discriminate]).
Qed.

(* ====================================================================== *)
(* C03: ordering, pebbling / stone, cpls, pitfall, ramsey / van der Waerden / Pythagorean triples *)
(* ====================================================================== *)
(* A generator returning [c3res] (C03_Util.v): [C3Ok nv f] = a formula with [nv] declared variables
   and builder calls [f]; [C3Err e] = the Python code raises [e].  Graph hypotheses:
   [Fam_ordering.graph_ok nb = true] (gop: neighbours are vertices of the graph, no loops),
   [Fam_pebbling.bip_ok B R = true] (sstone: the stones allowed on a vertex are stones 1..R).  That the
   DAG is acyclic and that the availability graph has as many left vertices as the DAG is checked by
   the generator itself (error branch); pitfall needs no hypothesis on the edge list (the hard
   variables are numbered by position).  pitfall is stated for the intended copy function
   ([fixed = true], Fam_pitfall.shift_spec: the repaired variant) and for both settings of the
   argument validation; vdw is the code as it is, vdw_spec the documented behaviour. *)
(* ---------------- ordering principle ---------------- *)
Theorem C10_op_in_range : forall n total smart plant knuth nv f,
  op_formula n total smart plant knuth = C3Ok nv f -> lits_in_range nv (to_cnf f) = true.
Proof. exact op_in_range. Qed.
Print Assumptions C10_op_in_range.
Theorem C10_op_numvar : forall n total smart plant knuth nv f,
  op_formula n total smart plant knuth = C3Ok nv f ->
  nv = if smart then n * (n - 1) / 2 else n * (n - 1).
Proof. exact op_numvar_doc. Qed.
Print Assumptions C10_op_numvar.

(* ---------------- graph ordering principle ---------------- *)
Theorem C10_gop_in_range : forall nb total smart plant knuth nv f, Fam_ordering.graph_ok nb = true ->
  gop_formula nb total smart plant knuth = C3Ok nv f -> lits_in_range nv (to_cnf f) = true.
Proof. exact gop_in_range. Qed.
Print Assumptions C10_gop_in_range.
Theorem C10_gop_numvar : forall nb total smart plant knuth nv f,
  gop_formula nb total smart plant knuth = C3Ok nv f ->
  nv = if smart then len nb * (len nb - 1) / 2 else len nb * (len nb - 1).
Proof. exact gop_numvar_doc. Qed.
Print Assumptions C10_gop_numvar.

(* ---------------- pebbling ---------------- *)
Theorem C10_peb_in_range : forall D nv f,
  peb_formula D = C3Ok nv f -> lits_in_range nv (to_cnf f) = true.
Proof. exact peb_in_range. Qed.
Print Assumptions C10_peb_in_range.
Theorem C10_peb_numvar : forall D nv f, peb_formula D = C3Ok nv f -> nv = len D.
Proof. exact peb_numvar_doc. Qed.
Print Assumptions C10_peb_numvar.

(* ---------------- stone formula: stones + vertices * stones ---------------- *)
Theorem C10_stone_in_range : forall D R nv f,
  stone_formula D R = C3Ok nv f -> lits_in_range nv (to_cnf f) = true.
Proof. exact stone_in_range. Qed.
Print Assumptions C10_stone_in_range.
Theorem C10_stone_numvar : forall D R nv f, stone_formula D R = C3Ok nv f -> nv = R + len D * R.
Proof. exact stone_numvar_doc. Qed.
Print Assumptions C10_stone_numvar.

(* ---------------- sparse stone formula: stones + edges of the availability graph ---------------- *)
Theorem C10_sstone_in_range : forall D B R nv f, Fam_pebbling.bip_ok B R = true ->
  sstone_formula D B R = C3Ok nv f -> lits_in_range nv (to_cnf f) = true.
Proof. exact sstone_in_range. Qed.
Print Assumptions C10_sstone_in_range.
Theorem C10_sstone_numvar : forall D B R nv f,
  sstone_formula D B R = C3Ok nv f -> nv = R + prefix_len B (length B).
Proof. exact sstone_numvar_doc. Qed.
Print Assumptions C10_sstone_numvar.

(* ---------------- CPLS ---------------- *)
Theorem C10_cpls_in_range : forall a b c nv f,
  cpls_formula a b c = C3Ok nv f -> lits_in_range nv (to_cnf f) = true.
Proof. exact cpls_in_range. Qed.
Print Assumptions C10_cpls_in_range.
Theorem C10_cpls_numvar : forall a b c nv f, cpls_formula a b c = C3Ok nv f ->
  nv = a * b * c + a * b * Z.log2_up b + b * Z.log2_up c.
Proof. exact cpls_numvar_doc. Qed.
Print Assumptions C10_cpls_numvar.

(* ---------------- pitfall formula (intended copies) ---------------- *)
Theorem C10_pitfall_in_range : forall validated v d ny nz k E nv f,
  pitfall_formula true validated v d ny nz k E = C3Ok nv f -> lits_in_range nv (to_cnf f) = true.
Proof. exact pitfall_in_range. Qed.
Print Assumptions C10_pitfall_in_range.
Theorem C10_pitfall_numvar : forall fixed validated v d ny nz k E nv f,
  pitfall_formula fixed validated v d ny nz k E = C3Ok nv f ->
  nv = k * len E + k * ny + k * nz + k * (len E + nz) + k * 3.
Proof. exact pitfall_numvar_doc. Qed.
Print Assumptions C10_pitfall_numvar.

(* ---------------- Ramsey number ---------------- *)
Theorem C10_ram_in_range : forall s k N nv f,
  ram_formula s k N = C3Ok nv f -> lits_in_range nv (to_cnf f) = true.
Proof. exact ram_in_range. Qed.
Print Assumptions C10_ram_in_range.
Theorem C10_ram_numvar : forall s k N nv f, ram_formula s k N = C3Ok nv f -> nv = N * (N - 1) / 2.
Proof. exact ram_numvar_doc. Qed.
Print Assumptions C10_ram_numvar.

(* ---------------- van der Waerden: the code as it is ---------------- *)
Theorem C10_vdw_in_range : forall N ks nv f,
  vdw_formula N ks = C3Ok nv f -> lits_in_range nv (to_cnf f) = true.
Proof. exact vdw_in_range. Qed.
Print Assumptions C10_vdw_in_range.
Theorem C10_vdw_numvar : forall N ks nv f, vdw_formula N ks = C3Ok nv f ->
  nv = if len ks =? 2 then N else N * len ks.
Proof. exact vdw_numvar_doc. Qed.
Print Assumptions C10_vdw_numvar.

(* ---------------- van der Waerden: the documented behaviour ---------------- *)
Theorem C10_vdw_spec_in_range : forall N ks nv f,
  vdw_spec_formula N ks = C3Ok nv f -> lits_in_range nv (to_cnf f) = true.
Proof. exact vdw_spec_in_range. Qed.
Print Assumptions C10_vdw_spec_in_range.
Theorem C10_vdw_spec_numvar : forall N ks nv f, vdw_spec_formula N ks = C3Ok nv f ->
  nv = if len ks =? 2 then N else N * len ks.
Proof. exact vdw_spec_numvar_doc. Qed.
Print Assumptions C10_vdw_spec_numvar.

(* ---------------- Pythagorean triples ---------------- *)
Theorem C10_ptn_in_range : forall N nv f,
  ptn_formula N = C3Ok nv f -> lits_in_range nv (to_cnf f) = true.
Proof. exact ptn_in_range. Qed.
Print Assumptions C10_ptn_in_range.
Theorem C10_ptn_numvar : forall N nv f, ptn_formula N = C3Ok nv f -> nv = N.
Proof. exact ptn_numvar_doc. Qed.
Print Assumptions C10_ptn_numvar.

(* ---------------- the hypotheses are satisfiable, the C3Ok branches are reached ---------------- *)
(* path 1-2-3, pyramid DAG 1,2 -> 3, a sparse availability graph with 2 stones, the 4-cycle;
   [c3_nonempty]: the formula branch is reached with at least one clause; [c3_attains]: moreover the
   largest variable mentioned is exactly the declared number (the bound is tight). *)
Example C10_families_C03_nonvacuous :
  Fam_ordering.graph_ok [[2]; [1; 3]; [2]] = true /\
  Fam_pebbling.bip_ok [[1]; [2]; [1; 2]] 2 = true /\
  c3_nonempty (op_formula 3 false false false 0) = true /\
  c3_attains (op_formula 3 true true false 0) = true /\
  c3_nonempty (gop_formula [[2]; [1; 3]; [2]] false false false 0) = true /\
  c3_attains (gop_formula [[2]; [1; 3]; [2]] true false false 0) = true /\
  c3_attains (peb_formula [[]; []; [1; 2]]) = true /\
  c3_attains (stone_formula [[]; []; [1; 2]] 2) = true /\
  c3_attains (sstone_formula [[]; []; [1; 2]] [[1]; [2]; [1; 2]] 2) = true /\
  c3_attains (cpls_formula 2 2 2) = true /\
  c3_attains (pitfall_formula true true 4 2 2 2 2 [(1, 2); (1, 4); (2, 3); (3, 4)]) = true /\
  c3_attains (ram_formula 3 3 4) = true /\
  c3_attains (vdw_formula 5 [3; 3]) = true /\
  c3_attains (vdw_formula 4 [2; 2; 2]) = true /\
  c3_attains (vdw_spec_formula 3 [1; 2; 2]) = true /\
  c3_attains (ptn_formula 5) = true /\
  (exists nv f, op_formula 3 false false false 0 = C3Ok nv f /\ f <> []) /\
  (exists nv f, cpls_formula 2 2 2 = C3Ok nv f /\ f <> []).
Proof. vm_compute. repeat split; try (eexists; eexists; split; [reflexivity|discriminate]). Qed.
