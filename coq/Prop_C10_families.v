(* Property C10, per family — "In every formula returned by a family every literal is a
   non-zero integer whose variable lies between 1 and the declared number of variables,
   and the declared number equals what the documentation of the family promises."

   For EVERY family model (all parameters, all graphs satisfying the well-formedness
   predicate the family's characterisation theorem uses):
     C10_<family>_in_range : lits_in_range (numvar p) (to_cnf (ir p)) = true
     C10_<family>_numvar   : numvar p = the closed formula of the documentation
   Proofs: FamRange_Util.v (transfer from the literals of the builder calls to the CNF
   rendering), FamRange_C01.v, FamRange_C02.v, FamRange_C03.v.  The generic statements
   (any list of builder calls, any allocation history) are in Prop_C10.v.
   [lits_in_range n F] (Sem.v) = every literal l of every clause of F has l <> 0 and |l| <= n. *)
From Coq Require Import ZArith List Bool.
From Cnfgen Require Import Sem Comb Linear IR FamTab Fam_php Fam_count Fam_subsetcard Fam_cliquecol Cli
  FamRange_Util FamRange_C01.
Import ListNotations.
Open Scope Z_scope.

(* ====================================================================== *)
(* C01: pigeonhole, counting, matching, subset cardinality, clique-colouring *)
(* ====================================================================== *)

(* ---- PigeonholePrinciple(m, n, functional, onto): m*n variables ---- *)
Theorem C10_php_in_range : forall m n f o, lits_in_range (php_numvar m n) (to_cnf (php_ir m n f o)) = true.
Proof. exact php_range. Qed.
Print Assumptions C10_php_in_range.
Theorem C10_php_numvar : forall m n, php_numvar m n = m * n.
Proof. exact php_numvar_doc. Qed.
Print Assumptions C10_php_numvar.

(* ---- GraphPigeonholePrinciple(G, functional, onto): one variable per edge ---- *)
Theorem C10_gphp_in_range : forall adj R f o, lits_in_range (gphp_numvar adj) (to_cnf (gphp_ir adj R f o)) = true.
Proof. exact gphp_range. Qed.
Print Assumptions C10_gphp_in_range.
(* [bip_edges adj] = sum of the lengths of the adjacency lists *)
Theorem C10_gphp_numvar : forall adj, gphp_numvar adj = bip_edges adj.
Proof. exact gphp_numvar_doc. Qed.
Print Assumptions C10_gphp_numvar.

(* ---- BinaryPigeonholePrinciple(m, n): m * ceil(log2 n) variables ---- *)
Theorem C10_bphp_in_range : forall m n, lits_in_range (bphp_numvar m n) (to_cnf (bphp_ir m n)) = true.
Proof. exact bphp_range. Qed.
Print Assumptions C10_bphp_in_range.
Theorem C10_bphp_numvar : forall m n, bphp_numvar m n = m * Z.log2_up n.
Proof. exact bphp_numvar_doc. Qed.
Print Assumptions C10_bphp_numvar.
(* the documented behaviour on the whole documented domain m, n >= 0 (repair of D30) *)
Theorem C10_bphp_spec_in_range : forall m n, lits_in_range (bphp_spec_numvar m n) (to_cnf (bphp_spec_ir m n)) = true.
Proof. exact bphp_spec_range. Qed.
Print Assumptions C10_bphp_spec_in_range.
Theorem C10_bphp_spec_numvar : forall m n, 1 <= m -> 1 <= n -> bphp_spec_numvar m n = m * Z.log2_up n.
Proof. exact bphp_spec_numvar_doc. Qed.
Print Assumptions C10_bphp_spec_numvar.

(* ---- RelativizedPigeonholePrinciple(m, r, n): p (m x r), q (r x n), r (r) ---- *)
Theorem C10_rphp_in_range : forall m r n, rphp_valid m r n = true ->
  lits_in_range (rphp_numvar m r n) (to_cnf (rphp_ir m r n)) = true.
Proof. exact rphp_range. Qed.
Print Assumptions C10_rphp_in_range.
Theorem C10_rphp_numvar : forall m r n, rphp_numvar m r n = m * r + r * n + r.
Proof. exact rphp_numvar_doc. Qed.
Print Assumptions C10_rphp_numvar.

(* ---- CountingPrinciple(M, p): one variable per p-subset of 1..M, C(M,p) of them ---- *)
Theorem C10_count_in_range : forall M p, lits_in_range (count_numvar M p) (to_cnf (count_ir M p)) = true.
Proof. exact count_range. Qed.
Print Assumptions C10_count_in_range.
(* [binom] (Cli.v) is Pascal's recurrence *)
Theorem C10_count_numvar : forall M p, count_numvar M p = binom (Z.to_nat M) (Z.to_nat p).
Proof. exact count_numvar_doc. Qed.
Print Assumptions C10_count_numvar.

(* ---- PerfectMatchingPrinciple(G): one variable per edge ---- *)
Theorem C10_matching_in_range : forall n es, lits_in_range (matching_numvar es) (to_cnf (matching_ir n es)) = true.
Proof. exact matching_range. Qed.
Print Assumptions C10_matching_in_range.
Theorem C10_matching_numvar : forall es, matching_numvar es = len es.
Proof. exact matching_numvar_doc. Qed.
Print Assumptions C10_matching_numvar.

(* ---- SubsetCardinalityFormula(B, equalities): one variable per edge ---- *)
Theorem C10_subsetcard_in_range : forall adj R eq,
  lits_in_range (subsetcard_numvar adj) (to_cnf (subsetcard_ir adj R eq)) = true.
Proof. exact subsetcard_range. Qed.
Print Assumptions C10_subsetcard_in_range.
Theorem C10_subsetcard_numvar : forall adj, subsetcard_numvar adj = bip_edges adj.
Proof. exact subsetcard_numvar_doc. Qed.
Print Assumptions C10_subsetcard_numvar.

(* ---- CliqueColoring(n, k, c): e (pairs), q (k x n), r (n x c) ---- *)
Theorem C10_cliquecol_in_range : forall n k c, cc_valid n k c = true ->
  lits_in_range (cc_numvar n k c) (to_cnf (cliquecol_ir n k c)) = true.
Proof. exact cliquecol_range. Qed.
Print Assumptions C10_cliquecol_in_range.
Theorem C10_cliquecol_numvar : forall n k c, 0 <= n -> cc_numvar n k c = n * (n - 1) / 2 + k * n + n * c.
Proof. exact cliquecol_numvar_doc. Qed.
Print Assumptions C10_cliquecol_numvar.

(* hypotheses are satisfiable, the formulas are not empty, and the bound is tight
   (one variable less is not enough) *)
Example C10_families_C01_nonvacuous :
  rphp_valid 2 2 2 = true /\ cc_valid 3 2 2 = true /\
  to_cnf (rphp_ir 2 2 2) <> [] /\ to_cnf (cliquecol_ir 3 2 2) <> [] /\
  lits_in_range (php_numvar 3 2 - 1) (to_cnf (php_ir 3 2 true true)) = false /\
  lits_in_range (gphp_numvar [[1; 2]; [2]] - 1) (to_cnf (gphp_ir [[1; 2]; [2]] 2 false false)) = false /\
  lits_in_range (bphp_numvar 3 4 - 1) (to_cnf (bphp_ir 3 4)) = false /\
  lits_in_range (rphp_numvar 2 2 2 - 1) (to_cnf (rphp_ir 2 2 2)) = false /\
  lits_in_range (count_numvar 4 2 - 1) (to_cnf (count_ir 4 2)) = false /\
  lits_in_range (matching_numvar [(1, 2); (2, 3)] - 1) (to_cnf (matching_ir 3 [(1, 2); (2, 3)])) = false /\
  lits_in_range (subsetcard_numvar [[1; 2]; [2]] - 1) (to_cnf (subsetcard_ir [[1; 2]; [2]] 2 false)) = false /\
  lits_in_range (cc_numvar 3 2 2 - 1) (to_cnf (cliquecol_ir 3 2 2)) = false /\
  count_numvar 4 2 = 6 /\ bip_edges [[1; 2]; [2]] = 3.
Proof. vm_compute. repeat split; discriminate. Qed.
