(* GraphSpec.v -- the GRAPH ARGUMENT of the command line.  Definitions only.

   Models (the tree in /repo as it is now)
     cnfgen/clitools/graph_args.py
       tables constructions / options / formats (pydot installed: `dot` is a format)   gs_constructions gs_options gs_formats
       construction_for_another_type, format_for_another_type                          gs_construction_elsewhere gs_format_elsewhere
       parse_graph_argument(graphtype, spec)   spec = list of tokens                   gs_parse
           consumenumbers / consumesaveinfo                                            gs_consume_numbers / gs_consume_saveinfo
       obtain_graph(parsed)  (dispatch, option phase, save)                            gs_obtain_graph, gs_validate
     cnfgen/clitools/graph_build.py
       obtain_gnp obtain_gnm obtain_gnd obtain_grid obtain_torus obtain_complete_simple obtain_empty_simple
       obtain_glrp obtain_glrm obtain_glrd obtain_bipartite_regular obtain_bipartite_shift obtain_complete_bipartite
       obtain_empty_bipartite obtain_tree obtain_pyramid obtain_path
       modify_simple_graph_plantclique modify_bipartite_graph_plantbiclique modify_graph_addedges modify_graph_splitedges
           -- their try/assert blocks, statement by statement, in an exception monad: every primitive raises the
              exception class CPython raises (unpacking: ValueError, None: TypeError, assert: AssertionError,
              x[0]: IndexError, a % 0: ZeroDivisionError, missing key: KeyError) and `gs_try` is the except clause
              with its tuple of caught classes.  What reaches the caller of make_graph_from_spec is
              ValueError (GSVErr, a clean command line error) or anything else (GSVCrash, a traceback).
     cnfgen/clitools/graph_fileinput.py  read_graph_from_input: format autodetection                gs_read_input
     cnfgen/graphs.py  _process_graph_io_arguments as used by writeGraph (format of a `save`)     gs_save_format
     posixpath.splitext(name)[-1][1:]                                                              gs_ext
     CPython 3.12  float(str) / int(str) on code points 0..255                                      gs_float / gs_int

   Grammar modelled for float(tok):  strip (code points 9-13, 32, 0x85, 0xa0 -- NOT 28-31); underscores are accepted only
   between two digits and removed; then  [+-]? ( "inf" | "infinity" | "nan"  (any letter case)
                                               | D+ ("." D* )? EXP?  |  "." D+ EXP? )     EXP = [eE] [+-]? D+
   and nothing else (no hexadecimal, no other alphabets).  The VALUE is kept exactly (sign, mantissa m, exponent e:
   m * 10^e) and the two comparisons the code makes with it, `0 <= p` and `p <= 1`, are decided as CPython does after
   rounding to the nearest double, ties to even: p <= 1 iff m*10^e <= 1 + 2^-53;  0 <= p iff p >= -2^-1075
   (below that magnitude a negative number is read as -0.0, and 0 <= -0.0 holds).  Assumes strtod is correctly rounded.
   int(tok): the same strip, then Text.parse_int ([+-]? D (_? D)*, at most 4300 digits).

   Abstracted
   * code points above 255 (other decimal digits are accepted by float()/int(); the harness does not send them);
   * the file system: opening the input file / the `save` file is assumed to succeed (OSError is a clean error as well);
     readGraph / writeGraph proper are the subject of C14; the graph read from a file is summarised by its order(s) [fo];
   * the generators: only the call they receive (gs_call) is produced; their preconditions are stated in GraphSpecFacts.v;
     the two checks that depend on the random graph (`addedges` beyond the missing edges, `splitedges` beyond the edges:
     ValueError raised inside the callee) are not part of argument validation;
   * memory: a graph with more vertices than the machine can hold (MemoryError / OverflowError) is outside the model;
   * of the callees only what obtain_graph can observe without the graph: split_random_edges raises TypeError on a graph
     that is not simple (reachable only from a dictionary the parser does not produce: gs_wf excludes it);
   * the key 'graphtype' of the parsed dictionary is always present (it is a record field);
   * error messages: one tag per `raise ValueError(...)` statement. *)
From Coq Require Import ZArith List Bool Ascii String.
From Cnfgen Require Import Text.
Import ListNotations.
Open Scope Z_scope.

(* ------------------------------------------------------------------ *)
(* text helpers                                                        *)
(* ------------------------------------------------------------------ *)
Fixpoint gs_teqb (a b : text) : bool :=
  match a, b with
  | [], [] => true
  | x :: a', y :: b' => Ascii.eqb x y && gs_teqb a' b'
  | _, _ => false
  end.
Definition gs_mem (x : text) (l : list text) : bool := existsb (gs_teqb x) l.
Definition gs_is_nil {A} (l : list A) : bool := match l with [] => true | _ => false end.

Definition gs_chr_minus : ascii := "-"%char.
Definition gs_chr_plus : ascii := "+"%char.
Definition gs_chr_dot : ascii := "."%char.
Definition gs_chr_us : ascii := "_"%char.
Definition gs_chr_slash : ascii := "/"%char.

(* white space stripped by float() and int() of a str *)
Definition gs_is_numspace (c : ascii) : bool :=
  let n := code c in ((9 <=? n) && (n <=? 13)) || (n =? 32) || (n =? 133) || (n =? 160).
Fixpoint gs_lstrip (s : text) : text :=
  match s with
  | [] => []
  | c :: r => if gs_is_numspace c then gs_lstrip r else s
  end.
Fixpoint gs_rstrip (s : text) : text :=
  match s with
  | [] => []
  | c :: r => match gs_rstrip r with
              | [] => if gs_is_numspace c then [] else [c]
              | r' => c :: r'
              end
  end.
Definition gs_strip (s : text) : text := gs_rstrip (gs_lstrip s).

(* ------------------------------------------------------------------ *)
(* int(tok)                                                            *)
(* ------------------------------------------------------------------ *)
Definition gs_int (s : text) : option Z := parse_int (gs_strip s).

(* ------------------------------------------------------------------ *)
(* float(tok)                                                          *)
(* ------------------------------------------------------------------ *)
Inductive gs_fval :=
| GSNan
| GSInf (neg : bool)
| GSDec (neg : bool) (m : Z) (e : Z).      (* (-1)^neg * m * 10^e, 0 <= m *)

Definition gs_lower (c : ascii) : ascii :=
  let n := code c in if (65 <=? n) && (n <=? 90) then chr (n + 32) else c.

(* _Py_string_to_number_with_underscores: an underscore needs a digit on both sides *)
Fixpoint gs_us_ok (prev : option ascii) (s : text) : bool :=
  match s with
  | [] => match prev with Some p => negb (Ascii.eqb p gs_chr_us) | None => true end
  | c :: r =>
    (if Ascii.eqb c gs_chr_us
     then match prev with Some p => is_digit p | None => false end
     else match prev with Some p => if Ascii.eqb p gs_chr_us then is_digit c else true | None => true end)
    && gs_us_ok (Some c) r
  end.
Definition gs_drop_us (s : text) : text := filter (fun c => negb (Ascii.eqb c gs_chr_us)) s.

Fixpoint gs_span_digits (s : text) : text * text :=
  match s with
  | [] => ([], [])
  | c :: r => if is_digit c then let dr := gs_span_digits r in (c :: fst dr, snd dr) else ([], s)
  end.
Fixpoint gs_digits_val (acc : Z) (ds : text) : Z :=
  match ds with
  | [] => acc
  | c :: r => gs_digits_val (10 * acc + (code c - 48)) r
  end.
Definition gs_sign (s : text) : bool * text :=
  match s with
  | c :: r => if Ascii.eqb c gs_chr_minus then (true, r)
              else if Ascii.eqb c gs_chr_plus then (false, r) else (false, s)
  | [] => (false, s)
  end.
Definition gs_is_e (c : ascii) : bool := Ascii.eqb c "e"%char || Ascii.eqb c "E"%char.

Definition gs_float_body (neg : bool) (s : text) : option gs_fval :=
  let ls := map gs_lower s in
  if gs_teqb ls (lit "inf") || gs_teqb ls (lit "infinity") then Some (GSInf neg)
  else if gs_teqb ls (lit "nan") then Some GSNan
  else
    let ip := gs_span_digits s in
    let fp := match snd ip with
              | c :: r => if Ascii.eqb c gs_chr_dot then gs_span_digits r else ([], snd ip)
              | [] => ([], [])
              end in
    if gs_is_nil (fst ip) && gs_is_nil (fst fp) then None
    else
      let m := gs_digits_val 0 (fst ip ++ fst fp) in
      let e0 := - Z.of_nat (List.length (fst fp)) in
      match snd fp with
      | [] => Some (GSDec neg m e0)
      | c :: r =>
        if gs_is_e c then
          let sg := gs_sign r in
          let ed := gs_span_digits (snd sg) in
          if negb (gs_is_nil (fst ed)) && gs_is_nil (snd ed)
          then let v := gs_digits_val 0 (fst ed) in Some (GSDec neg m (e0 + (if fst sg then - v else v)))
          else None
        else None
      end.

Definition gs_float (tok : text) : option gs_fval :=
  let t := gs_strip tok in
  if gs_us_ok None t then
    let sg := gs_sign (gs_drop_us t) in gs_float_body (fst sg) (snd sg)
  else None.
Definition gs_float_ok (tok : text) : bool := match gs_float tok with Some _ => true | None => false end.

(* float(tok) <= 1.0 *)
Definition gs_le_one (v : gs_fval) : bool :=
  match v with
  | GSNan => false
  | GSInf neg => neg
  | GSDec true _ _ => true
  | GSDec false m e =>
    if m =? 0 then true
    else if 0 <=? e then (m =? 1) && (e =? 0)
    else if Z.log2 m + 1 <=? 3 * (- e) then true             (* m < 8^(-e) < 10^(-e): the value is below 1 *)
    else m * 2 ^ 53 <=? (2 ^ 53 + 1) * 10 ^ (- e)
  end.
(* 0 <= float(tok) *)
Definition gs_ge_zero (v : gs_fval) : bool :=
  match v with
  | GSNan => false
  | GSInf neg => negb neg
  | GSDec false _ _ => true
  | GSDec true m e =>
    if m =? 0 then true                                       (* -0.0 *)
    else if -323 <=? e then false                             (* magnitude >= 10^-323 > 2^-1075 *)
    else if 325 + Z.log2 m <=? - e then true                  (* magnitude < 10^-324 < 2^-1075: read as -0.0 *)
    else m * 2 ^ 1075 <=? 10 ^ (- e)
  end.
Definition gs_in_unit (v : gs_fval) : bool := gs_ge_zero v && gs_le_one v.

(* ------------------------------------------------------------------ *)
(* os.path.splitext(name)[-1][1:]                                      *)
(* ------------------------------------------------------------------ *)
(* the part of the name after its last "/" *)
Fixpoint gs_basename_aux (cur : text) (s : text) : text :=
  match s with
  | [] => cur
  | c :: r => if Ascii.eqb c gs_chr_slash then gs_basename_aux r r else gs_basename_aux cur r
  end.
Definition gs_basename (s : text) : text := gs_basename_aux s s.
Fixpoint gs_drop_dots (s : text) : text :=
  match s with
  | c :: r => if Ascii.eqb c gs_chr_dot then gs_drop_dots r else s
  | [] => []
  end.
(* what follows the last dot of s, None when s has no dot *)
Fixpoint gs_after_last_dot (s : text) : option text :=
  match s with
  | [] => None
  | c :: r => match gs_after_last_dot r with
              | Some t => Some t
              | None => if Ascii.eqb c gs_chr_dot then Some r else None
              end
  end.
(* leading dots of the base name do not start an extension *)
Definition gs_ext (name : text) : text :=
  match gs_after_last_dot (gs_drop_dots (gs_basename name)) with
  | Some t => t
  | None => []
  end.

(* ------------------------------------------------------------------ *)
(* tables                                                              *)
(* ------------------------------------------------------------------ *)
Inductive gs_gtype := GSSimple | GSBipartite | GSDag | GSDigraph.
Definition gs_gtype_eqb (a b : gs_gtype) : bool :=
  match a, b with
  | GSSimple, GSSimple | GSBipartite, GSBipartite | GSDag, GSDag | GSDigraph, GSDigraph => true
  | _, _ => false
  end.
Definition gs_gtype_name (g : gs_gtype) : text :=
  match g with
  | GSSimple => lit "simple" | GSBipartite => lit "bipartite" | GSDag => lit "dag" | GSDigraph => lit "digraph"
  end.
(* keys of the dictionary `constructions`, in its order *)
Definition gs_all_types : list gs_gtype := [GSSimple; GSDag; GSDigraph; GSBipartite].
Definition gs_type_names : list text := map gs_gtype_name gs_all_types.

Definition gs_constructions (g : gs_gtype) : list text :=
  match g with
  | GSSimple => [lit "gnp"; lit "gnm"; lit "gnd"; lit "grid"; lit "torus"; lit "complete"; lit "empty"]
  | GSDag | GSDigraph => [lit "path"; lit "tree"; lit "pyramid"]
  | GSBipartite => [lit "glrp"; lit "glrm"; lit "glrd"; lit "regular"; lit "shift"; lit "complete"; lit "empty"]
  end.
Definition gs_options (g : gs_gtype) : list text :=
  match g with
  | GSDag | GSDigraph => [lit "save"]
  | GSSimple => [lit "plantclique"; lit "addedges"; lit "splitedges"; lit "save"]
  | GSBipartite => [lit "plantbiclique"; lit "addedges"; lit "save"]
  end.
Definition gs_formats (g : gs_gtype) : list text :=
  match g with
  | GSBipartite => [lit "kthlist"; lit "gml"; lit "dot"; lit "matrix"]
  | _ => [lit "kthlist"; lit "gml"; lit "dot"; lit "dimacs"]
  end.
Definition gs_construction_elsewhere (c : text) (g : gs_gtype) : bool :=
  existsb (fun t => negb (gs_gtype_eqb t g) && gs_mem c (gs_constructions t)) gs_all_types.
Definition gs_format_elsewhere (f : text) (g : gs_gtype) : bool :=
  existsb (fun t => negb (gs_gtype_eqb t g) && gs_mem f (gs_formats t)) gs_all_types.

Definition gs_autodetect : text := lit "autodetect".
Definition gs_save : text := lit "save".

(* ------------------------------------------------------------------ *)
(* parse_graph_argument                                                *)
(* ------------------------------------------------------------------ *)
(* the dictionary `result`: p_opts are the option keys in insertion order, each with the list stored under it
   (numeric tokens, or [format; file name] for `save`); p_argskey: the key 'args' exists (it does not in the
   "file without format" branch) *)
Record gs_parsed := mk_gs_parsed {
  p_gtype : gs_gtype;
  p_construction : option text;
  p_args : option (list text);
  p_argskey : bool;
  p_filename : option text;
  p_fileformat : option text;
  p_opts : list (text * list text)
}.

Inductive gs_perr :=
| PEEmpty                 (* Empty graph specification *)
| PEFilenameExpected      (* Filename expected after graph format *)
| PEFormatElsewhere       (* Graph format `..` not valid for `..` graphs *)
| PEConstructionElsewhere (* Construction `..` not valid for `..` graphs *)
| PENoNeed                (* No need for another construction specification *)
| PEOptionalBefore        (* Optional arguments as `..` should be before ... *)
| PEInvalidOption         (* `..` is not a valid option for '..' graph *)
| PEMultiple              (* Multiple occurrences of `..` option. *)
| PESaveMissing           (* Missing information about where to save the graph *)
| PESaveMissingFile.      (* Missing file name where to save the graph *)

Inductive gs_pres := GSPOk (p : gs_parsed) | GSPErr (e : gs_perr) | GSPCrash.

Fixpoint gs_consume_numbers (l : list text) : list text * list text :=
  match l with
  | [] => ([], [])
  | t :: r => if gs_float_ok t then let nr := gs_consume_numbers r in (t :: fst nr, snd nr) else ([], l)
  end.

Definition gs_consume_saveinfo (g : gs_gtype) (l : list text) : (list text * list text) + gs_perr :=
  match l with
  | [] => inr PESaveMissing
  | t :: r =>
    if gs_mem t (gs_formats g) then
      match r with
      | [] => inr PESaveMissingFile
      | f :: r' => inl ([t; f], r')
      end
    else inl ([t], r)
  end.

Definition gs_base_keys (p : gs_parsed) : list text :=
  [lit "graphtype"; lit "construction"; lit "filename"; lit "fileformat"] ++ (if p_argskey p then [lit "args"] else []).
Definition gs_has_key (k : text) (p : gs_parsed) : bool :=
  gs_mem k (gs_base_keys p) || gs_mem k (map fst (p_opts p)).
Definition gs_set_opt (k : text) (v : list text) (p : gs_parsed) : gs_parsed :=
  mk_gs_parsed (p_gtype p) (p_construction p) (p_args p) (p_argskey p) (p_filename p) (p_fileformat p)
               (p_opts p ++ [(k, v)]).
Fixpoint gs_lookup (k : text) (l : list (text * list text)) : option (list text) :=
  match l with
  | [] => None
  | (k', v) :: r => if gs_teqb k k' then Some v else gs_lookup k r
  end.
Definition gs_starts_with_dash (t : text) : bool :=
  match t with c :: _ => Ascii.eqb c gs_chr_minus | [] => false end.

(* the `while position < len(spec)` loop; every turn consumes the option name, so the number of remaining
   tokens is enough fuel: running out of it is made visible as GSPCrash *)
Fixpoint gs_options_loop (fuel : nat) (g : gs_gtype) (p : gs_parsed) (toks : list text) : gs_pres :=
  match toks with
  | [] => GSPOk p
  | o :: rest =>
    match fuel with
    | O => GSPCrash
    | S f =>
      if gs_mem o gs_type_names then GSPErr PENoNeed            (* `optionname in constructions`: its keys are the graph types *)
      else if negb (gs_mem o (gs_options g)) && gs_starts_with_dash o then GSPErr PEOptionalBefore
      else if negb (gs_mem o (gs_options g)) then GSPErr PEInvalidOption
      else if gs_has_key o p then GSPErr PEMultiple
      else if gs_teqb o gs_save then
        match gs_consume_saveinfo g rest with
        | inr e => GSPErr e
        | inl (info, rest') =>
          let info' := match info with [f] => [gs_autodetect; f] | _ => info end in
          gs_options_loop f g (gs_set_opt o info' p) rest'
        end
      else
        let nr := gs_consume_numbers rest in
        gs_options_loop f g (gs_set_opt o (fst nr) p) (snd nr)
    end
  end.

Definition gs_parse (g : gs_gtype) (spec : list text) : gs_pres :=
  match spec with
  | [] => GSPErr PEEmpty
  | s0 :: rest =>
    if gs_mem s0 (gs_constructions g) then
      let nr := gs_consume_numbers rest in
      gs_options_loop (List.length (snd nr)) g
        (mk_gs_parsed g (Some s0) (Some (fst nr)) true None None []) (snd nr)
    else if gs_mem s0 (gs_formats g) then
      match rest with
      | [] => GSPErr PEFilenameExpected
      | f :: rest' =>
        gs_options_loop (List.length rest') g (mk_gs_parsed g None None true (Some f) (Some s0) []) rest'
      end
    else if gs_format_elsewhere s0 g then GSPErr PEFormatElsewhere
    else if gs_construction_elsewhere s0 g then GSPErr PEConstructionElsewhere
    else gs_options_loop (List.length rest) g (mk_gs_parsed g None None false (Some s0) (Some gs_autodetect) []) rest
  end.

(* the tokens a parsed value came from *)
Definition gs_render_opt (kv : text * list text) : list text :=
  if gs_teqb (fst kv) gs_save then
    match snd kv with
    | [fmt; f] => if gs_teqb fmt gs_autodetect then [fst kv; f] else [fst kv; fmt; f]
    | other => fst kv :: other
    end
  else fst kv :: snd kv.
Definition gs_render_head (p : gs_parsed) : list text :=
  match p_construction p, p_filename p, p_fileformat p with
  | Some c, _, _ => c :: match p_args p with Some a => a | None => [] end
  | None, Some f, Some fmt => if gs_teqb fmt gs_autodetect then [f] else [fmt; f]
  | None, Some f, None => [f]
  | None, None, _ => []
  end.
Definition gs_render (p : gs_parsed) : list text := gs_render_head p ++ flat_map gs_render_opt (p_opts p).

(* ------------------------------------------------------------------ *)
(* exceptions                                                          *)
(* ------------------------------------------------------------------ *)
Inductive gs_verr :=
| VRaw                    (* ValueError raised by int(), float() or an unpacking *)
| VGnpArgs | VGnmArgs | VGndArgs | VGndParity | VCompleteSimple | VEmptySimple | VGrid | VTorus
| VPlantCliqueArgs | VPlantCliqueLarge | VAddEdges | VSplitEdges
| VGlrp | VGlrm | VGlrd | VRegular | VShiftFew | VShiftArgs | VCompleteBip | VEmptyBip
| VPlantBicliqueArgs | VPlantBicliqueFit
| VTree | VPyramid | VPath
| VFileNoExt | VFileBadExt | VReadFormat
| VSaveExt | VSaveFormat.

Inductive gs_xclass := KValue | KType | KAssert | KIndex | KZeroDiv | KKey.
Definition gs_xclass_eqb (a b : gs_xclass) : bool :=
  match a, b with
  | KValue, KValue | KType, KType | KAssert, KAssert | KIndex, KIndex | KZeroDiv, KZeroDiv | KKey, KKey => true
  | _, _ => false
  end.
Inductive gs_exc := GXValue (t : gs_verr) | GXOther (k : gs_xclass).
Definition gs_class (e : gs_exc) : gs_xclass := match e with GXValue _ => KValue | GXOther k => k end.

Inductive gs_pr (A : Type) := GSRet (a : A) | GSRaise (e : gs_exc).
Arguments GSRet {A} a.
Arguments GSRaise {A} e.
Definition gs_bind {A B} (x : gs_pr A) (f : A -> gs_pr B) : gs_pr B :=
  match x with GSRet a => f a | GSRaise e => GSRaise e end.
Notation "x <- e ;; f" := (gs_bind e (fun x => f)) (at level 61, e at next level, right associativity).

(* try: body  except (caught...): raise ValueError(tag) *)
Definition gs_try {A} (caught : list gs_xclass) (tag : gs_verr) (body : gs_pr A) : gs_pr A :=
  match body with
  | GSRet a => GSRet a
  | GSRaise e => if existsb (gs_xclass_eqb (gs_class e)) caught then GSRaise (GXValue tag) else GSRaise e
  end.

Definition gs_int_ (t : text) : gs_pr Z :=
  match gs_int t with Some z => GSRet z | None => GSRaise (GXValue VRaw) end.
Definition gs_float_ (t : text) : gs_pr gs_fval :=
  match gs_float t with Some v => GSRet v | None => GSRaise (GXValue VRaw) end.
Definition gs_assert (b : bool) : gs_pr unit := if b then GSRet tt else GSRaise (GXOther KAssert).
Definition gs_raise_value {A} (t : gs_verr) : gs_pr A := GSRaise (GXValue t).
(* len(x), unpacking x, iterating x, x[i] when x is None *)
Definition gs_need_list (a : option (list text)) : gs_pr (list text) :=
  match a with Some l => GSRet l | None => GSRaise (GXOther KType) end.
Definition gs_unpack2 (l : list text) : gs_pr (text * text) :=
  match l with [a; b] => GSRet (a, b) | _ => GSRaise (GXValue VRaw) end.
Definition gs_unpack3 (l : list text) : gs_pr (text * text * text) :=
  match l with [a; b; c] => GSRet (a, b, c) | _ => GSRaise (GXValue VRaw) end.
Definition gs_index (l : list text) (i : nat) : gs_pr text :=
  match nth_error l i with Some t => GSRet t | None => GSRaise (GXOther KIndex) end.
Definition gs_mod (a b : Z) : gs_pr Z := if b =? 0 then GSRaise (GXOther KZeroDiv) else GSRet (a mod b).
(* parsed['args'] *)
Definition gs_args (p : gs_parsed) : gs_pr (option (list text)) :=
  if p_argskey p then GSRet (p_args p) else GSRaise (GXOther KKey).
Fixpoint gs_map_int (l : list text) : gs_pr (list Z) :=
  match l with
  | [] => GSRet []
  | t :: r => z <- gs_int_ t ;; zs <- gs_map_int r ;; GSRet (z :: zs)
  end.

(* sorted(...) of integers *)
Fixpoint gs_insert (x : Z) (l : list Z) : list Z :=
  match l with
  | [] => [x]
  | y :: r => if x <=? y then x :: l else y :: gs_insert x r
  end.
Fixpoint gs_sort (l : list Z) : list Z :=
  match l with [] => [] | x :: r => gs_insert x (gs_sort r) end.
Fixpoint gs_adjacent_equal (l : list Z) : bool :=
  match l with
  | x :: ((y :: _) as t) => (x =? y) || gs_adjacent_equal t
  | _ => false
  end.

(* ------------------------------------------------------------------ *)
(* the call a construction ends in                                     *)
(* ------------------------------------------------------------------ *)
Inductive gs_call :=
| GCGnp (n : Z) (p : gs_fval) (t : Z)      (* t = 1: networkx.gnp_random_graph(n,p), else multipartite_tnp(t,n,p) *)
| GCGnm (n m : Z)                          (* networkx.gnm_random_graph(n,m) *)
| GCGnd (n d : Z)                          (* networkx.random_regular_graph(d,n) *)
| GCGrid (periodic : bool) (dims : list Z) (* networkx.grid_graph(dims, periodic) *)
| GCCompleteS (n : Z) (b : option Z)       (* Graph.complete_graph(n) | networkx.complete_multipartite_graph(n,...,n) *)
| GCEmptyS (n : Z)
| GCGlrp (l r : Z) (p : gs_fval)
| GCGlrm (l r m : Z)
| GCGlrd (l r d : Z)
| GCRegular (l r d : Z)
| GCShift (l r : Z) (pattern : list Z)
| GCCompleteB (l r : Z)
| GCEmptyB (l r : Z)
| GCTree (h : Z) | GCPyramid (h : Z) | GCPath (len : Z)
| GCRead (file fmt : text).                (* readGraph(open(file), graphtype, fmt) *)

Definition gs_all_caught : list gs_xclass := [KType; KValue; KAssert].

Definition gs_obtain_gnd (p : gs_parsed) : gs_pr gs_call :=
  nd <- gs_try gs_all_caught VGndArgs (
          a <- gs_args p ;; l <- gs_need_list a ;; x <- gs_unpack2 l ;;
          n <- gs_int_ (fst x) ;; d <- gs_int_ (snd x) ;;
          _ <- gs_assert (n >? 0) ;; _ <- gs_assert (d >? 0) ;; _ <- gs_assert (n >? d) ;;
          GSRet (n, d)) ;;
  if (fst nd * snd nd) mod 2 =? 1 then gs_raise_value VGndParity else GSRet (GCGnd (fst nd) (snd nd)).

Definition gs_obtain_gnp (p : gs_parsed) : gs_pr gs_call :=
  gs_try gs_all_caught VGnpArgs (
    a <- gs_args p ;; l <- gs_need_list a ;;
    x <- match l with
         | [n; q] => GSRet (n, q, None)
         | [n; q; t] => GSRet (n, q, Some t)
         | _ => gs_raise_value VRaw
         end ;;
    n <- gs_int_ (fst (fst x)) ;; q <- gs_float_ (snd (fst x)) ;;
    t <- match snd x with Some t => gs_int_ t | None => GSRet 1 end ;;
    _ <- gs_assert (n >? 0) ;; _ <- gs_assert (gs_in_unit q) ;; _ <- gs_assert (t >? 0) ;;
    GSRet (GCGnp n q t)).

Definition gs_obtain_gnm (p : gs_parsed) : gs_pr gs_call :=
  gs_try gs_all_caught VGnmArgs (
    a <- gs_args p ;; l <- gs_need_list a ;; x <- gs_unpack2 l ;;
    n <- gs_int_ (fst x) ;; m <- gs_int_ (snd x) ;;
    _ <- gs_assert (n >? 0) ;; _ <- gs_assert (m >=? 0) ;; _ <- gs_assert (m <=? n * (n - 1) / 2) ;;
    GSRet (GCGnm n m)).

Definition gs_obtain_complete_simple (p : gs_parsed) : gs_pr gs_call :=
  gs_try gs_all_caught VCompleteSimple (
    a <- gs_args p ;; l <- gs_need_list a ;;
    x <- match l with
         | [_] => t0 <- gs_index l 0 ;; n <- gs_int_ t0 ;; GSRet (n, None)
         | [_; _] => t0 <- gs_index l 0 ;; n <- gs_int_ t0 ;; t1 <- gs_index l 1 ;; b <- gs_int_ t1 ;; GSRet (n, Some b)
         | _ => gs_raise_value VRaw
         end ;;
    _ <- gs_assert (fst x >? 0) ;;
    _ <- gs_assert (match snd x with None => true | Some b => b >? 0 end) ;;
    GSRet (GCCompleteS (fst x) (snd x))).

Definition gs_obtain_empty_simple (p : gs_parsed) : gs_pr gs_call :=
  gs_try gs_all_caught VEmptySimple (
    a <- gs_args p ;; l <- gs_need_list a ;;
    _ <- (if negb (Nat.eqb (List.length l) 1) then gs_raise_value VRaw else GSRet tt) ;;
    t0 <- gs_index l 0 ;; n <- gs_int_ t0 ;;
    _ <- gs_assert (n >? 0) ;;
    GSRet (GCEmptyS n)).

(* except (TypeError, ValueError) only *)
Definition gs_obtain_grid_or_torus (periodic : bool) (p : gs_parsed) : gs_pr gs_call :=
  a <- gs_args p ;;
  gs_try [KType; KValue] (if periodic then VTorus else VGrid) (
    l <- gs_need_list a ;; dims <- gs_map_int l ;;
    _ <- (if gs_is_nil dims then gs_raise_value VRaw else GSRet tt) ;;
    _ <- (if existsb (fun d => d <=? 0) dims then gs_raise_value VRaw else GSRet tt) ;;
    GSRet (GCGrid periodic dims)).

Definition gs_obtain_glrp (p : gs_parsed) : gs_pr gs_call :=
  gs_try gs_all_caught VGlrp (
    a <- gs_args p ;; l <- gs_need_list a ;; x <- gs_unpack3 l ;;
    le <- gs_int_ (fst (fst x)) ;; ri <- gs_int_ (snd (fst x)) ;; q <- gs_float_ (snd x) ;;
    _ <- gs_assert (le >? 0) ;; _ <- gs_assert (ri >? 0) ;; _ <- gs_assert (gs_in_unit q) ;;
    GSRet (GCGlrp le ri q)).

Definition gs_obtain_glrm (p : gs_parsed) : gs_pr gs_call :=
  gs_try gs_all_caught VGlrm (
    a <- gs_args p ;; l <- gs_need_list a ;; x <- gs_unpack3 l ;;
    le <- gs_int_ (fst (fst x)) ;; ri <- gs_int_ (snd (fst x)) ;; m <- gs_int_ (snd x) ;;
    _ <- gs_assert (le >? 0) ;; _ <- gs_assert (ri >? 0) ;; _ <- gs_assert ((0 <=? m) && (m <=? le * ri)) ;;
    GSRet (GCGlrm le ri m)).

Definition gs_obtain_glrd (p : gs_parsed) : gs_pr gs_call :=
  gs_try gs_all_caught VGlrd (
    a <- gs_args p ;; l <- gs_need_list a ;; x <- gs_unpack3 l ;;
    le <- gs_int_ (fst (fst x)) ;; ri <- gs_int_ (snd (fst x)) ;; d <- gs_int_ (snd x) ;;
    _ <- gs_assert (le >? 0) ;; _ <- gs_assert (ri >? 0) ;; _ <- gs_assert ((0 <=? d) && (d <=? ri)) ;;
    GSRet (GCGlrd le ri d)).

Definition gs_obtain_regular (p : gs_parsed) : gs_pr gs_call :=
  gs_try gs_all_caught VRegular (
    a <- gs_args p ;; l <- gs_need_list a ;; x <- gs_unpack3 l ;;
    le <- gs_int_ (fst (fst x)) ;; ri <- gs_int_ (snd (fst x)) ;; d <- gs_int_ (snd x) ;;
    _ <- gs_assert (le >? 0) ;; _ <- gs_assert (ri >? 0) ;; _ <- gs_assert ((0 <=? d) && (d <=? ri)) ;;
    r <- gs_mod (d * le) ri ;; _ <- gs_assert (r =? 0) ;;
    GSRet (GCRegular le ri d)).

Definition gs_obtain_shift (p : gs_parsed) : gs_pr gs_call :=
  a <- gs_args p ;;
  values <- gs_need_list a ;;                                     (* len(values): outside the try *)
  _ <- (if (List.length values <? 2)%nat then gs_raise_value VShiftFew else GSRet tt) ;;
  gs_try gs_all_caught VShiftArgs (
    t0 <- gs_index values 0 ;; le <- gs_int_ t0 ;;
    t1 <- gs_index values 1 ;; ri <- gs_int_ t1 ;;
    pat <- gs_map_int (skipn 2 values) ;;
    let pattern := gs_sort pat in
    _ <- gs_assert (le >? 0) ;; _ <- gs_assert (ri >? 0) ;;
    _ <- (if gs_adjacent_equal pattern then gs_raise_value VRaw else GSRet tt) ;;
    _ <- (if existsb (fun x => (x <? 0) || (x >? ri)) pattern then gs_raise_value VRaw else GSRet tt) ;;
    GSRet (GCShift le ri pattern)).

Definition gs_obtain_two_positive (tag : gs_verr) (mk : Z -> Z -> gs_call) (p : gs_parsed) : gs_pr gs_call :=
  gs_try gs_all_caught tag (
    a <- gs_args p ;; l <- gs_need_list a ;;
    _ <- (if negb (Nat.eqb (List.length l) 2) then gs_raise_value VRaw else GSRet tt) ;;
    t0 <- gs_index l 0 ;; le <- gs_int_ t0 ;; t1 <- gs_index l 1 ;; ri <- gs_int_ t1 ;;
    _ <- gs_assert (le >? 0) ;; _ <- gs_assert (ri >? 0) ;;
    GSRet (mk le ri)).
Definition gs_obtain_complete_bipartite := gs_obtain_two_positive VCompleteBip GCCompleteB.
Definition gs_obtain_empty_bipartite := gs_obtain_two_positive VEmptyBip GCEmptyB.

Definition gs_obtain_one_nonneg (tag : gs_verr) (mk : Z -> gs_call) (p : gs_parsed) : gs_pr gs_call :=
  gs_try gs_all_caught tag (
    a <- gs_args p ;; l <- gs_need_list a ;;
    _ <- (if negb (Nat.eqb (List.length l) 1) then gs_raise_value VRaw else GSRet tt) ;;
    t0 <- gs_index l 0 ;; h <- gs_int_ t0 ;;
    _ <- gs_assert (h >=? 0) ;;
    GSRet (mk h)).
Definition gs_obtain_tree := gs_obtain_one_nonneg VTree GCTree.
Definition gs_obtain_pyramid := gs_obtain_one_nonneg VPyramid GCPyramid.
Definition gs_obtain_path := gs_obtain_one_nonneg VPath GCPath.

(* constructions[graphtype][name] -- called only when the name is a key of that table *)
Definition gs_dispatch (g : gs_gtype) (c : text) : gs_parsed -> gs_pr gs_call :=
  match g with
  | GSSimple =>
    if gs_teqb c (lit "gnp") then gs_obtain_gnp
    else if gs_teqb c (lit "gnm") then gs_obtain_gnm
    else if gs_teqb c (lit "gnd") then gs_obtain_gnd
    else if gs_teqb c (lit "grid") then gs_obtain_grid_or_torus false
    else if gs_teqb c (lit "torus") then gs_obtain_grid_or_torus true
    else if gs_teqb c (lit "complete") then gs_obtain_complete_simple
    else gs_obtain_empty_simple
  | GSDag | GSDigraph =>
    if gs_teqb c (lit "path") then gs_obtain_path
    else if gs_teqb c (lit "tree") then gs_obtain_tree
    else gs_obtain_pyramid
  | GSBipartite =>
    if gs_teqb c (lit "glrp") then gs_obtain_glrp
    else if gs_teqb c (lit "glrm") then gs_obtain_glrm
    else if gs_teqb c (lit "glrd") then gs_obtain_glrd
    else if gs_teqb c (lit "regular") then gs_obtain_regular
    else if gs_teqb c (lit "shift") then gs_obtain_shift
    else if gs_teqb c (lit "complete") then gs_obtain_complete_bipartite
    else gs_obtain_empty_bipartite
  end.

(* read_graph_from_input(graphtype, filename, fileformat) up to the call of readGraph *)
Definition gs_read_input (g : gs_gtype) (filename : option text) (fileformat : option text) : gs_pr gs_call :=
  match filename with
  | None => GSRaise (GXOther KType)                               (* os.path.splitext(None) *)
  | Some f =>
    let fext := gs_ext f in
    match fileformat with
    | Some fmt =>
      if gs_teqb fmt gs_autodetect then
        if gs_is_nil fext then gs_raise_value VFileNoExt
        else if negb (gs_mem fext (gs_formats g)) then gs_raise_value VFileBadExt
        else GSRet (GCRead f fext)
      else if gs_mem fmt (gs_formats g) then GSRet (GCRead f fmt)
      else gs_raise_value VReadFormat                            (* readGraph: unsupported format *)
    | None => gs_raise_value VReadFormat                         (* readGraph(.., None) *)
    end
  end.

(* (order, 0) of a simple or directed graph, (left, right) of a bipartite one; [fo] for a graph read from a file *)
Definition gs_call_order (fo : Z * Z) (c : gs_call) : Z * Z :=
  match c with
  | GCGnp n _ t => (n * t, 0)
  | GCGnm n _ | GCGnd n _ | GCEmptyS n => (n, 0)
  | GCGrid _ dims => (fold_right Z.mul 1 dims, 0)
  | GCCompleteS n None => (n, 0)
  | GCCompleteS n (Some b) => (n * b, 0)
  | GCGlrp l r _ | GCGlrm l r _ | GCGlrd l r _ | GCRegular l r _ | GCShift l r _ | GCCompleteB l r | GCEmptyB l r => (l, r)
  | GCTree h => (2 ^ (h + 1) - 1, 0)
  | GCPyramid h => ((h + 1) * (h + 2) / 2, 0)
  | GCPath len => (len + 1, 0)
  | GCRead _ _ => fo
  end.

Inductive gs_step :=
| SGen (c : gs_call)
| SPlantClique (k : Z)
| SPlantBiclique (a b : Z)
| SAddEdges (k : Z)
| SSplitEdges (k : Z)
| SSave (fmt file : text).

Definition gs_one_nonneg_opt (tag : gs_verr) (v : list text) : gs_pr Z :=
  gs_try gs_all_caught tag (
    _ <- (if negb (Nat.eqb (List.length v) 1) then gs_raise_value VRaw else GSRet tt) ;;
    t0 <- gs_index v 0 ;; k <- gs_int_ t0 ;;
    _ <- gs_assert (k >=? 0) ;;
    GSRet k).

Definition gs_modify_plantclique (order : Z) (v : list text) : gs_pr gs_step :=
  k <- gs_one_nonneg_opt VPlantCliqueArgs v ;;
  if k >? order then gs_raise_value VPlantCliqueLarge else GSRet (SPlantClique k).

Definition gs_modify_plantbiclique (lr : Z * Z) (v : list text) : gs_pr gs_step :=
  ab <- gs_try gs_all_caught VPlantBicliqueArgs (
          _ <- (if negb (Nat.eqb (List.length v) 2) then gs_raise_value VRaw else GSRet tt) ;;
          t0 <- gs_index v 0 ;; a <- gs_int_ t0 ;; t1 <- gs_index v 1 ;; b <- gs_int_ t1 ;;
          _ <- gs_assert (a >=? 0) ;; _ <- gs_assert (b >=? 0) ;;
          GSRet (a, b)) ;;
  if (fst ab >? fst lr) || (snd ab >? snd lr) then gs_raise_value VPlantBicliqueFit
  else GSRet (SPlantBiclique (fst ab) (snd ab)).

(* writeGraph(G, file, graphtype, fmt): _process_graph_io_arguments *)
Definition gs_save_format (g : gs_gtype) (fmt file : text) : gs_pr gs_step :=
  if gs_teqb fmt gs_autodetect then
    let e := gs_ext file in
    if gs_mem e (gs_formats g) then GSRet (SSave e file) else gs_raise_value VSaveExt
  else if gs_mem fmt (gs_formats g) then GSRet (SSave fmt file)
  else gs_raise_value VSaveFormat.

Definition gs_opt_step (o : option (list text)) (f : list text -> gs_pr gs_step) : gs_pr (list gs_step) :=
  match o with
  | None => GSRet []
  | Some v => s <- f v ;; GSRet [s]
  end.

Definition gs_obtain_graph (fo : Z * Z) (p : gs_parsed) : gs_pr (list gs_step) :=
  let g := p_gtype p in
  call <- match p_construction p with
          | Some c =>
            if gs_mem c (gs_constructions g) then gs_dispatch g c p
            else (_ <- gs_assert false ;; gs_read_input g (p_filename p) (p_fileformat p))   (* assert parsed['construction'] is None *)
          | None => gs_read_input g (p_filename p) (p_fileformat p)
          end ;;
  let ord := gs_call_order fo call in
  plant <- match g with
           | GSSimple => gs_opt_step (gs_lookup (lit "plantclique") (p_opts p)) (gs_modify_plantclique (fst ord))
           | GSBipartite => gs_opt_step (gs_lookup (lit "plantbiclique") (p_opts p)) (gs_modify_plantbiclique ord)
           | _ => GSRet []
           end ;;
  add <- gs_opt_step (gs_lookup (lit "addedges") (p_opts p))
           (fun v => k <- gs_one_nonneg_opt VAddEdges v ;; GSRet (SAddEdges k)) ;;
  split <- gs_opt_step (gs_lookup (lit "splitedges") (p_opts p))
           (fun v => k <- gs_one_nonneg_opt VSplitEdges v ;;
                     match g with
                     | GSSimple => GSRet (SSplitEdges k)
                     | _ => GSRaise (GXOther KType)       (* split_random_edges: "only implemented for simple graphs" *)
                     end) ;;
  save <- gs_opt_step (gs_lookup gs_save (p_opts p))
           (fun v => x <- gs_unpack2 v ;; gs_save_format g (fst x) (snd x)) ;;
  GSRet (SGen call :: plant ++ add ++ split ++ save).

Inductive gs_vres := GSVOk (plan : list gs_step) | GSVErr (t : gs_verr) | GSVCrash (k : gs_xclass).
Definition gs_validate (fo : Z * Z) (p : gs_parsed) : gs_vres :=
  match gs_obtain_graph fo p with
  | GSRet plan => GSVOk plan
  | GSRaise (GXValue t) => GSVErr t
  | GSRaise (GXOther k) => GSVCrash k
  end.

(* what obtain_graph may rely on: true of every value parse_graph_argument returns *)
Definition gs_wf (p : gs_parsed) : bool :=
  match p_construction p with
  | Some c => gs_mem c (gs_constructions (p_gtype p)) && p_argskey p && (match p_args p with Some _ => true | None => false end)
  | None => match p_filename p with Some _ => true | None => false end
  end
  && forallb (fun kv => gs_mem (fst kv) (gs_options (p_gtype p))) (p_opts p).    (* only options of the graph type *)

(* make_graph_from_spec *)
Definition gs_make (fo : Z * Z) (g : gs_gtype) (spec : list text) : gs_vres + gs_pres :=
  match gs_parse g spec with
  | GSPOk p => inl (gs_validate fo p)
  | other => inr other
  end.
