(* GraphIOBipNx.v -- BipartiteGraph.from_networkx on what to_networkx + the gml/dot writers and readers
   deliver (nodes 1..L with bipartite=0, L+1..L+R with bipartite=1, in this order): no label is sorted,
   so the numbering survives at every size, with string labels (gml, dot as found) and with the integer labels
   the dot branch of the current code produces (bip_dot_roundtrip). *)
From Coq Require Import ZArith List Bool Lia ZifyBool Ascii.
From Cnfgen Require Import GText GraphIO GTextFacts GraphIOFacts GraphIOMatrix GraphIODimacs.
Import ListNotations.
Open Scope Z_scope.

Lemma str_eqb_spec : forall a b, gt_str_eqb a b = true <-> a = b.
Proof.
  induction a as [|x a IH]; destruct b as [|y b]; cbn [gt_str_eqb]; try (split; [discriminate|discriminate]); [tauto|].
  rewrite andb_true_iff, IH, Ascii.eqb_eq. split; [intros [-> ->]; reflexivity|intros H; inversion H; auto].
Qed.
Lemma print_Z_inj x y : gt_print_Z x = gt_print_Z y -> x = y.
Proof. intros H. apply (f_equal gt_int) in H. rewrite !int_print_Z in H. now inversion H. Qed.
Lemma str_eqb_print x y : gt_str_eqb (gt_print_Z x) (gt_print_Z y) = (x =? y).
Proof.
  destruct (x =? y) eqn:E.
  - apply str_eqb_spec. f_equal. lia.
  - apply not_true_is_false. intros H. apply str_eqb_spec, print_Z_inj in H. lia.
Qed.

(* ---------- generic in the label type: lab is injective and eqb decides equality of labels ---------- *)
Lemma index_labs {A} (eqb : A -> A -> bool) (lab : Z -> A) (Heq : forall x y, eqb (lab x) (lab y) = (x =? y)) d :
  forall len a u i, a <= u < a + Z.of_nat len ->
  gio_index eqb (lab (u + d)) (map (fun j => lab (j + d)) (zseq a len)) i = Some (i + (u - a)).
Proof.
  induction len as [|len IH]; intros a u i H; [lia|]. rewrite zseq_S. cbn [map gio_index].
  rewrite Heq. destruct (u + d =? a + d) eqn:E; [f_equal; lia|].
  rewrite IH by lia. f_equal. lia.
Qed.

Definition bip_nodes_lab {A} (lab : Z -> A) (L R : Z) : list (A * Z) :=
  map (fun i => (lab (i + 0), 0)) (gt_range1 L) ++ map (fun j => (lab (j + L), 1)) (gt_range1 R).
Definition bip_edges_lab {A} (lab : Z -> A) (L : Z) (es : list (Z * Z)) : list (A * A) :=
  map (fun e => (lab (fst e + 0), lab (snd e + L))) es.

Lemma filter_map_const {A B} (p : B -> bool) (f : A -> B) b l : (forall x, p (f x) = b) ->
  filter p (map f l) = if b then map f l else [].
Proof. intros H. induction l as [|x t IH]; cbn [map filter]; [now destruct b|]. rewrite H, IH. now destruct b. Qed.

Theorem bip_nx_identity_lab {A} (eqb : A -> A -> bool) (lab : Z -> A) (Heq : forall x y, eqb (lab x) (lab y) = (x =? y)) G :
  gio_wf G -> io_kind G = GioBipartite ->
  gio_bip_from_nx eqb (io_name G) (bip_nodes_lab lab (io_n G) (io_r G)) (bip_edges_lab lab (io_n G) (io_edges G)) = GOk G.
Proof.
  intros (Hn & Hr & _ & Hs & Hf) HK. unfold gio_bip_from_nx.
  set (L := io_n G) in *. set (R := io_r G) in *.
  assert (Hcol : forallb (fun nc : A * Z => (snd nc =? 0) || (snd nc =? 1)) (bip_nodes_lab lab L R) = true).
  { unfold bip_nodes_lab. rewrite forallb_app. apply andb_true_iff. split; apply forallb_forall; intros x Hx; apply in_map_iff in Hx as [i [<- _]]; reflexivity. }
  assert (H0 : map fst (filter (fun nc : A * Z => snd nc =? 0) (bip_nodes_lab lab L R)) = map (fun j => lab (j + 0)) (zseq 1 (Z.to_nat L))).
  { unfold bip_nodes_lab. rewrite filter_app, (filter_map_const _ _ true), (filter_map_const _ _ false) by reflexivity.
    rewrite app_nil_r, map_map, range1_zseq. reflexivity. }
  assert (H1 : map fst (filter (fun nc : A * Z => snd nc =? 1) (bip_nodes_lab lab L R)) = map (fun j => lab (j + L)) (zseq 1 (Z.to_nat R))).
  { unfold bip_nodes_lab. rewrite filter_app, (filter_map_const _ _ false), (filter_map_const _ _ true) by reflexivity.
    cbn [app]. rewrite map_map, range1_zseq. reflexivity. }
  rewrite Hcol, H0, H1. cbn [negb]. rewrite !map_length. unfold zseq at 1 2. rewrite !map_length, !seq_length, !Z2Nat.id by lia.
  rewrite new_ok by lia. cbn [gio_bind].
  rewrite Forall_forall in Hf.
  assert (Hedge : forall u v, In (u, v) (io_edges G) -> 1 <= u <= L /\ 1 <= v <= R).
  { intros u v Hin. pose proof (Hf _ Hin) as Hok. unfold edge_stored_ok in Hok. rewrite HK in Hok. exact Hok. }
  match goal with |- ?F _ _ = _ => set (go := F) end.
  assert (Hgo : forall es B, io_kind B = GioBipartite -> io_n B = L -> io_r B = R ->
                 (forall u v, In (u, v) es -> 1 <= u <= L /\ 1 <= v <= R) ->
                 go B (bip_edges_lab lab L es) = GOk (gio_with_edges B (insert_all es (io_edges B)))).
  { induction es as [|[u v] t IH]; intros B HB HBn HBr Hes.
    - cbn. now rewrite with_edges_self.
    - destruct (Hes u v (or_introl eq_refl)) as [Hu Hv]. cbn [bip_edges_lab map fst snd]. unfold go at 1. cbn fix beta iota. fold go.
      rewrite (index_labs eqb lab Heq 0) by lia. rewrite (index_labs eqb lab Heq L) by lia. cbn [Z.eqb].
      rewrite (index_labs eqb lab Heq 0) by lia. rewrite (index_labs eqb lab Heq L) by lia.
      rewrite add_edge_ok by (unfold edge_ok; rewrite HB, HBn, HBr; cbn [fst snd]; lia).
      cbn [gio_bind]. fold (bip_edges_lab lab L t). rewrite IH; auto.
      + rewrite with_edges_twice, with_edges_edges, HB. cbn [edge_norm]. rewrite insert_all_cons.
        replace (1 + (u - 1), 1 + (v - 1)) with (u, v) by (f_equal; lia). reflexivity.
      + intros a b Hab. apply Hes. now right. }
  rewrite Hgo; auto.
  - cbn [io_edges]. rewrite insert_all_self by exact Hs. unfold gio_with_edges. cbn [io_kind io_name io_n io_r].
    destruct G; cbn in *; subst; reflexivity.
Qed.

(* the same with the labels written plainly: str(i) for the left vertices, str(L + j) for the right ones *)
Definition nx_bip_nodes (L R : Z) : list (gt_str * Z) :=
  map (fun i => (gt_print_Z i, 0)) (gt_range1 L) ++ map (fun j => (gt_print_Z (L + j), 1)) (gt_range1 R).
Definition nx_bip_edges (L : Z) (es : list (Z * Z)) : list (gt_str * gt_str) :=
  map (fun e => (gt_print_Z (fst e), gt_print_Z (L + snd e))) es.

Theorem bip_nx_roundtrip G : gio_wf G -> io_kind G = GioBipartite ->
  gio_bip_from_nx gt_str_eqb (io_name G) (nx_bip_nodes (io_n G) (io_r G)) (nx_bip_edges (io_n G) (io_edges G)) = GOk G.
Proof.
  intros Hwf HK.
  replace (nx_bip_nodes (io_n G) (io_r G)) with (bip_nodes_lab gt_print_Z (io_n G) (io_r G)).
  - replace (nx_bip_edges (io_n G) (io_edges G)) with (bip_edges_lab gt_print_Z (io_n G) (io_edges G));
      [now apply (bip_nx_identity_lab gt_str_eqb gt_print_Z str_eqb_print)|].
    unfold bip_edges_lab, nx_bip_edges. apply map_ext. intros e. now rewrite Z.add_0_r, Z.add_comm.
  - unfold bip_nodes_lab, nx_bip_nodes. f_equal; apply map_ext; intros i; [now rewrite Z.add_0_r|now rewrite Z.add_comm].
Qed.

(* ---------- dot, current code: the labels of a dot file are turned into integers first ---------- *)
Lemma ints_map_print {A} (f : A -> Z) l : gt_ints (map (fun x => gt_print_Z (f x)) l) = Some (map f l).
Proof. rewrite <- (map_map f gt_print_Z). apply ints_print. Qed.

Lemma combine_map_map {A B C} (f : A -> B) (g : A -> C) l : combine (map f l) (map g l) = map (fun x => (f x, g x)) l.
Proof. induction l as [|x t IH]; [reflexivity|]. cbn [map combine]. now rewrite IH. Qed.
Lemma combine_app {A B} : forall (l1 l2 : list A) (m1 m2 : list B), length l1 = length m1 ->
  combine (l1 ++ l2) (m1 ++ m2) = combine l1 m1 ++ combine l2 m2.
Proof.
  induction l1 as [|x t IH]; intros l2 [|y m1] m2 H; try discriminate; [reflexivity|]. cbn [app combine]. f_equal. apply IH.
  now inversion H.
Qed.

Lemma zseq_NoDup : forall len a, NoDup (zseq a len).
Proof.
  induction len as [|len IH]; intros a; [constructor|]. rewrite zseq_S. constructor; [|apply IH].
  intros H. apply zseq_In in H. lia.
Qed.

Lemma nodupb_true : forall l, NoDup l -> gio_nodupb_Z l = true.
Proof.
  induction l as [|x t IH]; intros H; [reflexivity|]. inversion H as [|y l Hx Ht]; subst. cbn [gio_nodupb_Z].
  rewrite (IH Ht), andb_true_r. apply negb_true_iff, not_true_is_false. intros E.
  apply existsb_exists in E as [y [Hy Ey]]. assert (y = x) by lia. now subst.
Qed.

Theorem bip_dot_roundtrip G : gio_wf G -> io_kind G = GioBipartite ->
  gio_dot_bip_normalize (io_name G) (nx_bip_nodes (io_n G) (io_r G)) (nx_bip_edges (io_n G) (io_edges G)) = Some (GOk G).
Proof.
  intros Hwf HK. pose proof Hwf as (Hn & Hr & _). unfold gio_dot_bip_normalize, nx_bip_nodes, nx_bip_edges.
  rewrite map_app, !map_map. cbn [fst snd].
  assert (E1 : gt_ints (map (fun x => gt_print_Z x) (gt_range1 (io_n G)) ++ map (fun x => gt_print_Z (io_n G + x)) (gt_range1 (io_r G)))
               = Some (gt_range1 (io_n G) ++ map (fun x => io_n G + x) (gt_range1 (io_r G)))).
  { rewrite <- (map_map (fun x => io_n G + x) gt_print_Z), <- map_app. apply ints_print. }
  rewrite E1. clear E1.
  rewrite (ints_map_print fst), (ints_map_print (fun e => io_n G + snd e)).
  assert (Hnd : gio_nodupb_Z (gt_range1 (io_n G) ++ map (fun x => io_n G + x) (gt_range1 (io_r G))) = true).
  { apply nodupb_true. rewrite !range1_zseq.
    replace (map (fun x => io_n G + x) (zseq 1 (Z.to_nat (io_r G)))) with (zseq (1 + io_n G) (Z.to_nat (io_r G)))
      by (rewrite zseq_shift; apply map_ext; intros; lia).
    replace (1 + io_n G) with (1 + Z.of_nat (Z.to_nat (io_n G))) by lia. rewrite <- zseq_app. apply zseq_NoDup. }
  rewrite Hnd. f_equal.
  rewrite <- (bip_nx_identity_lab Z.eqb (fun z => z) (fun x y => eq_refl) G Hwf HK). f_equal.
  - unfold bip_nodes_lab. rewrite map_app, !map_map. cbn [snd].
    rewrite combine_app by now rewrite map_length.
    rewrite <- (map_id (gt_range1 (io_n G))) at 1. rewrite !combine_map_map. f_equal; apply map_ext; intros i; f_equal; lia.
  - unfold bip_edges_lab. rewrite combine_map_map. apply map_ext. intros e. f_equal; lia.
Qed.
