(* Spec_C01.v — the combinatorial objects of property C01 and how an assignment is
   read as such an object (decoding).  Definitions only; nothing here mentions
   clauses.  Conventions: pigeons/left vertices 1..m, holes/right vertices 1..n. *)
From Coq Require Import ZArith List Bool.
From Cnfgen Require Import Sem Comb Linear IR FamTab Fam_php Fam_count Fam_subsetcard Fam_cliquecol.
Import ListNotations.
Open Scope Z_scope.

(* ---------- pigeonhole: a placement of m pigeons into n holes ---------- *)
(* R i j = "pigeon i sits in hole j" *)
Definition php_R (a : Z -> bool) (n i j : Z) : bool := a (bvar 0 n i j).
Definition placement (m n : Z) (functional onto : bool) (R : Z -> Z -> bool) : Prop :=
  (forall i, 1 <= i <= m -> exists j, 1 <= j <= n /\ R i j = true) /\
  (onto = true -> forall j, 1 <= j <= n -> exists i, 1 <= i <= m /\ R i j = true) /\
  (forall j i1 i2, 1 <= j <= n -> 1 <= i1 <= m -> 1 <= i2 <= m -> R i1 j = true -> R i2 j = true -> i1 = i2) /\
  (functional = true -> forall i j1 j2, 1 <= i <= m -> 1 <= j1 <= n -> 1 <= j2 <= n ->
                        R i j1 = true -> R i j2 = true -> j1 = j2).
(* classical criterion *)
Definition php_criterion (m n : Z) (functional onto : bool) : Prop :=
  m <= n /\ (onto = true -> if functional then n <= m else (1 <= m \/ n = 0)).

(* ---------- graph pigeonhole: a set E' of edges of the bipartite graph ---------- *)
Definition gphp_sel (a : Z -> bool) (adj : list (list Z)) : list (Z * Z) := sel a (gphp_tab adj).
Definition graph_placement (L R : Z) (functional onto : bool) (E : list (Z * Z)) : Prop :=
  (forall u, 1 <= u <= L -> exists v, In (u, v) E) /\
  (onto = true -> forall v, 1 <= v <= R -> exists u, In (u, v) E) /\
  (forall v u1 u2, 1 <= v <= R -> In (u1, v) E -> In (u2, v) E -> u1 = u2) /\
  (functional = true -> forall u v1 v2, 1 <= u <= L -> In (u, v1) E -> In (u, v2) E -> v1 = v2).
(* neighbours of left vertex u *)
Definition bip_nbrs (adj : list (list Z)) (u : Z) : list Z := nth (Z.to_nat (u - 1)) adj [].
(* a matching that saturates the left side: an injective choice of neighbours *)
Definition left_saturating (adj : list (list Z)) (h : Z -> Z) : Prop :=
  (forall u, 1 <= u <= len adj -> In (h u) (bip_nbrs adj u)) /\
  (forall u1 u2, 1 <= u1 <= len adj -> 1 <= u2 <= len adj -> h u1 = h u2 -> u1 = u2).

(* ---------- binary pigeonhole: the hole of pigeon i is the number written by its bits ---------- *)
Fixpoint bphp_bits_value (a : Z -> bool) (K i : Z) (k : nat) : Z :=
  match k with
  | O => 0
  | S k' => (if a (bitvar K i (Z.of_nat k')) then 2 ^ (Z.of_nat k') else 0) + bphp_bits_value a K i k'
  end.
Definition bphp_hole (a : Z -> bool) (n i : Z) : Z := bphp_bits_value a (bphp_bits n) i (Z.to_nat (bphp_bits n)).
(* holes are numbered 0..n-1 *)
Definition binary_placement (m n : Z) (h : Z -> Z) : Prop :=
  (forall i, 1 <= i <= m -> 0 <= h i < n) /\
  (forall i1 i2, 1 <= i1 <= m -> 1 <= i2 <= m -> h i1 = h i2 -> i1 = i2).

(* ---------- relativized pigeonhole ---------- *)
Definition rphp_P (a : Z -> bool) (r u v : Z) : bool := a (rp r u v).            (* pigeon u rests at v *)
Definition rphp_Q (a : Z -> bool) (m r n v w : Z) : bool := a (rq m r n v w).    (* place v sends to hole w *)
Definition rphp_S (a : Z -> bool) (m r n v : Z) : bool := a (rr m r n v).        (* place v is active *)
Definition relativized_placement (m r n : Z) (P Q : Z -> Z -> bool) (S : Z -> bool) : Prop :=
  (forall u, 1 <= u <= m -> exists v, 1 <= v <= r /\ P u v = true) /\
  (forall v u1 u2, 1 <= v <= r -> 1 <= u1 <= m -> 1 <= u2 <= m -> P u1 v = true -> P u2 v = true -> u1 = u2) /\
  (forall u v, 1 <= u <= m -> 1 <= v <= r -> P u v = true -> S v = true) /\
  (forall v, 1 <= v <= r -> S v = true -> exists w, 1 <= w <= n /\ Q v w = true) /\
  (forall w v1 v2, 1 <= w <= n -> 1 <= v1 <= r -> 1 <= v2 <= r -> S v1 = true -> S v2 = true ->
                   Q v1 w = true -> Q v2 w = true -> v1 = v2).

(* ---------- counting: a partition of 1..M into blocks of size p ---------- *)
Definition count_sel (a : Z -> bool) (M p : Z) : list (list Z) := sel a (count_tab M p).
(* every element lies in exactly one of the blocks *)
Definition partition_of (M : Z) (blocks : list (list Z)) : Prop :=
  forall i, 1 <= i <= M -> len (filter (block_mem i) blocks) = 1.

(* ---------- perfect matching ---------- *)
Definition matching_sel (a : Z -> bool) (es : list (Z * Z)) : list (Z * Z) := sel a (matching_tab es).
Definition perfect_matching (n : Z) (Mt : list (Z * Z)) : Prop :=
  forall u, 1 <= u <= n -> len (filter (touches u) Mt) = 1.

(* ---------- subset cardinality: a 0/1 labelling of the edges = the set of edges labelled 1 ---------- *)
Definition subsetcard_sel (a : Z -> bool) (adj : list (list Z)) : list (Z * Z) := sel a (subsetcard_tab adj).
Definition deg_in (p : Z * Z -> bool) (E : list (Z * Z)) : Z := len (filter p E).
Definition subsetcard_labelling (adj : list (list Z)) (R : Z) (equalities : bool) (E1 : list (Z * Z)) : Prop :=
  let E := bip_index adj in
  (forall u, 1 <= u <= len adj ->
     let d := deg_in (fun e => fst e =? u) E in let s := deg_in (fun e => fst e =? u) E1 in
     if equalities then s = (d + 1) / 2 else 2 * s >= d) /\
  (forall v, 1 <= v <= R ->
     let d := deg_in (fun e => snd e =? v) E in let s := deg_in (fun e => snd e =? v) E1 in
     if equalities then s = d / 2 else 2 * s <= d).

(* ---------- clique-colouring ---------- *)
Definition cc_E (a : Z -> bool) (n : Z) : list (Z * Z) := sel a (cc_etab n).      (* edges u<v of the graph *)
Definition cc_Q (a : Z -> bool) (n i u : Z) : bool := a (cc_q n i u).              (* i-th clique member is u *)
Definition cc_C (a : Z -> bool) (n k c v l : Z) : bool := a (cc_r n k c v l).      (* vertex v has colour l *)
Definition adjacent (E : list (Z * Z)) (u v : Z) : Prop := In (u, v) E \/ In (v, u) E.
Definition clique_and_colouring (n k c : Z) (E : list (Z * Z)) (Q C : Z -> Z -> bool) : Prop :=
  (* Q is an injective function [k] -> [n] *)
  (forall i, 1 <= i <= k -> exists u, 1 <= u <= n /\ Q i u = true) /\
  (forall i u1 u2, 1 <= i <= k -> 1 <= u1 <= n -> 1 <= u2 <= n -> Q i u1 = true -> Q i u2 = true -> u1 = u2) /\
  (forall u i1 i2, 1 <= u <= n -> 1 <= i1 <= k -> 1 <= i2 <= k -> Q i1 u = true -> Q i2 u = true -> i1 = i2) /\
  (* whose image is a clique *)
  (forall i1 i2 u v, 1 <= i1 <= k -> 1 <= i2 <= k -> i1 <> i2 -> 1 <= u <= n -> 1 <= v <= n -> u <> v ->
                     Q i1 u = true -> Q i2 v = true -> adjacent E u v) /\
  (* C is a function [n] -> [c] *)
  (forall v, 1 <= v <= n -> exists l, 1 <= l <= c /\ C v l = true) /\
  (forall v l1 l2, 1 <= v <= n -> 1 <= l1 <= c -> 1 <= l2 <= c -> C v l1 = true -> C v l2 = true -> l1 = l2) /\
  (* that is a proper colouring *)
  (forall u v l, In (u, v) E -> 1 <= l <= c -> C u l = true -> C v l = true -> False).
