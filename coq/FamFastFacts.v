(* FamFastFacts.v — the pruned CNF rendering is the CNF rendering. *)
From Coq Require Import ZArith List Bool Lia Arith.
From Cnfgen Require Import Sem Comb Linear IR FamFast.
Import ListNotations.

Lemma combs_short {A} : forall (l : list A) k, (length l < k)%nat -> combs l k = [].
Proof.
  induction l as [|x t IH]; intros k H.
  - destruct k; [cbn in H; lia | reflexivity].
  - destruct k as [|k']; [lia|]. cbn [combs]. cbn [length] in H.
    rewrite (IH k') by lia. rewrite (IH (S k')) by lia. reflexivity.
Qed.

Lemma combs_fast_eq {A} : forall (l : list A) k, combs_fast l k = combs l k.
Proof.
  induction l as [|x t IH]; intros k.
  - destruct k; reflexivity.
  - destruct k as [|k']; [reflexivity|]. cbn [combs_fast combs].
    destruct (Nat.ltb_spec (length (x :: t)) (S k')) as [H|H].
    + cbn [length] in H. rewrite (combs_short t k') by lia. rewrite (combs_short t (S k')) by lia. reflexivity.
    + now rewrite !IH.
Qed.

Lemma add_geq_f_eq ls k : add_geq_f ls k = add_geq ls k.
Proof. unfold add_geq_f, add_geq. now rewrite combs_fast_eq. Qed.
Lemma add_linear_f_eq ls o k : add_linear_f ls o k = add_linear ls o k.
Proof. destruct o; cbn [add_linear_f add_linear]; unfold add_leq_f, add_leq; now rewrite ?add_geq_f_eq. Qed.
Lemma ir_cnf_f_eq i : ir_cnf_f i = ir_cnf i.
Proof.
  destruct i; cbn [ir_cnf_f ir_cnf]; rewrite ?add_linear_f_eq; try reflexivity.
Qed.
Theorem to_cnf_f_eq l : to_cnf_f l = to_cnf l.
Proof.
  unfold to_cnf_f, to_cnf. induction l as [|i t IH]; [reflexivity|]. cbn [flat_map]. now rewrite ir_cnf_f_eq, IH.
Qed.
