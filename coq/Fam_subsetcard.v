(* Fam_subsetcard.v — cnfgen/families/subsetcardinality.py: SubsetCardinalityFormula(B, equalities).
   Variables = new_bipartite_edges(B).  For every left vertex: add_loose_majority(e(u,None))
   or cardinality_eq(e(u,None), ceil(deg/2)); for every right vertex: add_loose_minority(e(None,v))
   or cardinality_eq(e(None,v), floor(deg/2)).  The bipartite graph is given as adjacency
   lists (see FamTab.v).  Definitions only. *)
From Coq Require Import ZArith List Bool.
From Cnfgen Require Import Sem Comb Linear IR FamTab.
Import ListNotations.
Open Scope Z_scope.

Definition subsetcard_tab (adj : list (list Z)) : list ((Z * Z) * Z) := number 0 (bip_index adj).
Definition subsetcard_numvar (adj : list (list Z)) : Z := len (bip_index adj).
Definition subsetcard_ir (adj : list (list Z)) (R : Z) (equalities : bool) : list ir :=
  let t := subsetcard_tab adj in
  map (fun u => let ls := row_ids t u in
                if equalities then ILin ls CEq ((len ls + 1) / 2) else ILooseMaj ls) (upto (len adj))
  ++ map (fun v => let ls := col_ids t v in
                   if equalities then ILin ls CEq (len ls / 2) else ILooseMin ls) (upto R).
