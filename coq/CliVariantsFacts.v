(* CliVariantsFacts.v — an option that selects a variant of a family selects exactly
   that variant and changes nothing else (C17), at the level of the family models:
   the number of variables does not depend on the option, the clauses of the base
   formula are all present, and the extra builder calls are exactly the ones the
   option names. *)
From Coq Require Import ZArith List Bool Lia.
From Cnfgen Require Import Sem Comb Linear IR FamTab Fam_php Fam_coloring Fam_subsetcard Fam_ordering.
Import ListNotations.
Open Scope Z_scope.

Lemma incl_app_mid {A} (a c x y : list A) :
  incl (a ++ c) (a ++ x ++ c ++ y).
Proof.
  intros z Hz. apply in_app_or in Hz as [Hz|Hz]; apply in_or_app; [now left|right].
  apply in_or_app. right. apply in_or_app. now left.
Qed.

(* php --functional / --onto *)
Lemma php_variants m n fu on :
  php_ir m n fu on = cm_complete 0 m n ++ (if on then cm_surjective 0 m n else [])
                     ++ cm_injective 0 m n ++ (if fu then cm_functional 0 m n else [])
  /\ incl (php_ir m n false false) (php_ir m n fu on).
Proof.
  split; [reflexivity|]. unfold php_ir. cbn [app]. rewrite !app_nil_r.
  apply incl_app_mid.
Qed.

Lemma gphp_variants adj R fu on :
  incl (gphp_ir adj R false false) (gphp_ir adj R fu on).
Proof.
  unfold gphp_ir. cbn [app]. rewrite !app_nil_r.
  apply incl_app_mid.
Qed.

(* op --total : exactly the totality clauses are added (plain encoding) *)
Lemma gop_total_variant nb plant knuth :
  gop_cnf nb true false plant knuth = gop_cnf nb false false plant knuth ++ gop_totality (len nb).
Proof. unfold gop_cnf. cbn [app]. rewrite !app_nil_r, <- !app_assoc. reflexivity. Qed.

(* the number of variables of the ordering principle depends on --smart only *)
Lemma gop_numvar_flags n smart : gop_numvar n smart = if smart then n * (n - 1) / 2 else n * (n - 1).
Proof. reflexivity. Qed.

(* subsetcard -e : same variables, one builder call per vertex either way *)
Lemma subsetcard_variant_length adj R e1 e2 :
  length (subsetcard_ir adj R e1) = length (subsetcard_ir adj R e2).
Proof. unfold subsetcard_ir. rewrite !app_length, !map_length. reflexivity. Qed.
