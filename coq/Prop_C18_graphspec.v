(* Property C18 (and C17), the GRAPH ARGUMENT of the command line: "any command line ends in a usable formula or a
   clean, shielded error ... never through an unhandled internal exception" / "options select exactly the variant they
   name".  Model: coq/GraphSpec.v (parse_graph_argument, obtain_graph and every obtain_* / modify_* of
   cnfgen/clitools/graph_build.py at the level of tokens, exceptions made explicit).  Proofs: coq/GraphSpecFacts.v.
   GSPCrash / GSVCrash = an exception other than ValueError reaches the caller (argparse turns ValueError and OSError
   into a command line error, anything else is a traceback). *)
From Coq Require Import ZArith List Bool Ascii String Sorted.
From Cnfgen Require Import Text GraphSpec GraphGen GraphSpecFacts GraphSpecFloatFacts.
Import ListNotations.
Open Scope Z_scope.

(* ---- parse_graph_argument ---- *)
(* for every graph type and EVERY token list: a parsed value or ValueError *)
Theorem graphspec_parse_never_crashes : forall g spec, gs_parse g spec <> GSPCrash.
Proof. exact gs_parse_never_crashes. Qed.
Print Assumptions graphspec_parse_never_crashes.

(* parsing consumes all tokens and invents none: the result renders back to exactly the token list *)
Theorem graphspec_parse_consumes_all : forall g spec p, gs_parse g spec = GSPOk p -> gs_render p = spec.
Proof. exact gs_parse_consumes_all. Qed.
Print Assumptions graphspec_parse_consumes_all.

(* every option occurs at most once, and only options of the graph type *)
Theorem graphspec_options_at_most_once : forall g spec p, gs_parse g spec = GSPOk p ->
  NoDup (map fst (p_opts p)) /\ Forall (fun k => In k (gs_options g)) (map fst (p_opts p)).
Proof. exact gs_parse_options_once. Qed.
Print Assumptions graphspec_options_at_most_once.

(* `save` always comes with a file name, and with a format of the graph type or "autodetect" *)
Theorem graphspec_save_has_filename : forall g spec p v,
  gs_parse g spec = GSPOk p -> gs_lookup gs_save (p_opts p) = Some v ->
  exists fmt f, v = [fmt; f] /\ (fmt = gs_autodetect \/ In fmt (gs_formats g)).
Proof. exact gs_parse_save_has_filename. Qed.
Print Assumptions graphspec_save_has_filename.

(* the other options hold exactly tokens that float() accepts *)
Theorem graphspec_option_tokens_numeric : forall g spec p k v,
  gs_parse g spec = GSPOk p -> k <> gs_save -> gs_lookup k (p_opts p) = Some v ->
  Forall (fun t => gs_float_ok t = true) v.
Proof. exact gs_parse_option_numeric. Qed.
Print Assumptions graphspec_option_tokens_numeric.

(* the first token selects the variant it names (C17): construction + its numeric tokens | format + file | file *)
Theorem graphspec_parse_head : forall g spec p, gs_parse g spec = GSPOk p ->
  p_gtype p = g /\
  exists s0 r, spec = s0 :: r /\
  ((In s0 (gs_constructions g) /\ p_construction p = Some s0 /\ p_filename p = None /\ p_fileformat p = None /\
    exists nums, p_args p = Some nums /\ Forall (fun t => gs_float_ok t = true) nums /\
                 nums = fst (gs_consume_numbers r)) \/
   (~ In s0 (gs_constructions g) /\ In s0 (gs_formats g) /\ p_construction p = None /\ p_args p = None /\
    p_fileformat p = Some s0 /\ exists f r', r = f :: r' /\ p_filename p = Some f) \/
   (~ In s0 (gs_constructions g) /\ ~ In s0 (gs_formats g) /\ p_construction p = None /\ p_args p = None /\
    p_filename p = Some s0 /\ p_fileformat p = Some gs_autodetect)).
Proof. exact gs_parse_head. Qed.
Print Assumptions graphspec_parse_head.

(* what parse_graph_argument returns is what obtain_graph relies on *)
Theorem graphspec_parse_wf : forall g spec p, gs_parse g spec = GSPOk p -> gs_wf p = true.
Proof. exact gs_parse_wf. Qed.
Print Assumptions graphspec_parse_wf.

(* ---- obtain_graph: validation of the arguments ---- *)
(* for every parsed value (every value satisfying what the parser guarantees) and every size of an input graph:
   a plan of calls or ValueError, never TypeError / AssertionError / IndexError / ZeroDivisionError / KeyError *)
Theorem graphspec_validate_never_crashes : forall fo p k, gs_wf p = true -> gs_validate fo p <> GSVCrash k.
Proof. exact gs_validate_never_crashes. Qed.
Print Assumptions graphspec_validate_never_crashes.

(* make_graph_from_spec on every token list *)
Theorem graphspec_make_never_crashes : forall fo g spec,
  (forall k, gs_make fo g spec <> inl (GSVCrash k)) /\ gs_make fo g spec <> inr GSPCrash.
Proof. exact gs_make_never_crashes. Qed.
Print Assumptions graphspec_make_never_crashes.

(* the hypothesis is not idle: on other dictionaries obtain_graph does raise AssertionError / TypeError *)
Theorem graphspec_validate_needs_wf :
  gs_validate (0, 0) (mk_gs_parsed GSDag (Some (lit "gnp")) (Some [lit "3"; lit ".5"]) true None None []) = GSVCrash KAssert
  /\ gs_validate (0, 0) (mk_gs_parsed GSBipartite (Some (lit "shift")) None true None None []) = GSVCrash KType
  /\ gs_validate (0, 0) (mk_gs_parsed GSBipartite (Some (lit "empty")) (Some [lit "2"; lit "2"]) true None None
                                      [(lit "splitedges", [lit "0"])]) = GSVCrash KType.
Proof. exact gs_validate_needs_wf. Qed.
Print Assumptions graphspec_validate_needs_wf.

(* guard => precondition, for every construction, modifier and `save`; and (C17) the calls made are exactly the
   generator named by the first token followed by the options present, each once, in the order of obtain_graph *)
Theorem graphspec_accepted_precondition : forall fo p plan,
  gs_wf p = true -> gs_validate fo p = GSVOk plan ->
  gs_plan_pre (p_gtype p) fo plan /\ map gs_step_kind plan = gs_expected_kinds p.
Proof. exact gs_validate_ok. Qed.
Print Assumptions graphspec_accepted_precondition.

Theorem graphspec_accepted_call : forall fo g spec p c rest,
  gs_parse g spec = GSPOk p -> gs_validate fo p = GSVOk (SGen c :: rest) ->
  gs_call_pre g c /\ Forall (gs_step_pre g (gs_call_order fo c)) rest.
Proof. exact gs_accepted_call. Qed.
Print Assumptions graphspec_accepted_call.

(* the same, spelled out per construction *)
Theorem graphspec_gnd_guard : forall fo spec p n d rest,
  gs_parse GSSimple spec = GSPOk p -> gs_validate fo p = GSVOk (SGen (GCGnd n d) :: rest) ->
  0 < d < n /\ (n * d) mod 2 = 0.
Proof. exact gs_gnd_guard. Qed.
Print Assumptions graphspec_gnd_guard.
Theorem graphspec_gnm_guard : forall fo spec p n m rest,
  gs_parse GSSimple spec = GSPOk p -> gs_validate fo p = GSVOk (SGen (GCGnm n m) :: rest) ->
  0 < n /\ 0 <= m <= n * (n - 1) / 2.
Proof. exact gs_gnm_guard. Qed.
Print Assumptions graphspec_gnm_guard.
Theorem graphspec_gnp_guard : forall fo spec p n q t rest,
  gs_parse GSSimple spec = GSPOk p -> gs_validate fo p = GSVOk (SGen (GCGnp n q t) :: rest) ->
  0 < n /\ gs_ge_zero q = true /\ gs_le_one q = true /\ 0 < t.
Proof. exact gs_gnp_guard. Qed.
Print Assumptions graphspec_gnp_guard.
Theorem graphspec_grid_guard : forall fo spec p per dims rest,
  gs_parse GSSimple spec = GSPOk p -> gs_validate fo p = GSVOk (SGen (GCGrid per dims) :: rest) ->
  dims <> [] /\ Forall (fun d => 0 < d) dims.
Proof. exact gs_grid_guard. Qed.
Print Assumptions graphspec_grid_guard.
Theorem graphspec_regular_guard : forall fo spec p l r d rest,
  gs_parse GSBipartite spec = GSPOk p -> gs_validate fo p = GSVOk (SGen (GCRegular l r d) :: rest) ->
  1 <= l /\ 1 <= r /\ 0 <= d <= r /\ (l * d) mod r = 0 /\ 0 <= l * d / r <= l.
Proof. exact gs_regular_guard. Qed.
Print Assumptions graphspec_regular_guard.
Theorem graphspec_glrm_guard : forall fo spec p l r m rest,
  gs_parse GSBipartite spec = GSPOk p -> gs_validate fo p = GSVOk (SGen (GCGlrm l r m) :: rest) ->
  1 <= l /\ 1 <= r /\ 0 <= m <= l * r.
Proof. exact gs_glrm_guard. Qed.
Print Assumptions graphspec_glrm_guard.
Theorem graphspec_glrd_guard : forall fo spec p l r d rest,
  gs_parse GSBipartite spec = GSPOk p -> gs_validate fo p = GSVOk (SGen (GCGlrd l r d) :: rest) ->
  1 <= l /\ 1 <= r /\ 0 <= d <= r.
Proof. exact gs_glrd_guard. Qed.
Print Assumptions graphspec_glrd_guard.
Theorem graphspec_shift_guard : forall fo spec p l r pat rest,
  gs_parse GSBipartite spec = GSPOk p -> gs_validate fo p = GSVOk (SGen (GCShift l r pat) :: rest) ->
  1 <= l /\ 1 <= r /\ StronglySorted Z.lt pat /\ Forall (fun x => 0 <= x <= r) pat.
Proof. exact gs_shift_guard. Qed.
Print Assumptions graphspec_shift_guard.
Theorem graphspec_plantclique_guard : forall fo spec p c k rest,
  gs_parse GSSimple spec = GSPOk p -> gs_validate fo p = GSVOk (SGen c :: SPlantClique k :: rest) ->
  0 <= k <= fst (gs_call_order fo c).
Proof. exact gs_plantclique_guard. Qed.
Print Assumptions graphspec_plantclique_guard.
Theorem graphspec_read_format_guard : forall fo g spec p f fmt rest,
  gs_parse g spec = GSPOk p -> gs_validate fo p = GSVOk (SGen (GCRead f fmt) :: rest) -> In fmt (gs_formats g).
Proof. exact gs_read_guard. Qed.
Print Assumptions graphspec_read_format_guard.
Theorem graphspec_save_format_guard : forall fo g spec p plan fmt f,
  gs_parse g spec = GSPOk p -> gs_validate fo p = GSVOk plan -> In (SSave fmt f) plan -> In fmt (gs_formats g).
Proof. exact gs_save_guard. Qed.
Print Assumptions graphspec_save_format_guard.

(* one guard is weaker than what its construction needs: `torus` accepts a dimension of size 1, for which
   networkx.grid_graph(periodic=True) produces a self-loop that Graph.from_networkx refuses (a ValueError raised by
   the callee: still a clean error, with a message about vertices).  graphspec_grid_guard is the _partial statement. *)
Theorem graphspec_torus_guard_refuted :
  exists spec p plan c, gs_parse GSSimple spec = GSPOk p /\ gs_validate (0, 0) p = GSVOk plan /\
                        plan = [SGen c] /\ ~ gs_torus_ok c.
Proof. exact gs_torus_guard_refuted. Qed.
Print Assumptions graphspec_torus_guard_refuted.

(* ---- the two comparisons made with a float token, against their arithmetic meaning ---- *)
(* `p <= 1` after rounding to the nearest double (ties to even)  iff  m * 10^e <= 1 + 2^-53 *)
Theorem graphspec_le_one_meaning : forall m e, 0 < m ->
  (gs_le_one (GSDec false m e) = true <->
   m * 2 ^ 53 * 10 ^ (Z.max 0 e) <= (2 ^ 53 + 1) * 10 ^ (Z.max 0 (- e))).
Proof. exact gs_le_one_spec. Qed.
Print Assumptions graphspec_le_one_meaning.
(* `0 <= p` for a negative token  iff  its magnitude m * 10^e is at most 2^-1075 (it is read as -0.0) *)
Theorem graphspec_ge_zero_meaning : forall m e, 0 < m ->
  (gs_ge_zero (GSDec true m e) = true <->
   m * 2 ^ 1075 * 10 ^ (Z.max 0 e) <= 10 ^ (Z.max 0 (- e))).
Proof. exact gs_ge_zero_spec. Qed.
Print Assumptions graphspec_ge_zero_meaning.

Example graphspec_nonvacuous :
  let t := map lit in
  gs_make (0, 0) GSSimple (t ["gnp"; "10"; ".5"; "plantclique"; "3"; "addedges"; "2"; "save"; "kthlist"; "out"]%string)
     = inl (GSVOk [SGen (GCGnp 10 (GSDec false 5 (-1)) 1); SPlantClique 3; SAddEdges 2; SSave (lit "kthlist") (lit "out")])
  /\ gs_make (0, 0) GSSimple (t ["gnd"; "4"; "4"]%string) = inl (GSVErr VGndArgs)
  /\ gs_make (0, 0) GSSimple (t ["gnd"; "5"; "3"]%string) = inl (GSVErr VGndParity)
  /\ gs_make (0, 0) GSSimple (t ["gnd"; "6"; "3"]%string) = inl (GSVOk [SGen (GCGnd 6 3)])
  /\ gs_make (0, 0) GSBipartite (t ["regular"; "6"; "4"; "2"]%string) = inl (GSVOk [SGen (GCRegular 6 4 2)])
  /\ gs_make (0, 0) GSBipartite (t ["regular"; "6"; "4"; "3"]%string) = inl (GSVErr VRegular)
  /\ gs_make (0, 0) GSBipartite (t ["regular"; "6"; "0"; "0"]%string) = inl (GSVErr VRegular)
  /\ gs_make (0, 0) GSBipartite (t ["shift"; "3"; "4"; "4"; "0"; "2"]%string) = inl (GSVOk [SGen (GCShift 3 4 [0; 2; 4])])
  /\ gs_make (0, 0) GSSimple (t ["gnp"; "3"; "1.00000000000000011102230246251565404236316680908203125"]%string)
     = inl (GSVOk [SGen (GCGnp 3 (GSDec false 100000000000000011102230246251565404236316680908203125 (-53)) 1)])
  /\ gs_make (0, 0) GSSimple (t ["gnp"; "3"; "1.00000000000000011102230246251565404236316680908203126"]%string) = inl (GSVErr VGnpArgs)
  /\ gs_make (0, 0) GSSimple (t ["gnp"; "3"; "-1e-400"]%string) = inl (GSVOk [SGen (GCGnp 3 (GSDec true 1 (-400)) 1)])
  /\ gs_make (0, 0) GSSimple (t ["gnp"; "3"; "nan"]%string) = inl (GSVErr VGnpArgs)
  /\ gs_make (0, 0) GSSimple (t ["gnm"; "1_0"; " 3 "]%string) = inl (GSVOk [SGen (GCGnm 10 3)])
  /\ gs_make (0, 0) GSSimple (t ["gnm"; "1e1"; "3"]%string) = inl (GSVErr VGnmArgs)
  /\ gs_make (4, 0) GSSimple (t ["g.gml"; "plantclique"; "4"]%string) = inl (GSVOk [SGen (GCRead (lit "g.gml") (lit "gml")); SPlantClique 4])
  /\ gs_make (4, 0) GSSimple (t ["g.gml"; "plantclique"; "5"]%string) = inl (GSVErr VPlantCliqueLarge)
  /\ gs_make (0, 0) GSSimple (t ["d.x/.gml"]%string) = inl (GSVErr VFileNoExt)
  /\ gs_make (0, 0) GSSimple (t ["g.matrix"]%string) = inl (GSVErr VFileBadExt)
  /\ gs_make (0, 0) GSDag (t ["tree"; "2"; "save"]%string) = inr (GSPErr PESaveMissing)
  /\ gs_make (0, 0) GSDag (t ["tree"; "2"; "save"; "dot"]%string) = inr (GSPErr PESaveMissingFile)
  /\ gs_make (0, 0) GSDag (t ["tree"; "2"; "save"; "x.txt"]%string) = inl (GSVErr VSaveExt)
  /\ gs_make (0, 0) GSSimple (t [""]%string) = inl (GSVErr VFileNoExt)
  /\ gs_make (0, 0) GSSimple (t ["gnp"; "3"; ".5"; "addedges"; "1"; "addedges"; "1"]%string) = inr (GSPErr PEMultiple)
  /\ gs_make (0, 0) GSSimple (t ["gnp"; "3"; ".5"; "dag"]%string) = inr (GSPErr PENoNeed).
Proof. vm_compute. repeat split. Qed.
