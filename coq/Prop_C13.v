(* Property C13 — random k-CNF and k-XOR formulas have exactly the promised
   shape.  ONLY statements; every proof is `exact <lemma>`.

   The samplers (Rand.v) are functions of the stream `s` of values returned by
   random.sample / random.choice / random.randint.  A result ROracleEnd /
   ROracleBad means the stream ended or held a draw outside the contract of
   the function called (sample_ok, membership, range); every statement below
   is for EVERY stream, so in particular for every stream inside the
   contracts, whatever the seed. *)
From Coq Require Import ZArith List Bool.
From Cnfgen Require Import Sem Comb Linear SemFacts LinearFacts Rand RandFacts.
Import ListNotations.
Open Scope Z_scope.

(* ---------- k-CNF ---------- *)

(* a returned formula has n variables and exactly m pairwise distinct clauses,
   each over k distinct variables of 1..n, each containing a literal of every
   planted assignment -- through the rejection loop and through the dense
   hand-over alike *)
Theorem C13_kcnf_shape : forall k n m planted s nv F rest,
  random_kcnf k n m planted s = ROk (nv, F, rest) ->
  nv = n /\ len F = m /\ NoDup F /\
  (forall c, In c F ->
     len c = k /\ NoDup (map Z.abs c) /\ (forall l, In l c -> 1 <= Z.abs l <= n) /\
     clause_satisfied c planted = true).
Proof. exact random_kcnf_shape_plain. Qed.
Print Assumptions C13_kcnf_shape.

(* every planted total assignment satisfies the formula *)
Theorem C13_kcnf_planted_sat : forall k n m planted s nv F rest p,
  random_kcnf k n m planted s = ROk (nv, F, rest) -> In p planted -> total_consistent n p ->
  cnf_sat (asg_of p) F = true.
Proof. exact random_kcnf_planted_sat. Qed.
Print Assumptions C13_kcnf_planted_sat.

(* all_clauses lists, without repetition, exactly the clauses over k distinct
   (increasing) variables of 1..n compatible with the planted assignments: its
   length is "the number of clauses compatible with the planted assignments" *)
Theorem C13_all_clauses_exact : forall k n planted,
  NoDup (all_clauses k n planted) /\
  forall c, In c (all_clauses k n planted) <->
            (length c = Z.to_nat k /\ ssorted (map Z.abs c) /\ (forall l, In l c -> 1 <= Z.abs l <= n)) /\
            clause_satisfied c planted = true.
Proof. exact (fun k n planted => conj (NoDup_all_clauses k n planted) (all_clauses_spec k n planted)). Qed.
Print Assumptions C13_all_clauses_exact.

(* ValueError only when an argument is negative, k > n, or m exceeds that number ... *)
Theorem C13_kcnf_error_only_if : forall k n m planted s,
  random_kcnf k n m planted s = RValueError ->
  n < 0 \/ m < 0 \/ k < 0 \/ k > n \/ m > len (all_clauses k n planted).
Proof. exact random_kcnf_verr. Qed.
Print Assumptions C13_kcnf_error_only_if.

(* ... and in that case no stream whatsoever yields a formula *)
Theorem C13_kcnf_error_if : forall k n m planted s,
  n < 0 \/ m < 0 \/ k < 0 \/ k > n \/ m > len (all_clauses k n planted) ->
  forall r, random_kcnf k n m planted s <> ROk r.
Proof. exact random_kcnf_must_fail. Qed.
Print Assumptions C13_kcnf_error_if.

Theorem C13_kcnf_bad_args : forall k n m planted s,
  n < 0 \/ m < 0 \/ k < 0 \/ k > n -> random_kcnf k n m planted s = RValueError.
Proof. exact random_kcnf_bad_args. Qed.
Print Assumptions C13_kcnf_bad_args.

(* ---------- k-XOR ---------- *)

(* exactly m pairwise distinct parity constraints (X, b), each on k distinct
   variables of 1..n, each satisfied by every planted assignment; the clauses
   are the add_parity expansions, in order *)
Theorem C13_kxor_shape : forall k n m planted s nv ps F rest,
  random_kxor k n m planted s = ROk (nv, ps, F, rest) ->
  nv = n /\ len ps = m /\ NoDup ps /\ F = xor_clauses ps /\
  (forall X b, In (X, b) ps ->
     len X = k /\ NoDup X /\ (forall v, In v X -> 1 <= v <= n) /\ (b = 0 \/ b = 1) /\
     parity_satisfied X b planted = Some true).
Proof. exact random_kxor_shape_plain. Qed.
Print Assumptions C13_kxor_shape.

(* the satisfying assignments are the solutions of the linear system *)
Theorem C13_kxor_linear_system : forall k n m planted s nv ps F rest a,
  random_kxor k n m planted s = ROk (nv, ps, F, rest) ->
  cnf_sat a F = forallb (fun Xb => eqb (parity_of a (fst Xb)) (snd Xb =? 1)) ps.
Proof. exact random_kxor_sem. Qed.
Print Assumptions C13_kxor_linear_system.

Theorem C13_kxor_planted_sat : forall k n m planted s nv ps F rest p,
  random_kxor k n m planted s = ROk (nv, ps, F, rest) -> In p planted ->
  cnf_sat (asg_of p) F = true.
Proof. exact random_kxor_planted_sat. Qed.
Print Assumptions C13_kxor_planted_sat.

(* the full list of parities compatible with planted assignments that define
   every variable: no repetition, exactly the compatible ones *)
Theorem C13_all_good_parities_exact : forall k n planted,
  (forall p, In p planted -> total_on n p) ->
  exists full, all_good_parities k n planted = Some full /\ NoDup full /\
    forall X b, In (X, b) full <->
      In X (combs (variables n) (Z.to_nat k)) /\ (b = 0 \/ b = 1) /\ parity_satisfied X b planted = Some true.
Proof.
  exact (fun k n planted H =>
    match all_good_parities_total k n planted H with
    | ex_intro _ full E => ex_intro _ full (conj E (conj (NoDup_all_good_parities k n planted full E)
                                                          (all_good_parities_spec k n planted full E)))
    end).
Qed.
Print Assumptions C13_all_good_parities_exact.

Theorem C13_kxor_error_only_if : forall k n m planted s,
  (forall p, In p planted -> total_on n p) ->
  random_kxor k n m planted s = RValueError ->
  n < 0 \/ m < 0 \/ k < 0 \/ k > n \/
  exists full, all_good_parities k n planted = Some full /\ m > len full.
Proof. exact random_kxor_verr. Qed.
Print Assumptions C13_kxor_error_only_if.

Theorem C13_kxor_error_if : forall k n m planted s,
  (n < 0 \/ m < 0 \/ k < 0 \/ k > n \/
   exists full, all_good_parities k n planted = Some full /\ m > len full) ->
  forall r, random_kxor k n m planted s <> ROk r.
Proof. exact random_kxor_must_fail. Qed.
Print Assumptions C13_kxor_error_if.

Theorem C13_kxor_bad_args : forall k n m planted s,
  n < 0 \/ m < 0 \/ k < 0 \/ k > n -> random_kxor k n m planted s = RValueError.
Proof. exact random_kxor_bad_args. Qed.
Print Assumptions C13_kxor_bad_args.

(* ---------- cnfgen randkcnf / randkxor [-p] ---------- *)

(* --plant draws a total assignment, which satisfies the formula produced *)
Theorem C13_randkcnf_plant : forall k n m s nv F rest,
  rand_cmd k n m true s = ROk (nv, F, rest) ->
  exists p s1, total_consistent n p /\ random_kcnf k n m [p] s1 = ROk (nv, F, rest) /\ cnf_sat (asg_of p) F = true.
Proof. exact rand_cmd_planted. Qed.
Print Assumptions C13_randkcnf_plant.

Theorem C13_randkxor_plant : forall k n m s nv ps F rest,
  randxor_cmd k n m true s = ROk (nv, ps, F, rest) ->
  exists p s1, total_consistent n p /\ random_kxor k n m [p] s1 = ROk (nv, ps, F, rest) /\ cnf_sat (asg_of p) F = true.
Proof. exact randxor_cmd_planted. Qed.
Print Assumptions C13_randkxor_plant.

(* ---------- non-vacuity: streams inside the contracts reach every branch ---------- *)

(* rejection sampling succeeds; the same clause drawn twice is skipped; a clause
   falsified by the planted assignment [1;-2;3] is skipped *)
Example C13_rejection_nonvacuous :
  random_kcnf 2 3 2 [[1; -2; 3]]
    [DSample [2; 0]%nat; DChoice 1; DChoice (-1);      (* variables 3,1 -> sorted 1,3 -> [1;-3] *)
     DSample [0; 2]%nat; DChoice 1; DChoice (-1);      (* the same clause again: skipped *)
     DSample [0; 1]%nat; DChoice (-1); DChoice 1;      (* [-1;2] is falsified by the planted assignment: skipped *)
     DSample [1; 2]%nat; DChoice (-1); DChoice (-1)]   (* [-2;-3] *)
  = ROk (3, [[1; -3]; [-2; -3]], []).
Proof. vm_compute. reflexivity. Qed.

(* the oracle keeps answering the same clause: after 10*m rounds the sampler
   hands over to dense sampling and still returns m distinct clauses; with
   m = 3 > 2 = number of 1-clauses on one variable it raises ValueError *)
Example C13_dense_nonvacuous :
  random_kcnf 1 1 2 [] (concat (repeat [DSample [0%nat]; DChoice 1] 20) ++ [DSample [1; 0]%nat])
  = ROk (1, [[1]; [-1]], [])
  /\ random_kcnf 1 1 3 [] (concat (repeat [DSample [0%nat]; DChoice 1] 30)) = RValueError
  /\ random_kxor 1 1 2 [] (concat (repeat [DSample [0%nat]; DInt 1] 20) ++ [DSample [1; 0]%nat])
  = ROk (1, [([1], 1); ([1], 0)], [[1]; [-1]], [])
  /\ all_good_parities 2 3 [[1; -2; 3]] = Some [([1; 2], 1); ([1; 3], 0); ([2; 3], 1)].
Proof. vm_compute. repeat split. Qed.

(* a draw outside the contract of random.sample (a repeated position) is not accepted *)
Example C13_contract_nonvacuous :
  random_kcnf 2 3 1 [] [DSample [1; 1]%nat; DChoice 1; DChoice 1] = ROracleBad
  /\ random_kcnf 2 3 1 [] [DSample [1; 2]%nat; DChoice 1] = ROracleEnd.
Proof. vm_compute. split; reflexivity. Qed.
