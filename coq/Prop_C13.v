(* Property C13 — placeholder while the facts are being proved *)
