(* Property C15 -- graph constructions on the command line deliver the structure they name.
   ONLY statements; every proof is `exact <lemma>` (lemmas in GraphGenFacts.v).
   Every sampler is a function of an oracle stream of recorded random draws (GraphGen.v); the statements
   quantify over EVERY stream: whenever the construction returns a graph, the graph has the promised structure.
   The model follows the CURRENT code of /repo; the code as found (before the repairs 434eacc, 9fe5425, e36db3c,
   458cbc2, 50573cf) is kept as *_as_found and what failed there stays visible in the *_as_found_refuted theorems. *)
From Coq Require Import ZArith List Bool.
From Cnfgen Require Import Comb GText GraphIO GraphIOFacts GraphGen GraphGenFacts GraphGenRegular GraphGenRepaired.
Import ListNotations.
Open Scope Z_scope.

(* ---- (1) glrm: exactly m edges, for every m the guard lets through, both sampling strategies ---- *)
(* the dense branch samples from the list of all pairs: every 0 <= m <= L*R *)
Theorem C15_m_edges : forall L R m s G s',
  gg_m_edges L R m s = GGOk (G, s') ->
  gg_nedges G = m /\ io_kind G = GioBipartite /\ io_n G = L /\ io_r G = R /\ 0 <= m <= L * R.
Proof. exact m_edges_spec_exact. Qed.
Print Assumptions C15_m_edges.
(* every request, every stream: a graph with exactly m edges, a refusal with ValueError, or a stream outside the
   contract of `random`; no other exception (no TypeError) *)
Theorem C15_m_edges_total : forall L R m s,
  match gg_m_edges L R m s with
  | GGOk (G, _) => gg_nedges G = m /\ io_kind G = GioBipartite /\ io_n G = L /\ io_r G = R /\ 0 <= m <= L * R
  | GGRaise e => e = EValueError
  | GGBadOracle => True
  | _ => False
  end.
Proof. exact m_edges_full. Qed.
Print Assumptions C15_m_edges_total.
(* the code as found (before 434eacc): only the sparse branch delivers *)
Theorem C15_m_edges_as_found_partial : forall L R m s G s',
  gg_m_edges_as_found L R m s = GGOk (G, s') -> m <= L * R / 3 ->
  gg_nedges G = m /\ io_kind G = GioBipartite /\ io_n G = L /\ io_r G = R /\ 0 <= m <= L * R.
Proof. exact m_edges_sparse_exact. Qed.
Print Assumptions C15_m_edges_as_found_partial.
(* ... and the dense branch raised TypeError on a request the guard accepts (glrm 3 3 8): defect D10 *)
Theorem C15_m_edges_as_found_refuted : exists L R m s, 0 <= m <= L * R /\ 1 <= L /\ 1 <= R /\
  gg_m_edges_as_found L R m s = GGRaise ETypeError.
Proof. exact m_edges_as_is_refuted. Qed.
Print Assumptions C15_m_edges_as_found_refuted.
Example C15_m_edges_nonvacuous :
  gg_m_edges 3 3 8 [0; 1; 2; 3; 4; 5; 6; 7] =
    GGOk (mkIOG GioBipartite [] 3 3 [(1,1); (1,2); (1,3); (2,1); (2,2); (2,3); (3,1); (3,2)], []) /\
  gg_m_edges_as_found 3 3 3 [1; 1; 1; 1; 2; 2; 3; 1] = GGOk (mkIOG GioBipartite [] 3 3 [(1,1); (2,2); (3,1)], []) /\
  gg_m_edges_as_found 3 3 3 [1; 1; 4; 1] = GGBadOracle.
Proof. vm_compute. repeat split. Qed.

(* ---- (2) glrd: every left vertex has degree min(r, d) ---- *)
Theorem C15_left_regular : forall l r d s G s', gg_left_regular l r d s = GGOk (G, s') ->
  io_kind G = GioBipartite /\ io_n G = l /\ io_r G = r /\
  forall u, 1 <= u <= l -> Z.of_nat (length (gio_succs G u)) = Z.min r d.
Proof. exact left_regular_degree. Qed.
Print Assumptions C15_left_regular.
Example C15_left_regular_nonvacuous :
  gg_left_regular 2 3 2 [0; 2; 1; 0] = GGOk (mkIOG GioBipartite [] 2 3 [(1,1); (1,3); (2,1); (2,2)], []).
Proof. vm_compute. reflexivity. Qed.

(* ---- (3) regular: degree d on the left and l*d/r on the right, whenever it returns ---- *)
(* the free pair found by the exhaustive test is used: for every stream and every restart fuel *)
Theorem C15_regular : forall restarts l r d s G s',
  gg_random_regular restarts l r d s = GGOk (G, s') ->
  io_kind G = GioBipartite /\
  (forall u, 1 <= u <= l -> Z.of_nat (length (gio_succs G u)) = d) /\
  (forall v, 1 <= v <= r -> Z.of_nat (length (gio_preds G v)) = l * d / r) /\
  gg_nedges G = l * d.
Proof. exact random_regular_spec_degrees. Qed.
Print Assumptions C15_regular.
(* the code as found (before e36db3c): regular exactly when no position was skipped, i.e. when the graph has l*d edges *)
Theorem C15_regular_as_found_partial : forall restarts l r d s G s',
  gg_random_regular_as_found restarts l r d s = GGOk (G, s') -> gg_nedges G = l * d ->
  io_kind G = GioBipartite /\
  (forall u, 1 <= u <= l -> Z.of_nat (length (gio_succs G u)) = d) /\
  (forall v, 1 <= v <= r -> Z.of_nat (length (gio_preds G v)) = l * d / r) /\
  gg_nedges G = l * d.
Proof. exact random_regular_as_is_partial. Qed.
Print Assumptions C15_regular_as_found_partial.
(* ... and a stream on which it returned a graph that is not regular, for arguments the guard accepts (regular 2 2 2): D40 *)
Theorem C15_regular_as_found_refuted : exists restarts l r d s G s',
  gg_guard_regular [l; r; d] = true /\ gg_random_regular_as_found restarts l r d s = GGOk (G, s') /\
  exists u, 1 <= u <= l /\ Z.of_nat (length (gio_succs G u)) <> d.
Proof. exact random_regular_as_is_refuted. Qed.
Print Assumptions C15_regular_as_found_refuted.
Example C15_regular_nonvacuous :
  gg_random_regular 1 2 2 2 [0; 0; 1; 1; 2; 3; 3; 3] = GGOk (mkIOG GioBipartite [] 2 2 [(1,1); (1,2); (2,1); (2,2)], []) /\
  gg_random_regular_as_found 1 2 2 2 [0; 0; 1; 1; 2; 3; 3; 3] = GGOk (mkIOG GioBipartite [] 2 2 [(1,1); (1,2); (2,1); (2,2)], []) /\
  gg_random_regular_as_found 1 2 2 2 ([0; 0] ++ concat (repeat [2; 2] 12) ++ [2; 3; 3; 3]) = GGOk (mkIOG GioBipartite [] 2 2 [(1,1); (1,2); (2,1)], []) /\
  gg_random_regular 1 2 2 2 ([0; 0] ++ concat (repeat [2; 2] 12) ++ [2; 3; 3; 3]) = GGOk (mkIOG GioBipartite [] 2 2 [(1,1); (1,2); (2,1); (2,2)], []) /\
  gg_random_regular 5 3 0 2 [] = GGZeroDiv /\ gg_random_regular 5 3 2 1 [] = GGRaise EValueError.
Proof. vm_compute. repeat split. Qed.

(* ---- (4) path, tree, pyramid: closed-form vertex and edge counts, acyclic ---- *)
Theorem C15_dag_path : forall len, 0 <= len -> exists G, gg_dag_path len = GGOk G /\
  io_kind G = GioDirected /\ io_n G = len + 1 /\ gg_nedges G = len /\ gio_is_dag G = true /\
  (forall u v, In (u, v) (io_edges G) <-> 1 <= u <= len /\ v = u + 1).
Proof. exact dag_path_shape. Qed.
Print Assumptions C15_dag_path.
Theorem C15_dag_tree : forall h, 0 <= h -> exists G, gg_dag_tree h = GGOk G /\
  io_kind G = GioDirected /\ io_n G = 2 ^ (h + 1) - 1 /\ gg_nedges G = 2 ^ (h + 1) - 2 /\ gio_is_dag G = true.
Proof. exact dag_tree_shape. Qed.
Print Assumptions C15_dag_tree.
Theorem C15_dag_pyramid : forall h, 0 <= h -> exists G, gg_dag_pyramid h = GGOk G /\
  io_kind G = GioDirected /\ io_n G = (h + 1) * (h + 2) / 2 /\ gg_nedges G = h * (h + 1) /\ gio_is_dag G = true.
Proof. exact dag_pyramid_shape. Qed.
Print Assumptions C15_dag_pyramid.
Theorem C15_dag_negative_refused : forall h, h < 0 ->
  gg_dag_path h = GGRaise EValueError /\ gg_dag_tree h = GGRaise EValueError /\ gg_dag_pyramid h = GGRaise EValueError.
Proof. exact dag_negative_refused. Qed.
Print Assumptions C15_dag_negative_refused.
Example C15_dag_nonvacuous :
  gg_dag_pyramid 2 = GGOk (mkIOG GioDirected [] 6 0 [(1,4); (2,4); (2,5); (3,5); (4,6); (5,6)]) /\
  gg_dag_tree 2 = GGOk (mkIOG GioDirected [] 7 0 [(1,5); (2,5); (3,6); (4,6); (5,7); (6,7)]) /\
  gg_dag_path 3 = GGOk (mkIOG GioDirected [] 4 0 [(1,2); (2,3); (3,4)]).
Proof. vm_compute. repeat split. Qed.

(* ---- (5) plantclique / plantbiclique: the sampled set is a clique afterwards, nothing is removed, nothing else is added ---- *)
Theorem C15_plantclique : forall G k s G' s', io_kind G = GioSimple -> gg_plantclique G k s = GGOk (G', s') ->
  exists c, length c = Z.to_nat k /\ NoDup c /\ 0 <= k <= io_n G /\ (forall v, In v c -> 1 <= v <= io_n G) /\
    (forall v w, In v c -> In w c -> v <> w -> gio_has_edge G' v w = true) /\
    (forall e, In e (io_edges G) -> In e (io_edges G')) /\
    (forall e, In e (io_edges G') -> In e (io_edges G) \/ (In (fst e) c /\ In (snd e) c)) /\
    io_kind G' = GioSimple /\ io_n G' = io_n G.
Proof. exact plantclique_clique. Qed.
Print Assumptions C15_plantclique.
Theorem C15_plantbiclique : forall G a b s G' s', io_kind G = GioBipartite -> gg_plantbiclique G a b s = GGOk (G', s') ->
  exists lf rt, length lf = Z.to_nat a /\ length rt = Z.to_nat b /\ NoDup lf /\ NoDup rt /\
    (forall u, In u lf -> 1 <= u <= io_n G) /\ (forall v, In v rt -> 1 <= v <= io_r G) /\
    (forall u v, In u lf -> In v rt -> gio_has_edge G' u v = true) /\
    (forall e, In e (io_edges G) -> In e (io_edges G')) /\
    (forall e, In e (io_edges G') -> In e (io_edges G) \/ (In (fst e) lf /\ In (snd e) rt)) /\
    io_kind G' = GioBipartite /\ io_n G' = io_n G /\ io_r G' = io_r G.
Proof. exact plantbiclique_biclique. Qed.
Print Assumptions C15_plantbiclique.
Example C15_plant_nonvacuous :
  gg_plantclique (mkIOG GioSimple [] 5 0 [(1,2)]) 3 [4; 0; 2] = GGOk (mkIOG GioSimple [] 5 0 [(1,2); (1,3); (1,5); (3,5)], []) /\
  gg_plantclique (mkIOG GioSimple [] 5 0 [(1,2)]) 6 [] = GGRaise EValueError /\
  gg_plantclique (mkIOG GioSimple [] 5 0 [(1,2)]) 2 [4; 4] = GGBadOracle /\
  gg_plantbiclique (mkIOG GioBipartite [] 2 3 []) 1 2 [1; 2; 0] = GGOk (mkIOG GioBipartite [] 2 3 [(2,1); (2,3)], []).
Proof. vm_compute. repeat split. Qed.

(* ---- (6) addedges: exactly m more edges, the old ones kept, orders unchanged (simple and bipartite graphs) ---- *)
Theorem C15_addedges : forall G m s G' s', io_kind G <> GioDirected -> gg_add_missing G m s = GGOk (G', s') ->
  gg_nedges G' = gg_nedges G + m /\ 0 <= m /\
  io_kind G' = io_kind G /\ io_n G' = io_n G /\ io_r G' = io_r G /\ (forall e, In e (io_edges G) -> In e (io_edges G')).
Proof. exact add_missing_exact. Qed.
Print Assumptions C15_addedges.
Example C15_addedges_nonvacuous :
  (* ten collisions per requested edge, then the fallback sample of the available edges *)
  gg_add_missing (mkIOG GioSimple [] 4 0 [(1,2)]) 2 ([0;1;0;1;0;1;0;1;0;1;0;1;0;1;0;1;0;1;0;1;0;1;0;1;0;1;0;1;0;1;0;1;0;1;0;1;0;1;0;1] ++ [4; 0])
    = GGOk (mkIOG GioSimple [] 4 0 [(1,2); (1,3); (3,4)], []) /\
  gg_add_missing (mkIOG GioSimple [] 3 0 [(1,2); (1,3); (2,3)]) 1 [] = GGRaise EValueError.
Proof. vm_compute. repeat split. Qed.

(* ---- (7) splitedges: exactly k more vertices and k more edges, the graph stays a well-formed simple graph ---- *)
Theorem C15_splitedges : forall G k s G' s', gio_wf G -> gg_split_edges G k s = GGOk (G', s') ->
  io_kind G = GioSimple /\ io_kind G' = GioSimple /\ 0 <= k /\
  io_n G' = io_n G + k /\ gg_nedges G' = gg_nedges G + k /\ gio_wf G'.
Proof. exact split_exact. Qed.
Print Assumptions C15_splitedges.
Example C15_splitedges_nonvacuous :
  gg_split_edges (mkIOG GioSimple [] 3 0 [(1,2); (1,3); (2,3)]) 2 [2; 0] = GGOk (mkIOG GioSimple [] 5 0 [(1,3); (1,5); (2,4); (2,5); (3,4)], []) /\
  gg_split_edges (mkIOG GioSimple [] 3 0 [(1,2)]) 2 [] = GGRaise EValueError /\
  gg_split_edges (mkIOG GioBipartite [] 2 2 [(1,2)]) 1 [0] = GGRaise ETypeError.
Proof. vm_compute. repeat split. Qed.

(* ---- (8) the argument guards of graph_build.py imply the precondition of what is called next ---- *)
(* gnd: the guard demands N > d > 0 and even N*d, which is the requirement of networkx.random_regular_graph *)
Theorem C15_gnd_guard : forall args, gg_guard_gnd args = true ->
  exists n d, args = [n; d] /\ gg_pre_nx_random_regular d n.
Proof. exact guard_gnd_spec_pre. Qed.
Print Assumptions C15_gnd_guard.
(* as found (before 9fe5425): N = d passed the guard and broke 0 <= d < n (NetworkXError escaped): defect D14 *)
Theorem C15_gnd_guard_as_found_refuted : exists n d, gg_guard_gnd_as_found [n; d] = true /\ ~ gg_pre_nx_random_regular d n.
Proof. exact guard_gnd_refuted. Qed.
Print Assumptions C15_gnd_guard_as_found_refuted.
Theorem C15_gnd_guard_as_found_partial : forall args, gg_guard_gnd_as_found args = true ->
  exists n d, args = [n; d] /\ (d < n -> gg_pre_nx_random_regular d n).
Proof. exact guard_gnd_partial. Qed.
Print Assumptions C15_gnd_guard_as_found_partial.
Theorem C15_gnm_guard : forall args, gg_guard_gnm args = true -> exists n m, args = [n; m] /\ gg_pre_nx_gnm n m.
Proof. exact guard_gnm_pre. Qed.
Print Assumptions C15_gnm_guard.
(* grid / torus: at least one dimension, all positive *)
Theorem C15_grid_guard : forall dims, gg_guard_grid dims = true -> dims <> [] /\ gg_pre_nx_grid dims.
Proof. exact guard_grid_full. Qed.
Print Assumptions C15_grid_guard.
(* as found (before 458cbc2): `grid` without any dimension passed the guard (null graph instead of a refusal): D42 *)
Theorem C15_grid_guard_as_found_refuted : exists dims, gg_guard_grid_as_found dims = true /\ dims = [] /\ gg_guard_grid dims = false.
Proof. exact guard_grid_as_found_refuted. Qed.
Print Assumptions C15_grid_guard_as_found_refuted.
Theorem C15_grid_guard_as_found_partial : forall dims, gg_guard_grid_as_found dims = true -> gg_pre_nx_grid dims.
Proof. exact guard_grid_pre. Qed.
Print Assumptions C15_grid_guard_as_found_partial.
Theorem C15_complete_simple_guard : forall args, gg_guard_complete_simple args = true ->
  (exists n, args = [n] /\ 0 < n) \/ (exists n b, args = [n; b] /\ gg_pre_nx_multipartite n b).
Proof. exact guard_complete_simple_pre. Qed.
Print Assumptions C15_complete_simple_guard.
Theorem C15_glrm_guard : forall args, gg_guard_glrm args = true -> exists l r m, args = [l; r; m] /\ gg_pre_m_edges l r m.
Proof. exact guard_glrm_pre. Qed.
Print Assumptions C15_glrm_guard.
Theorem C15_glrd_guard : forall args, gg_guard_glrd args = true -> exists l r d, args = [l; r; d] /\ gg_pre_left_regular l r d.
Proof. exact guard_glrd_pre. Qed.
Print Assumptions C15_glrd_guard.
Theorem C15_regular_guard : forall args, gg_guard_regular args = true ->
  exists l r d, args = [l; r; d] /\ gg_pre_random_regular l r d /\ d <= r.
Proof. exact guard_regular_pre. Qed.
Print Assumptions C15_regular_guard.
Theorem C15_shift_guard : forall values, gg_guard_shift values = true ->
  exists L R pat, values = L :: R :: pat /\ gg_pre_shift L R (gio_sort Z.ltb pat) /\ (forall x, In x pat -> 0 <= x <= R).
Proof. exact guard_shift_pre. Qed.
Print Assumptions C15_shift_guard.
Theorem C15_bipartite_orders_guard : forall args, gg_guard_two_positive args = true ->
  exists l r, args = [l; r] /\ gg_pre_orders l r /\ 0 < l /\ 0 < r.
Proof. exact guard_two_positive_pre. Qed.
Print Assumptions C15_bipartite_orders_guard.
Theorem C15_height_guard : forall args, gg_guard_one_nonneg args = true -> exists h, args = [h] /\ gg_pre_height h.
Proof. exact guard_one_nonneg_pre. Qed.
Print Assumptions C15_height_guard.
Theorem C15_plantclique_guard : forall args n, gg_guard_one_nonneg args = true ->
  exists k, args = [k] /\ ((n <? k) = false -> gg_pre_sample n k).
Proof. exact guard_plantclique_pre. Qed.
Print Assumptions C15_plantclique_guard.
Theorem C15_plantbiclique_guard : forall args L R, gg_guard_two_nonneg args = true ->
  exists a b, args = [a; b] /\ ((L <? a) || (R <? b) = false -> gg_pre_sample L a /\ gg_pre_sample R b).
Proof. exact guard_plantbiclique_pre. Qed.
Print Assumptions C15_plantbiclique_guard.
(* path / tree / pyramid on the command line: an acyclic graph or a ValueError, nothing else, for every argument list *)
Theorem C15_dag_cli_total : forall which args,
  (exists G, gg_obtain_dag which args = GGOk G /\ gio_is_dag G = true) \/ gg_obtain_dag which args = GGRaise EValueError.
Proof. exact obtain_dag_total. Qed.
Print Assumptions C15_dag_cli_total.
Example C15_guard_nonvacuous :
  gg_guard_gnd_as_found [4; 4] = true /\ gg_guard_gnd [4; 4] = false /\ gg_guard_gnd [6; 3] = true /\ gg_guard_gnd [5; 3] = false /\
  gg_guard_grid [2; 3] = true /\ gg_guard_grid [] = false /\
  gg_guard_glrm [3; 3; 9] = true /\ gg_guard_glrm [3; 3; 10] = false /\ gg_guard_regular [4; 2; 1] = true /\
  gg_guard_regular [3; 2; 1] = false /\ gg_guard_shift [3; 3; 0; 3] = true /\ gg_guard_shift [3; 3; 1; 1] = false.
Proof. vm_compute. repeat split. Qed.

(* ---- (9) shift: the named graph; the caller's pattern ---- *)
Theorem C15_shift : forall b N M pat G p', gg_shift_gen b N M pat = GGOk (G, p') ->
  io_kind G = GioBipartite /\ io_n G = N /\ io_r G = M /\ 1 <= N /\ 1 <= M /\
  (forall u v, gio_has_edge G u v = true <-> 1 <= u <= N /\ exists o, In o pat /\ v = 1 + (u - 1 + o) mod M) /\
  p' = (if b then gio_sort Z.ltb pat else pat).
Proof. exact shift_named. Qed.
Print Assumptions C15_shift.
Theorem C15_shift_returns : forall b N M pat, 1 <= N -> 1 <= M -> exists G p', gg_shift_gen b N M pat = GGOk (G, p').
Proof. exact shift_returns. Qed.
Print Assumptions C15_shift_returns.
Theorem C15_shift_keeps_pattern : forall N M pat G p', gg_shift N M pat = GGOk (G, p') -> p' = pat.
Proof. exact shift_spec_keeps_pattern. Qed.
Print Assumptions C15_shift_keeps_pattern.
(* the code as found (before 50573cf): pattern.sort() on the caller's list (defect D11) *)
Theorem C15_shift_keeps_pattern_as_found_refuted : exists N M pat G p', gg_shift_as_found N M pat = GGOk (G, p') /\ p' <> pat.
Proof. exact shift_as_is_changes_pattern. Qed.
Print Assumptions C15_shift_keeps_pattern_as_found_refuted.

(* ---- complete and empty graphs are the named graphs ---- *)
Theorem C15_complete_bipartite : forall L R, 0 <= L -> 0 <= R -> exists G, gg_complete_bipartite L R = GGOk G /\
  io_kind G = GioBipartite /\ io_n G = L /\ io_r G = R /\ gg_nedges G = L * R /\
  (forall u v, gio_has_edge G u v = true <-> 1 <= u <= L /\ 1 <= v <= R).
Proof. exact complete_bipartite_shape. Qed.
Print Assumptions C15_complete_bipartite.
Theorem C15_complete_simple : forall n, 0 <= n -> exists G, gg_complete_simple n = GGOk G /\
  io_kind G = GioSimple /\ io_n G = n /\ 2 * gg_nedges G = n * (n - 1) /\
  (forall u v, gio_has_edge G u v = true <-> 1 <= u <= n /\ 1 <= v <= n /\ u <> v).
Proof. exact complete_simple_shape. Qed.
Print Assumptions C15_complete_simple.
Theorem C15_empty_graphs : forall L R n, 0 <= L -> 0 <= R -> 0 <= n ->
  gg_empty_bipartite L R = GGOk (mkIOG GioBipartite [] L R []) /\ gg_empty_simple n = GGOk (mkIOG GioSimple [] n 0 []).
Proof. exact empty_shapes. Qed.
Print Assumptions C15_empty_graphs.
