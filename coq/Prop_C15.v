(* Property C15 -- graph constructions on the command line deliver the structure they name.
   ONLY statements; every proof is `exact <lemma>` (lemmas in GraphGenFacts.v).
   Every sampler is a function of an oracle stream of recorded random draws (GraphGen.v); the statements
   quantify over EVERY stream: whenever the construction returns a graph, the graph has the promised structure. *)
From Coq Require Import ZArith List Bool.
From Cnfgen Require Import Comb GText GraphIO GraphIOFacts GraphGen GraphGenFacts.
Import ListNotations.
Open Scope Z_scope.

(* ---- (1) glrm: exactly m edges, for every m the guard lets through, both sampling strategies ---- *)
(* the documented behaviour (dense branch samples from the list of all pairs): every 0 <= m <= L*R *)
Theorem C15_m_edges_spec : forall L R m s G s',
  gg_m_edges_spec L R m s = GGOk (G, s') ->
  gg_nedges G = m /\ io_kind G = KBipartite /\ io_n G = L /\ io_r G = R /\ 0 <= m <= L * R.
Proof. exact m_edges_spec_exact. Qed.
Print Assumptions C15_m_edges_spec.
(* the code as it is: only the sparse branch delivers *)
Theorem C15_m_edges_partial : forall L R m s G s',
  gg_m_edges_as_is L R m s = GGOk (G, s') -> m <= L * R / 3 ->
  gg_nedges G = m /\ io_kind G = KBipartite /\ io_n G = L /\ io_r G = R /\ 0 <= m <= L * R.
Proof. exact m_edges_sparse_exact. Qed.
Print Assumptions C15_m_edges_partial.
(* ... and the dense branch raises TypeError on a request the guard accepts (glrm 3 3 8): defect D10 *)
Theorem C15_m_edges_refuted : exists L R m s, 0 <= m <= L * R /\ 1 <= L /\ 1 <= R /\
  gg_m_edges_as_is L R m s = GGRaise ETypeError.
Proof. exact m_edges_as_is_refuted. Qed.
Print Assumptions C15_m_edges_refuted.
Example C15_m_edges_nonvacuous :
  gg_m_edges_spec 3 3 8 [0; 1; 2; 3; 4; 5; 6; 7] =
    GGOk (mkIOG KBipartite [] 3 3 [(1,1); (1,2); (1,3); (2,1); (2,2); (2,3); (3,1); (3,2)], []) /\
  gg_m_edges_as_is 3 3 3 [1; 1; 1; 1; 2; 2; 3; 1] = GGOk (mkIOG KBipartite [] 3 3 [(1,1); (2,2); (3,1)], []) /\
  gg_m_edges_as_is 3 3 3 [1; 1; 4; 1] = GGBadOracle.
Proof. vm_compute. repeat split. Qed.

(* ---- (2) glrd: every left vertex has degree min(r, d) ---- *)
Theorem C15_left_regular : forall l r d s G s', gg_left_regular l r d s = GGOk (G, s') ->
  io_kind G = KBipartite /\ io_n G = l /\ io_r G = r /\
  forall u, 1 <= u <= l -> Z.of_nat (length (gio_succs G u)) = Z.min r d.
Proof. exact left_regular_degree. Qed.
Print Assumptions C15_left_regular.
Example C15_left_regular_nonvacuous :
  gg_left_regular 2 3 2 [0; 2; 1; 0] = GGOk (mkIOG KBipartite [] 2 3 [(1,1); (1,3); (2,1); (2,2)], []).
Proof. vm_compute. reflexivity. Qed.

(* ---- (4) path, tree, pyramid: closed-form vertex and edge counts, acyclic ---- *)
Theorem C15_dag_path : forall len, 0 <= len -> exists G, gg_dag_path len = GGOk G /\
  io_kind G = KDirected /\ io_n G = len + 1 /\ gg_nedges G = len /\ gio_is_dag G = true /\
  (forall u v, In (u, v) (io_edges G) <-> 1 <= u <= len /\ v = u + 1).
Proof. exact dag_path_shape. Qed.
Print Assumptions C15_dag_path.
Theorem C15_dag_tree : forall h, 0 <= h -> exists G, gg_dag_tree h = GGOk G /\
  io_kind G = KDirected /\ io_n G = 2 ^ (h + 1) - 1 /\ gg_nedges G = 2 ^ (h + 1) - 2 /\ gio_is_dag G = true.
Proof. exact dag_tree_shape. Qed.
Print Assumptions C15_dag_tree.
Theorem C15_dag_pyramid : forall h, 0 <= h -> exists G, gg_dag_pyramid h = GGOk G /\
  io_kind G = KDirected /\ io_n G = (h + 1) * (h + 2) / 2 /\ gg_nedges G = h * (h + 1) /\ gio_is_dag G = true.
Proof. exact dag_pyramid_shape. Qed.
Print Assumptions C15_dag_pyramid.
Theorem C15_dag_negative_refused : forall h, h < 0 ->
  gg_dag_path h = GGRaise EValueError /\ gg_dag_tree h = GGRaise EValueError /\ gg_dag_pyramid h = GGRaise EValueError.
Proof. exact dag_negative_refused. Qed.
Print Assumptions C15_dag_negative_refused.
Example C15_dag_nonvacuous :
  gg_dag_pyramid 2 = GGOk (mkIOG KDirected [] 6 0 [(1,4); (2,4); (2,5); (3,5); (4,6); (5,6)]) /\
  gg_dag_tree 2 = GGOk (mkIOG KDirected [] 7 0 [(1,5); (2,5); (3,6); (4,6); (5,7); (6,7)]) /\
  gg_dag_path 3 = GGOk (mkIOG KDirected [] 4 0 [(1,2); (2,3); (3,4)]).
Proof. vm_compute. repeat split. Qed.
