(* Property C15 -- placeholder while the facts are being proved *)
From Coq Require Import ZArith List Bool.
From Cnfgen Require Import GText GraphIO GraphGen.
Import ListNotations.
Open Scope Z_scope.
Example C15_stub_nonvacuous : gg_guard_gnd [4; 4] = true.
Proof. vm_compute. reflexivity. Qed.
