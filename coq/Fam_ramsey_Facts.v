(* Fam_ramsey_Facts.v — RamseyNumber, VanDerWaerden and PythagoreanTriples are
   satisfied exactly by the colourings that avoid the forbidden monochromatic
   structures; one assignment per colouring. *)
From Coq Require Import ZArith List Bool Lia ZifyBool.
From Cnfgen Require Import Sem Comb Linear IR SemFacts LinearFacts IRFacts C03_Util C03_UtilFacts
  Fam_ordering Fam_ordering_Facts Fam_ramsey.
Import ListNotations.
Open Scope Z_scope.

(* ====================================================================== *)
(* Pythagorean triples                                                     *)
(* ====================================================================== *)
(* a 2-colouring of 1..N without monochromatic x^2 + y^2 = z^2 *)
Definition ptn_good (N : Z) (col : Z -> bool) : Prop :=
  forall x y z, 1 <= x -> x < y -> y <= N -> 1 <= z <= N -> x * x + y * y = z * z ->
    ~ (col x = col y /\ col y = col z).

Lemma ptn_clause_in N c : In c (ptn_cnf N) <->
  exists x y z, 1 <= x /\ x < y /\ y <= N /\ 1 <= z <= N /\ x * x + y * y = z * z /\ (c = [x; y; z] \/ c = [- x; - y; - z]).
Proof.
  unfold ptn_cnf. rewrite in_flat_map. split.
  - intros [[x y] [Hp H]]. apply In_pairs_lt in Hp. cbn [fst snd] in H.
    set (z := Z.sqrt (x * x + y * y)) in *.
    destruct ((z <=? N) && (z * z =? x * x + y * y)) eqn:E; [|contradiction].
    assert (Hz : 0 <= z) by apply Z.sqrt_nonneg.
    exists x, y, z. repeat split; try lia; try nia.
    destruct H as [H|[H|[]]]; [left|right]; now symmetry.
  - intros [x [y [z [H1 [H2 [H3 [H4 [H5 H]]]]]]]]. exists (x, y). split; [apply In_pairs_lt; lia|]. cbn [fst snd].
    assert (Ez : Z.sqrt (x * x + y * y) = z) by (rewrite H5; apply Z.sqrt_square; lia).
    rewrite Ez. destruct ((z <=? N) && (z * z =? x * x + y * y)) eqn:E; [|lia].
    destruct H as [H|H]; [left|right; left]; now symmetry.
Qed.

Theorem ptn_T1 N a : cnf_sat a (ptn_cnf N) = true <-> ptn_good N a.
Proof.
  rewrite cnf_sat_true_iff. split.
  - intros Hs x y z H1 H2 H3 H4 H5 [E1 E2].
    assert (C1 : clause_sat a [x; y; z] = true) by (apply Hs, ptn_clause_in; exists x, y, z; repeat split; try lia; now left).
    assert (C2 : clause_sat a [- x; - y; - z] = true) by (apply Hs, ptn_clause_in; exists x, y, z; repeat split; try lia; now right).
    cbn [clause_sat existsb] in C1, C2. rewrite !lit_true_pos in C1 by lia. rewrite !lit_true_neg in C2 by lia.
    rewrite E1, E2 in C1, C2. destruct (a z); discriminate.
  - intros Hg c Hc. apply ptn_clause_in in Hc as [x [y [z [H1 [H2 [H3 [H4 [H5 H]]]]]]]].
    specialize (Hg x y z H1 H2 H3 H4 H5).
    destruct H as [H|H]; subst c; cbn [clause_sat existsb]; rewrite ?lit_true_pos, ?lit_true_neg by lia;
      destruct (a x), (a y), (a z); try reflexivity; exfalso; apply Hg; split; reflexivity.
Qed.

Theorem ptn_T2 N : (exists a, cnf_sat a (ptn_cnf N) = true) <-> exists col, ptn_good N col.
Proof. split; intros [a H]; exists a; now apply ptn_T1. Qed.

(* the variables are the numbers 1..N themselves: an assignment to them IS a colouring *)
Theorem ptn_vars N : lits_in_range N (ptn_cnf N) = true.
Proof.
  unfold lits_in_range. apply forallb_forall. intros c Hc.
  apply ptn_clause_in in Hc as [x [y [z [H1 [H2 [H3 [H4 [H5 H]]]]]]]].
  destruct H as [H|H]; subst c; cbn [forallb]; unfold nonzero; lia.
Qed.

(* ====================================================================== *)
(* van der Waerden                                                         *)
(* ====================================================================== *)
(* arithmetic progression of length k inside 1..N *)
Definition is_ap (N k : Z) (ap : list Z) : Prop :=
  exists i d, 1 <= i /\ 1 <= d /\ i + d * (k - 1) <= N /\ ap = map (fun t => i + d * t) (zrange 0 k).

Lemma In_vdw_aps N k ap : 2 <= k -> (In ap (vdw_aps N k) <-> is_ap N k ap).
Proof.
  intros Hk. unfold vdw_aps, is_ap. rewrite in_flat_map. split.
  - intros [d [Hd H]]. apply In_zrange in Hd. apply in_map_iff in H as [i [E Hi]]. apply In_zrange in Hi.
    exists i, d. repeat split; try lia. now symmetry.
  - intros [i [d [Hi [Hd [Hb E]]]]]. exists d. split.
    + apply In_zrange. split; [lia|]. assert (d <= (N - 1) / (k - 1)); [|lia].
      apply Z.div_le_lower_bound; [lia|]. nia.
    + apply in_map_iff. exists i. split; [now symmetry|]. apply In_zrange. lia.
Qed.

Lemma In_vdw_aps_spec N k ap : 1 <= k -> (In ap (vdw_aps_spec N k) <-> is_ap N k ap).
Proof.
  intros Hk. unfold vdw_aps_spec. destruct (Z.eqb_spec k 1) as [E|NE]; [|apply In_vdw_aps; lia].
  subst k. unfold is_ap. rewrite in_map_iff. split.
  - intros [i [E Hi]]. apply In_vrange in Hi. exists i, 1. repeat split; try lia. subst ap. rewrite zrange_cons, zrange_nil by lia. cbn [map]. f_equal. lia.
  - intros [i [d [Hi [Hd [Hb E]]]]]. exists i. split; [|apply In_vrange; lia]. subst ap. rewrite zrange_cons, zrange_nil by lia. cbn [map]. f_equal. lia.
Qed.

(* a colouring col : number -> colour in 1..C avoids, for every colour c, the progressions of length k_c *)
Definition vdw_good (N : Z) (ks : list Z) (col : Z -> Z) : Prop :=
  forall c, 1 <= c <= len ks -> forall ap, is_ap N (nth (Z.to_nat (c - 1)) ks 0) ap ->
    ~ (forall i, In i ap -> col i = c).

Lemma is_ap_range N k ap i : is_ap N k ap -> In i ap -> 1 <= i <= N.
Proof.
  intros [i0 [d [H1 [H2 [H3 E]]]]] Hi. subst ap. apply in_map_iff in Hi as [t [E Ht]]. apply In_zrange in Ht. nia.
Qed.

Definition aps_correct (aps : Z -> Z -> list (list Z)) (N : Z) (ks : list Z) : Prop :=
  forall k, In k ks -> forall ap, In ap (aps N k) <-> is_ap N k ap.

(* --- two colours: x_i false = colour 1, true = colour 2 --- *)
Theorem vdw2_T1 aps N k1 k2 a : aps_correct aps N [k1; k2] ->
  (irs_hold a (vdw_ir aps N [k1; k2]) = true <-> vdw_good N [k1; k2] (fun i => if a i then 2 else 1)).
Proof.
  intros AC. cbn [vdw_ir]. rewrite clauses_ir_hold, cnf_sat_app, andb_true_iff, !cnf_sat_true_iff.
  assert (A1 := AC k1 (or_introl eq_refl)). assert (A2 := AC k2 (or_intror (or_introl eq_refl))).
  split.
  - intros [H1 H2] c Hc ap Hap Hall. change (len [k1; k2]) with 2 in Hc.
    assert (C : c = 1 \/ c = 2) by lia. destruct C; subst c.
    + change (nth (Z.to_nat (1 - 1)) [k1; k2] 0) with k1 in Hap.
      specialize (H1 ap (proj2 (A1 ap) Hap)). apply clause_sat_true_iff in H1 as [l [Hl Ht]].
      pose proof (is_ap_range _ _ _ _ Hap Hl). rewrite lit_true_pos in Ht by lia.
      specialize (Hall l Hl). cbn beta in Hall. rewrite Ht in Hall. discriminate.
    + change (nth (Z.to_nat (2 - 1)) [k1; k2] 0) with k2 in Hap.
      assert (Hin : In (map Z.opp ap) (map (map Z.opp) (aps N k2))) by (apply in_map, A2, Hap).
      specialize (H2 _ Hin). apply clause_sat_true_iff in H2 as [l [Hl Ht]].
      apply in_map_iff in Hl as [i [E Hi]]. subst l.
      pose proof (is_ap_range _ _ _ _ Hap Hi). rewrite lit_true_neg in Ht by lia.
      specialize (Hall i Hi). cbn beta in Hall. destruct (a i); discriminate.
  - intros Hg. split.
    + intros ap Hap. apply A1 in Hap. specialize (Hg 1 ltac:(change (len [k1; k2]) with 2; lia) ap Hap).
      destruct (clause_sat a ap) eqn:E; [reflexivity|]. exfalso. apply Hg. intros i Hi.
      rewrite clause_false_iff in E. specialize (E i Hi). pose proof (is_ap_range _ _ _ _ Hap Hi).
      rewrite lit_true_pos in E by lia. cbn beta. now rewrite E.
    + intros cl Hcl. apply in_map_iff in Hcl as [ap [E Hap]]. subst cl. apply A2 in Hap.
      specialize (Hg 2 ltac:(change (len [k1; k2]) with 2; lia) ap Hap).
      destruct (clause_sat a (map Z.opp ap)) eqn:E; [reflexivity|]. exfalso. apply Hg. intros i Hi.
      rewrite clause_false_iff in E. specialize (E (- i) (in_map Z.opp _ _ Hi)). pose proof (is_ap_range _ _ _ _ Hap Hi).
      rewrite lit_true_neg in E by lia. cbn beta. destruct (a i); [reflexivity|discriminate].
Qed.

(* --- three or more colours: x_{i,c}, exactly one colour per number --- *)
Lemma vdw_ir_many aps N ks : length ks <> 2%nat ->
  vdw_ir aps N ks =
    map (fun i => ILin (map (vdw_var (len ks) i) (vrange (len ks))) CEq 1) (vrange N)
    ++ flat_map (fun c => map (fun ap => IClause (map (fun i => - vdw_var (len ks) i c) ap))
                              (aps N (nth (Z.to_nat (c - 1)) ks 0))) (vrange (len ks)).
Proof. destruct ks as [|k1 [|k2 [|k3 t]]]; intros H; try reflexivity. now contradiction H. Qed.

Lemma vdw_var_pos C i c : 1 <= i -> 1 <= c <= C -> 0 < vdw_var C i c.
Proof. unfold vdw_var. nia. Qed.
Lemma vdw_var_range N C i c : 1 <= i <= N -> 1 <= c <= C -> 1 <= vdw_var C i c <= N * C.
Proof. unfold vdw_var. nia. Qed.
Lemma vdw_var_inj C i c i' c' : 1 <= c <= C -> 1 <= c' <= C -> vdw_var C i c = vdw_var C i' c' -> i = i' /\ c = c'.
Proof. unfold vdw_var. intros H1 H2 E. assert (i = i') by nia. subst. lia. Qed.
Lemma vdw_var_surj N C x : 0 <= N -> 1 <= x <= N * C -> exists i c, 1 <= i <= N /\ 1 <= c <= C /\ vdw_var C i c = x.
Proof.
  intros HN Hx. assert (HC : 0 < C) by nia.
  exists ((x - 1) / C + 1), ((x - 1) mod C + 1). unfold vdw_var.
  pose proof (Z.div_mod (x - 1) C ltac:(lia)) as E. pose proof (Z.mod_pos_bound (x - 1) C HC) as B.
  assert (0 <= (x - 1) / C) by (apply Z.div_pos; lia).
  assert ((x - 1) / C < N) by (apply Z.div_lt_upper_bound; nia).
  repeat split; try lia; try nia.
Qed.

Lemma count_zero a (f : Z -> Z) l : (count_true a (map f l) = 0 <-> forall c, In c l -> lit_true a (f c) = false).
Proof.
  induction l as [|x t IH]; cbn [map count_true]; [split; [intros _ c []|reflexivity]|].
  pose proof (count_true_range a (map f t)) as R. split.
  - intros H c [E|Hc].
    + subst. destruct (lit_true a (f c)); [cbn [b2z] in H; lia|reflexivity].
    + apply IH; [|assumption]. destruct (lit_true a (f x)); cbn [b2z] in H; lia.
  - intros H. rewrite (H x (or_introl eq_refl)). cbn [b2z]. rewrite (proj2 IH); [lia|]. intros c Hc. apply H. now right.
Qed.

Lemma count_one a (f : Z -> Z) l : NoDup l ->
  (count_true a (map f l) = 1 <->
   exists c, In c l /\ lit_true a (f c) = true /\ forall c', In c' l -> lit_true a (f c') = true -> c' = c).
Proof.
  induction l as [|x t IH]; intros ND; cbn [map count_true].
  - split; [lia|intros [c [[] _]]].
  - inversion ND as [|? ? Hnx NDt]; subst. specialize (IH NDt).
    pose proof (count_true_range a (map f t)) as R. destruct (lit_true a (f x)) eqn:Ex; cbn [b2z].
    + split.
      * intros H. assert (Z0 : count_true a (map f t) = 0) by lia. exists x. split; [now left|]. split; [assumption|].
        intros c' [E|Hc'] Hl; [now subst|]. rewrite (proj1 (count_zero a f t) Z0 c' Hc') in Hl. discriminate.
      * intros [c [Hc [Hl U]]]. assert (c = x) by (symmetry; apply U; [now left|assumption]). subst c.
        assert (count_true a (map f t) = 0); [|lia]. apply count_zero. intros c' Hc'.
        destruct (lit_true a (f c')) eqn:E; [|reflexivity]. assert (c' = x) by (apply U; [now right|assumption]).
        subst. contradiction.
    + rewrite Z.add_0_l, IH. split.
      * intros [c [Hc [Hl U]]]. exists c. split; [now right|]. split; [assumption|].
        intros c' [E|Hc'] Hl'; [subst; congruence|now apply U].
      * intros [c [[E|Hc] [Hl U]]]; [subst; congruence|]. exists c. split; [assumption|]. split; [assumption|].
        intros c' Hc' Hl'. apply U; [now right|assumption].
Qed.

Lemma irs_hold_flat_map {A} a (f : A -> list ir) l : irs_hold a (flat_map f l) = forallb (fun x => irs_hold a (f x)) l.
Proof. induction l as [|x t IH]; [reflexivity|]. cbn [flat_map forallb]. now rewrite irs_hold_app, IH. Qed.

(* the assignment spells the colouring col *)
Definition vdw_decodes (N C : Z) (a : Z -> bool) (col : Z -> Z) : Prop :=
  forall i, 1 <= i <= N -> 1 <= col i <= C /\ forall c, 1 <= c <= C -> a (vdw_var C i c) = (c =? col i).
Definition vdw_col (C : Z) (a : Z -> bool) (i : Z) : Z :=
  match find (fun c => a (vdw_var C i c)) (vrange C) with Some c => c | None => 0 end.

Lemma vdw_card_decodes N C a : (forall i, 1 <= i <= N -> count_true a (map (vdw_var C i) (vrange C)) = 1) <->
  vdw_decodes N C a (vdw_col C a).
Proof.
  split.
  - intros H i Hi. specialize (H i Hi). apply count_one in H; [|apply NoDup_zrange].
    destruct H as [c0 [Hc0 [Hl U]]]. apply In_vrange in Hc0. rewrite lit_true_pos in Hl by (apply vdw_var_pos; lia).
    assert (E : vdw_col C a i = c0).
    { unfold vdw_col. destruct (find _ _) as [c1|] eqn:F.
      - apply find_some in F as [F1 F2]. apply U; [assumption|]. apply In_vrange in F1. rewrite lit_true_pos by (apply vdw_var_pos; lia). exact F2.
      - pose proof (find_none _ _ F c0 (proj2 (In_vrange _ _) Hc0)) as F'. cbn beta in F'. congruence. }
    rewrite E. split; [assumption|]. intros c Hc. destruct (Z.eqb_spec c c0) as [->|NE]; [assumption|].
    destruct (a (vdw_var C i c)) eqn:Ea; [|reflexivity]. exfalso. apply NE, U; [now apply In_vrange|].
    rewrite lit_true_pos by (apply vdw_var_pos; lia). exact Ea.
  - intros D i Hi. destruct (D i Hi) as [Hr Hc]. apply count_one; [apply NoDup_zrange|].
    exists (vdw_col C a i). split; [now apply In_vrange|]. split.
    + rewrite lit_true_pos by (apply vdw_var_pos; lia). rewrite Hc by assumption. apply Z.eqb_refl.
    + intros c' Hc' Hl. apply In_vrange in Hc'. rewrite lit_true_pos in Hl by (apply vdw_var_pos; lia).
      rewrite Hc in Hl by assumption. lia.
Qed.

Lemma vdw_decodes_unique N C a col col' : vdw_decodes N C a col -> vdw_decodes N C a col' ->
  forall i, 1 <= i <= N -> col i = col' i.
Proof.
  intros D D' i Hi. destruct (D i Hi) as [Hr Hc]. destruct (D' i Hi) as [Hr' Hc'].
  specialize (Hc (col i) Hr). specialize (Hc' (col i) Hr). rewrite Z.eqb_refl in Hc. rewrite Hc in Hc'. lia.
Qed.

Theorem vdwC_T1 aps N ks a : length ks <> 2%nat -> 0 <= N -> aps_correct aps N ks ->
  (irs_hold a (vdw_ir aps N ks) = true <-> exists col, vdw_decodes N (len ks) a col /\ vdw_good N ks col).
Proof.
  intros HL HN AC. rewrite vdw_ir_many by assumption. set (C := len ks).
  rewrite irs_hold_app, andb_true_iff.
  assert (P1 : irs_hold a (map (fun i => ILin (map (vdw_var C i) (vrange C)) CEq 1) (vrange N)) = true <->
               vdw_decodes N C a (vdw_col C a)).
  { rewrite <- vdw_card_decodes. unfold irs_hold. rewrite forallb_map, forallb_forall. split.
    - intros H i Hi. specialize (H i (proj2 (In_vrange _ _) Hi)). cbn [ir_holds cop_holds] in H. lia.
    - intros H i Hi. apply In_vrange in Hi. cbn [ir_holds cop_holds]. rewrite (H i Hi). reflexivity. }
  assert (P2 : forall col, vdw_decodes N C a col ->
     (irs_hold a (flat_map (fun c => map (fun ap => IClause (map (fun i => - vdw_var C i c) ap))
                                         (aps N (nth (Z.to_nat (c - 1)) ks 0))) (vrange C)) = true <-> vdw_good N ks col)).
  { intros col D. rewrite irs_hold_flat_map, forallb_forall. unfold vdw_good. fold C. split.
    - intros H c Hc ap Hap Hall. specialize (H c (proj2 (In_vrange _ _) Hc)).
      unfold irs_hold in H. rewrite forallb_map, forallb_forall in H.
      assert (Hk : In (nth (Z.to_nat (c - 1)) ks 0) ks) by (apply nth_In; unfold C, len in Hc; lia).
      specialize (H ap (proj2 (AC _ Hk ap) Hap)). cbn [ir_holds] in H.
      apply clause_sat_true_iff in H as [l [Hl Ht]]. apply in_map_iff in Hl as [i [E Hi]]. subst l.
      pose proof (is_ap_range _ _ _ _ Hap Hi) as Hir. destruct (D i Hir) as [_ Dc].
      rewrite lit_true_neg in Ht by (apply vdw_var_pos; lia). rewrite Dc, (Hall i Hi), Z.eqb_refl in Ht by assumption. discriminate.
    - intros Hg c Hc. apply In_vrange in Hc. unfold irs_hold. rewrite forallb_map, forallb_forall. intros ap Hap.
      assert (Hk : In (nth (Z.to_nat (c - 1)) ks 0) ks) by (apply nth_In; unfold C, len in Hc; lia).
      apply (AC _ Hk) in Hap. cbn [ir_holds].
      destruct (clause_sat a (map (fun i => - vdw_var C i c) ap)) eqn:E; [reflexivity|]. exfalso.
      apply (Hg c Hc ap Hap). intros i Hi. rewrite clause_false_iff in E.
      specialize (E _ (in_map (fun i => - vdw_var C i c) _ _ Hi)). cbn beta in E.
      pose proof (is_ap_range _ _ _ _ Hap Hi) as Hir. destruct (D i Hir) as [_ Dc].
      rewrite lit_true_neg in E by (apply vdw_var_pos; lia). rewrite Dc in E by assumption. lia. }
  split.
  - intros [H1 H2]. apply P1 in H1. exists (vdw_col C a). split; [assumption|]. now apply (P2 _ H1).
  - intros [col [D G]]. split.
    + apply P1. intros i Hi. destruct (D i Hi) as [Hr Hc].
      assert (E : vdw_col C a i = col i).
      { unfold vdw_col. destruct (find _ _) as [c1|] eqn:F.
        - apply find_some in F as [F1 F2]. apply In_vrange in F1. rewrite Hc in F2 by assumption. lia.
        - pose proof (find_none _ _ F (col i) (proj2 (In_vrange _ _) Hr)) as F'. cbn beta in F'.
          rewrite Hc, Z.eqb_refl in F' by assumption. discriminate. }
      rewrite E. split; assumption.
    + now apply (P2 col D).
Qed.

(* existence: a good colouring gives a satisfying assignment *)
Definition vdw_assignment (N C : Z) (col : Z -> Z) (x : Z) : bool :=
  existsb (fun i => existsb (fun c => (vdw_var C i c =? x) && (c =? col i)) (vrange C)) (vrange N).

Lemma vdw_assignment_decodes N C col : (forall i, 1 <= i <= N -> 1 <= col i <= C) ->
  vdw_decodes N C (vdw_assignment N C col) col.
Proof.
  intros Hr i Hi. split; [now apply Hr|]. intros c Hc. unfold vdw_assignment.
  destruct (c =? col i) eqn:E.
  - apply existsb_exists. exists i. split; [now apply In_vrange|]. apply existsb_exists. exists c.
    split; [now apply In_vrange|]. now rewrite Z.eqb_refl, E.
  - destruct (existsb _ _) eqn:X; [|reflexivity]. apply existsb_exists in X as [i' [Hi' X]].
    apply existsb_exists in X as [c' [Hc' X]]. apply In_vrange in Hi', Hc'.
    apply andb_true_iff in X as [X1 X2]. apply Z.eqb_eq in X1.
    destruct (vdw_var_inj C i' c' i c) as [-> ->]; try lia; try congruence.
Qed.

Theorem vdwC_T2 aps N ks : length ks <> 2%nat -> 0 <= N -> aps_correct aps N ks ->
  ((exists a, irs_hold a (vdw_ir aps N ks) = true) <->
   exists col, (forall i, 1 <= i <= N -> 1 <= col i <= len ks) /\ vdw_good N ks col).
Proof.
  intros HL HN AC. split.
  - intros [a H]. apply (vdwC_T1 aps N ks a HL HN AC) in H as [col [D G]]. exists col. split; [|assumption].
    intros i Hi. now destruct (D i Hi).
  - intros [col [Hr G]]. exists (vdw_assignment N (len ks) col). apply (vdwC_T1 aps N ks _ HL HN AC).
    exists col. split; [now apply vdw_assignment_decodes|assumption].
Qed.

Theorem vdw2_T2 aps N k1 k2 : aps_correct aps N [k1; k2] ->
  ((exists a, irs_hold a (vdw_ir aps N [k1; k2]) = true) <->
   exists col, (forall i, 1 <= i <= N -> 1 <= col i <= 2) /\ vdw_good N [k1; k2] col).
Proof.
  intros AC. split.
  - intros [a H]. apply (vdw2_T1 aps N k1 k2 a AC) in H. exists (fun i => if a i then 2 else 1). split; [|assumption].
    intros i _. destruct (a i); lia.
  - intros [col [Hr G]]. exists (fun i => col i =? 2). apply (vdw2_T1 aps N k1 k2 _ AC).
    intros c Hc ap Hap Hall. apply (G c Hc ap Hap). intros i Hi. specialize (Hall i Hi). cbn beta in Hall.
    pose proof (Hr i (is_ap_range _ _ _ _ Hap Hi)). destruct (Z.eqb_spec (col i) 2); lia.
Qed.

(* one assignment per colouring: two assignments that spell the same colouring agree on all N*C variables *)
Theorem vdwC_one_per_colouring N C a b col : 0 <= N -> vdw_decodes N C a col -> vdw_decodes N C b col ->
  forall x, 1 <= x <= N * C -> a x = b x.
Proof.
  intros HN Da Db x Hx. destruct (vdw_var_surj N C x HN Hx) as [i [c [Hi [Hc E]]]]. subst x.
  destruct (Da i Hi) as [_ A]. destruct (Db i Hi) as [_ B]. now rewrite A, B.
Qed.

(* the generators: the code as it is needs every length >= 2, the documented behaviour every length >= 1 *)
Lemma aps_correct_asis N ks : forallb (fun k => 2 <=? k) ks = true -> aps_correct vdw_aps N ks.
Proof. intros H k Hk ap. rewrite forallb_forall in H. specialize (H k Hk). apply In_vdw_aps. lia. Qed.
Lemma aps_correct_spec N ks : forallb (fun k => 1 <=? k) ks = true -> aps_correct vdw_aps_spec N ks.
Proof. intros H k Hk ap. rewrite forallb_forall in H. specialize (H k Hk). apply In_vdw_aps_spec. lia. Qed.

(* D12: valid arguments on which the code as it is raises ZeroDivisionError *)
Theorem vdw_crashes_on_length_one N ks : vdw_args_ok N ks = true -> In 1 ks ->
  vdw_formula N ks = C3Err C3ZeroDivisionError.
Proof.
  intros Hok H1. unfold vdw_formula. rewrite Hok. cbn [negb].
  assert (E : existsb (fun k => k =? 1) ks = true) by (apply existsb_exists; exists 1; split; [assumption|reflexivity]).
  now rewrite E.
Qed.
Theorem vdw_total_partial N ks : vdw_args_ok N ks = true -> forallb (fun k => 2 <=? k) ks = true ->
  vdw_formula N ks = C3Ok (vdw_numvar N ks) (vdw_ir vdw_aps N ks).
Proof.
  intros Hok H2. unfold vdw_formula. rewrite Hok. cbn [negb].
  assert (E : existsb (fun k => k =? 1) ks = false).
  { destruct (existsb _ ks) eqn:X; [|reflexivity]. apply existsb_exists in X as [k [Hk X]].
    rewrite forallb_forall in H2. specialize (H2 k Hk). lia. }
  now rewrite E.
Qed.
Theorem vdw_spec_total N ks : vdw_args_ok N ks = true ->
  vdw_spec_formula N ks = C3Ok (vdw_numvar N ks) (vdw_ir vdw_aps_spec N ks).
Proof. intros Hok. unfold vdw_spec_formula. now rewrite Hok. Qed.

(* ====================================================================== *)
(* Ramsey number                                                           *)
(* ====================================================================== *)
(* S is a strictly increasing list of vertices in lo+1..N *)
Fixpoint incr (lo : Z) (S : list Z) (N : Z) : Prop :=
  match S with
  | [] => True
  | x :: t => lo < x <= N /\ incr x t N
  end.

Lemma incr_weaken lo lo' S N : lo' <= lo -> incr lo S N -> incr lo' S N.
Proof. destruct S as [|x t]; cbn [incr]; intros; [trivial|]. split; [lia|tauto]. Qed.

Lemma In_combs_range N : forall (m : nat) (lo : Z) (k : nat) (S : list Z), Z.to_nat (N - lo) = m ->
  (In S (combs (zrange (lo + 1) (N + 1)) k) <-> incr lo S N /\ length S = k).
Proof.
  induction m as [|m IH]; intros lo k S Hm.
  - rewrite zrange_nil by lia. destruct k; cbn [combs In].
    + split; [intros [<-|[]]; cbn; auto|]. intros [_ HL]. destruct S; [now left|discriminate].
    + split; [contradiction|]. intros [HI HL]. destruct S as [|x t]; [discriminate|]. cbn [incr] in HI. lia.
  - rewrite zrange_cons by lia. destruct k as [|k]; cbn [combs].
    + split; [intros [<-|[]]; cbn; auto|]. intros [_ HL]. destruct S; [now left|discriminate].
    + rewrite in_app_iff, in_map_iff. replace (lo + 1 + 1) with ((lo + 1) + 1) by lia.
      split.
      * intros [[S' [E H]]|H].
        -- apply (IH (lo + 1) k S' ltac:(lia)) in H as [HI HL]. subst S. cbn [incr length]. split; [|lia]. split; [lia|assumption].
        -- apply (IH (lo + 1) (Datatypes.S k) S ltac:(lia)) in H as [HI HL]. split; [|assumption]. eapply incr_weaken; [|eassumption]. lia.
      * intros [HI HL]. destruct S as [|x t]; [discriminate|]. cbn [incr] in HI. destruct HI as [Hx HI].
        destruct (Z.eq_dec x (lo + 1)) as [->|NE].
        -- left. exists t. split; [reflexivity|]. apply (IH (lo + 1) k t ltac:(lia)). split; [assumption|]. cbn in HL. lia.
        -- right. apply (IH (lo + 1) (Datatypes.S k) (x :: t) ltac:(lia)). split; [|assumption]. cbn [incr]. split; [lia|assumption].
Qed.

Lemma In_combs_vrange N k S : In S (combs (vrange N) k) <-> incr 0 S N /\ length S = k.
Proof. unfold vrange. apply (In_combs_range N (Z.to_nat (N - 0)) 0 k S eq_refl). Qed.

Lemma incr_all lo S N x : incr lo S N -> In x S -> lo < x <= N.
Proof.
  revert lo. induction S as [|y t IH]; intros lo HI Hx; [contradiction|]. cbn [incr] in HI. destruct HI as [Hy HI].
  destruct Hx as [->|Hx]; [assumption|]. specialize (IH y HI Hx). lia.
Qed.
Lemma incr_pairs lo S N u v : incr lo S N -> In (u, v) (pairs S) -> lo < u /\ u < v /\ v <= N.
Proof.
  revert lo. induction S as [|y t IH]; intros lo HI Hp; [contradiction|]. cbn [incr] in HI. destruct HI as [Hy HI].
  cbn [pairs] in Hp. apply in_app_or in Hp as [Hp|Hp].
  - apply in_map_iff in Hp as [w [E Hw]]. inversion E; subst. pose proof (incr_all _ _ _ _ HI Hw). lia.
  - specialize (IH y HI Hp). lia.
Qed.

(* a graph E on 1..N (read on pairs u < v) without independent set of size s and without clique of size k *)
Definition ram_good (s k N : Z) (E : Z -> Z -> bool) : Prop :=
  (forall S, incr 0 S N -> length S = Z.to_nat s -> exists u v, In (u, v) (pairs S) /\ E u v = true) /\
  (forall S, incr 0 S N -> length S = Z.to_nat k -> exists u v, In (u, v) (pairs S) /\ E u v = false).

Theorem ram_T1 s k N a : cnf_sat a (ram_cnf s k N) = true <-> ram_good s k N (fun u v => a (cid N u v)).
Proof.
  unfold ram_cnf, ram_good. rewrite cnf_sat_app, andb_true_iff, !cnf_sat_true_iff. split.
  - intros [H1 H2]. split; intros S HI HL.
    + assert (Hc : clause_sat a (ram_pos N S) = true) by (apply H1, in_map, In_combs_vrange; now split).
      apply clause_sat_true_iff in Hc as [l [Hl Ht]]. apply in_map_iff in Hl as [[u v] [E Hp]]. subst l.
      cbn [fst snd] in Ht. pose proof (incr_pairs _ _ _ _ _ HI Hp). rewrite lit_true_pos in Ht by (apply cid_pos; lia). eauto.
    + assert (Hc : clause_sat a (ram_neg N S) = true) by (apply H2, in_map, In_combs_vrange; now split).
      apply clause_sat_true_iff in Hc as [l [Hl Ht]]. apply in_map_iff in Hl as [[u v] [E Hp]]. subst l.
      cbn [fst snd] in Ht. pose proof (incr_pairs _ _ _ _ _ HI Hp). rewrite lit_true_neg in Ht by (apply cid_pos; lia).
      exists u, v. split; [assumption|]. destruct (a (cid N u v)); [discriminate|reflexivity].
  - intros [G1 G2]. split; intros c Hc; apply in_map_iff in Hc as [S [E HS]]; subst c; apply In_combs_vrange in HS as [HI HL].
    + destruct (G1 S HI HL) as [u [v [Hp He]]]. apply clause_sat_true_iff. exists (cid N u v). split.
      * unfold ram_pos. apply in_map_iff. exists (u, v). split; [reflexivity|assumption].
      * pose proof (incr_pairs _ _ _ _ _ HI Hp). rewrite lit_true_pos by (apply cid_pos; lia). exact He.
    + destruct (G2 S HI HL) as [u [v [Hp He]]]. apply clause_sat_true_iff. exists (- cid N u v). split.
      * unfold ram_neg. apply in_map_iff. exists (u, v). split; [reflexivity|assumption].
      * pose proof (incr_pairs _ _ _ _ _ HI Hp). rewrite lit_true_neg by (apply cid_pos; lia). now rewrite He.
Qed.

Definition ram_assignment (N : Z) (E : Z -> Z -> bool) (x : Z) : bool :=
  existsb (fun p => (cid N (fst p) (snd p) =? x) && E (fst p) (snd p)) (pairs_lt N).
Lemma ram_assignment_cid N E u v : 1 <= u -> u < v <= N -> ram_assignment N E (cid N u v) = E u v.
Proof.
  intros Hu Hv. unfold ram_assignment. destruct (E u v) eqn:Euv.
  - apply existsb_exists. exists (u, v). split; [apply In_pairs_lt; lia|]. cbn [fst snd]. now rewrite Z.eqb_refl, Euv.
  - destruct (existsb _ _) eqn:X; [|reflexivity]. apply existsb_exists in X as [[u' v'] [Hin X]].
    apply In_pairs_lt in Hin. cbn [fst snd] in X. apply andb_true_iff in X as [X1 X2]. apply Z.eqb_eq in X1.
    destruct (cid_inj N u' v' u v) as [-> ->]; try lia; try congruence.
Qed.

Lemma ram_good_ext s k N E E' : (forall u v, 1 <= u -> u < v <= N -> E u v = E' u v) -> ram_good s k N E -> ram_good s k N E'.
Proof.
  intros X [G1 G2]. split; intros S HI HL.
  - destruct (G1 S HI HL) as [u [v [Hp He]]]. exists u, v. split; [assumption|]. pose proof (incr_pairs _ _ _ _ _ HI Hp). rewrite <- X by lia. exact He.
  - destruct (G2 S HI HL) as [u [v [Hp He]]]. exists u, v. split; [assumption|]. pose proof (incr_pairs _ _ _ _ _ HI Hp). rewrite <- X by lia. exact He.
Qed.

Theorem ram_T2 s k N : (exists a, cnf_sat a (ram_cnf s k N) = true) <-> exists E, ram_good s k N E.
Proof.
  split.
  - intros [a H]. apply ram_T1 in H. eauto.
  - intros [E G]. exists (ram_assignment N E). apply ram_T1. eapply ram_good_ext; [|eassumption].
    intros u v Hu Hv. cbn beta. now rewrite ram_assignment_cid.
Qed.

(* every variable 1..N(N-1)/2 is the variable of exactly one pair *)
Lemma cid_surj N x : 0 <= N -> 1 <= x <= N * (N - 1) / 2 -> exists u v, 1 <= u /\ u < v <= N /\ cid N u v = x.
Proof.
  intros HN Hx.
  assert (G : forall m : nat, Z.of_nat m <= N - 1 -> 1 <= x <= csum N m -> exists u v, 1 <= u /\ u < v <= N /\ cid N u v = x).
  { induction m as [|m IH]; intros Hm Hxm; [cbn in Hxm; lia|].
    destruct (Z.le_gt_cases x (csum N m)) as [L|L]; [apply IH; lia|].
    rewrite csum_succ in Hxm. exists (Z.of_nat (S m)), (Z.of_nat (S m) + (x - csum N m)).
    split; [lia|]. split; [lia|]. unfold cid. replace (Z.to_nat (Z.of_nat (S m) - 1)) with m by lia. lia. }
  destruct (Z.le_gt_cases N 0) as [L|L].
  - assert (N = 0) by lia. subst N. cbn in Hx. lia.
  - apply (G (Z.to_nat (N - 1))); [lia|]. split; [lia|].
    pose proof (csum_closed N (Z.to_nat (N - 1))) as C. replace (Z.of_nat (Z.to_nat (N - 1))) with (N - 1) in C by lia.
    assert (N * (N - 1) / 2 <= csum N (Z.to_nat (N - 1))); [|lia]. apply Z.div_le_upper_bound; [lia|]. nia.
Qed.

(* one satisfying assignment per graph: assignments that describe the same graph agree on every variable *)
Theorem ram_one_per_graph N (a b : Z -> bool) : 0 <= N -> (forall u v, 1 <= u -> u < v <= N -> a (cid N u v) = b (cid N u v)) ->
  forall x, 1 <= x <= ram_numvar N -> a x = b x.
Proof.
  intros HN H x Hx. destruct (cid_surj N x HN Hx) as [u [v [Hu [Hv E]]]]. subst x. now apply H.
Qed.

(* "VanDerWaerden returns a formula on every valid argument" *)
Definition vdw_total_statement (formula : Z -> list Z -> c3res) : Prop :=
  forall N ks, vdw_args_ok N ks = true -> exists nv f, formula N ks = C3Ok nv f.
Theorem vdw_total_refuted : ~ vdw_total_statement vdw_formula.
Proof.
  intros H. destruct (H 5 [1; 2] eq_refl) as [nv [f E]].
  rewrite (vdw_crashes_on_length_one 5 [1; 2] eq_refl (or_introl eq_refl)) in E. discriminate.
Qed.
Theorem vdw_spec_total_holds : vdw_total_statement vdw_spec_formula.
Proof. intros N ks H. rewrite (vdw_spec_total N ks H). eauto. Qed.

(* no literal of the van der Waerden builder calls is 0: both renderings mean [irs_hold] *)
Lemma vdw_ir_ok aps N ks : aps_correct aps N ks -> irs_ok (vdw_ir aps N ks) = true.
Proof.
  intros AC. destruct (Nat.eq_dec (length ks) 2) as [E|NE].
  - destruct ks as [|k1 [|k2 [|k3 t]]]; try discriminate. cbn [vdw_ir]. unfold irs_ok, clauses_ir.
    rewrite forallb_map. apply forallb_forall. intros c Hc. unfold ir_ok, lits_ok. cbn [ir_lits].
    apply forallb_forall. intros l Hl. apply nonzero_spec. apply in_app_or in Hc as [Hc|Hc].
    + apply (AC k1 (or_introl eq_refl)) in Hc. pose proof (is_ap_range _ _ _ _ Hc Hl). lia.
    + apply in_map_iff in Hc as [ap [<- Hap]]. apply (AC k2 (or_intror (or_introl eq_refl))) in Hap.
      apply in_map_iff in Hl as [i [<- Hi]]. pose proof (is_ap_range _ _ _ _ Hap Hi). lia.
  - rewrite vdw_ir_many by assumption. rewrite irs_ok_app. apply andb_true_iff. split.
    + unfold irs_ok. rewrite forallb_map. apply forallb_forall. intros i Hi. apply In_vrange in Hi.
      unfold ir_ok, lits_ok. cbn [ir_lits]. apply forallb_forall. intros l Hl. apply in_map_iff in Hl as [c [<- Hc]].
      apply In_vrange in Hc. apply nonzero_spec. pose proof (vdw_var_pos (len ks) i c). lia.
    + unfold irs_ok. apply forallb_forall. intros x Hx. apply in_flat_map in Hx as [c [Hc Hx]]. apply In_vrange in Hc.
      apply in_map_iff in Hx as [ap [<- Hap]].
      assert (Hk : In (nth (Z.to_nat (c - 1)) ks 0) ks) by (apply nth_In; unfold len in Hc; lia).
      apply (AC _ Hk) in Hap. unfold ir_ok, lits_ok. cbn [ir_lits]. apply forallb_forall. intros l Hl.
      apply in_map_iff in Hl as [i [<- Hi]]. pose proof (is_ap_range _ _ _ _ Hap Hi). apply nonzero_spec.
      pose proof (vdw_var_pos (len ks) i c). lia.
Qed.
