(* PipelineFacts.v -- lemmas about the whole-program model coq/Pipeline.v
   (statements in Prop_C17_pipeline.v). *)
From Coq Require Import ZArith List Bool Ascii String Lia ZifyBool.
From Cnfgen Require Import Sem Comb Linear IR Text Dimacs OpbText OpbTextFacts Cli GraphSpec GraphIO Subst FamTab FamFast
     Fam_php Fam_count Fam_cliquecol Fam_subsetcard C02Common Fam_tseitin Fam_coloring Fam_domset Fam_subgraph
     C03_Util Fam_ordering Fam_ramsey Fam_cpls Fam_pebbling PipelineGraph.
From Cnfgen Require Import SemFacts IRFacts IRRange SubstFacts DimacsFacts EndToEnd CliFacts FamFastFacts
     FamRange_Util FamRange_C01 FamRange_C02 FamRange_C03 C03_UtilFacts GraphIOFacts PipelineGraphFacts Pipeline.
Import ListNotations.
Open Scope Z_scope.
Ltac Zify.zify_post_hook ::= Z.to_euclidean_division_equations.

(* ------------------------------------------------------------------ *)
(* splitting around -T, the other direction                            *)
(* ------------------------------------------------------------------ *)
Definition noT (c : list String.string) : Prop := ~ In "-T"%string c.

Lemma split_aux_noT_end : forall c cur, noT c -> split_T_aux cur c = [rev cur ++ c].
Proof.
  induction c as [|x c IH]; intros cur H; cbn [split_T_aux].
  - now rewrite app_nil_r.
  - destruct (String.eqb x "-T") eqn:E.
    + apply String.eqb_eq in E. subst x. exfalso. apply H. now left.
    + rewrite IH.
      * cbn [rev]. now rewrite <- app_assoc.
      * intros Hin. apply H. now right.
Qed.

Lemma split_aux_app : forall a cur t, noT t ->
  split_T_aux cur (a ++ "-T"%string :: t) = split_T_aux cur a ++ [t].
Proof.
  induction a as [|x a IH]; intros cur t H; cbn [app split_T_aux].
  - cbn [String.eqb Ascii.eqb Bool.eqb]. cbn. now rewrite (split_aux_noT_end t [] H).
  - destruct (String.eqb x "-T").
    + cbn [app]. f_equal. now apply IH.
    + now apply IH.
Qed.

Theorem split_T_app a t : noT t -> split_T (a ++ "-T"%string :: t) = split_T a ++ [t].
Proof. intros H. unfold split_T. now apply split_aux_app. Qed.

Lemma split_T_nonempty argv : split_T argv <> [].
Proof.
  unfold split_T. generalize (@nil String.string). induction argv as [|x a IH]; intros cur; cbn [split_T_aux].
  - discriminate.
  - destruct (String.eqb x "-T"); [discriminate|apply IH].
Qed.

(* split_T (join_T chunks) = chunks for chunks without -T *)
Lemma split_aux_join : forall chunks c cur, noT c -> Forall noT chunks ->
  split_T_aux cur (c ++ flat_map (fun d => "-T"%string :: d) chunks) = (rev cur ++ c) :: chunks.
Proof.
  induction chunks as [|d chunks IH]; intros c cur Hc Hall; cbn [flat_map].
  - rewrite app_nil_r. now apply split_aux_noT_end.
  - inversion Hall as [|? ? Hd Hrest]; subst.
    revert cur. induction c as [|x c IHc]; intros cur.
    + cbn [app split_T_aux]. cbn. rewrite app_nil_r. f_equal.
      specialize (IH d [] Hd Hrest). cbn [rev app] in IH. exact IH.
    + cbn [app split_T_aux]. destruct (String.eqb x "-T") eqn:E.
      * apply String.eqb_eq in E. subst x. exfalso. apply Hc. now left.
      * rewrite IHc; [|intros Hin; apply Hc; now right]. cbn [rev]. now rewrite <- app_assoc.
Qed.

Theorem split_join_T chunks : chunks <> [] -> Forall noT chunks -> split_T (join_T chunks) = chunks.
Proof.
  intros Hne Hall. destruct chunks as [|c rest]; [contradiction|].
  inversion Hall; subst. unfold split_T, join_T. now rewrite split_aux_join.
Qed.

(* ------------------------------------------------------------------ *)
(* the fast rendering is the reference rendering                       *)
(* ------------------------------------------------------------------ *)
Lemma pl_of_c3_ext r : pl_of_c3 to_cnf_f r = pl_of_c3 to_cnf r.
Proof. destruct r as [nv f|e]; cbn; [now rewrite to_cnf_f_eq|reflexivity]. Qed.

Lemma pl_of_opt_ext nv o : pl_of_opt to_cnf_f nv o = pl_of_opt to_cnf nv o.
Proof. destruct o as [l|]; cbn; [now rewrite to_cnf_f_eq|reflexivity]. Qed.

Lemma pl_build_fast_eq c : pl_build_fast c = pl_build c.
Proof.
  unfold pl_build_fast, pl_build. destruct c; cbn [pl_build_with]; rewrite ?pl_of_c3_ext, ?pl_of_opt_ext, ?to_cnf_f_eq; reflexivity.
Qed.

Lemma pl_run_fast_eq c : pl_run_with pl_build_fast c = pl_run_with pl_build c.
Proof.
  unfold pl_run_with. destruct (pl_gen c); [|reflexivity]. destruct (pl_all_some (pl_ts c)); [|reflexivity].
  now rewrite pl_build_fast_eq.
Qed.

Theorem pl_formula_fast_eq argv : pl_formula_fast argv = pl_formula argv.
Proof.
  unfold pl_formula_fast, pl_formula, pl_formula_of_chunks, pl_formula_of_chunks_with.
  destruct (pl_parse_chunks _); [apply pl_run_fast_eq|reflexivity|reflexivity].
Qed.

Theorem cnfgen_main_fast_eq argv : cnfgen_main_fast argv = cnfgen_main argv.
Proof. unfold cnfgen_main_fast, cnfgen_main. now rewrite pl_formula_fast_eq. Qed.

(* ------------------------------------------------------------------ *)
(* one more -T chunk                                                   *)
(* ------------------------------------------------------------------ *)
Lemma pl_parse_tchunks_app : forall rest t,
  pl_parse_tchunks (rest ++ [t]) =
  match pl_parse_tchunks rest with
  | PlOk ts => match pl_parse_tchunk t with
               | PlOk x => PlOk (ts ++ [x])
               | PlErr => PlErr
               | PlOutside => PlOutside
               end
  | PlErr => PlErr
  | PlOutside => PlOutside
  end.
Proof.
  induction rest as [|c rest IH]; intros t; cbn [app pl_parse_tchunks].
  - destruct (pl_parse_tchunk t); reflexivity.
  - destruct (pl_parse_tchunk c); [|reflexivity|reflexivity].
    rewrite IH. destruct (pl_parse_tchunks rest); [|reflexivity|reflexivity].
    destruct (pl_parse_tchunk t); reflexivity.
Qed.

Lemma pl_all_some_app {A} : forall (l : list (option A)) x,
  pl_all_some (l ++ [Some x]) = option_map (fun r => r ++ [x]) (pl_all_some l).
Proof.
  induction l as [|[y|] l IH]; intros x; cbn [app pl_all_some]; [reflexivity| |reflexivity].
  rewrite IH. destruct (pl_all_some l); reflexivity.
Qed.

Lemma pl_all_some_app_none {A} : forall (l : list (option A)), pl_all_some (l ++ [None]) = None.
Proof.
  induction l as [|[y|] l IH]; cbn [app pl_all_some]; [reflexivity| |reflexivity]. now rewrite IH.
Qed.

Lemma pl_chain_app start l t : pl_chain start (l ++ [t]) = pl_step (pl_chain start l) t.
Proof. unfold pl_chain. now rewrite fold_left_app. Qed.

(* a command line whose parsers all succeed and that names a formula and, after every -T, a transformation *)
Definition pl_wellformed (argv : list String.string) : Prop :=
  exists c g l, pl_parse_chunks (pl_chunks_of argv) = PlOk c /\ pl_gen c = Some g /\ pl_all_some (pl_ts c) = Some l.

Lemma pl_chunks_of_app a t : noT t -> pl_chunks_of (a ++ "-T"%string :: t) = pl_chunks_of a ++ [map lit t].
Proof. intros H. unfold pl_chunks_of. rewrite (split_T_app a t H), map_app. reflexivity. Qed.

Lemma pl_chunks_of_nonempty argv : pl_chunks_of argv <> [].
Proof.
  unfold pl_chunks_of. pose proof (split_T_nonempty argv). destruct (split_T argv); [contradiction|discriminate].
Qed.

Lemma pl_formula_ok_wellformed argv n F : pl_formula argv = FrOk n F -> pl_wellformed argv.
Proof.
  unfold pl_formula, pl_formula_of_chunks, pl_formula_of_chunks_with, pl_wellformed.
  destruct (pl_parse_chunks (pl_chunks_of argv)) as [c| |] eqn:E; try discriminate.
  unfold pl_run_with. destruct (pl_gen c) as [g|] eqn:G; [|discriminate].
  destruct (pl_all_some (pl_ts c)) as [l|] eqn:L; [|discriminate]. intros _. now exists c, g, l.
Qed.

Lemma pl_parse_chunks_app chunks t : chunks <> [] ->
  pl_parse_chunks (chunks ++ [t]) =
  match pl_parse_chunks chunks with
  | PlOk c => match pl_parse_tchunk t with
              | PlOk x => PlOk (mk_pl_cmdline (pl_o c) (pl_gen c) (pl_ts c ++ [x]))
              | PlErr => PlErr
              | PlOutside => PlOutside
              end
  | PlErr => PlErr
  | PlOutside => PlOutside
  end.
Proof.
  intros Hne. destruct chunks as [|c0 rest]; [contradiction|]. cbn [app pl_parse_chunks].
  destruct (pl_parse_chunk0 c0) as [[o g]| |]; [|reflexivity|reflexivity].
  rewrite pl_parse_tchunks_app. destruct (pl_parse_tchunks rest); [|reflexivity|reflexivity].
  destruct (pl_parse_tchunk t); reflexivity.
Qed.

Theorem pl_formula_step a t tc : noT t -> pl_wellformed a ->
  pl_parse_tchunk (map lit t) = PlOk (Some tc) ->
  pl_wellformed (a ++ "-T"%string :: t) /\
  pl_formula (a ++ "-T"%string :: t) = pl_step (pl_formula a) tc.
Proof.
  intros Ht (c & g & l & Ec & Eg & El) Etc.
  unfold pl_wellformed, pl_formula, pl_formula_of_chunks, pl_formula_of_chunks_with.
  rewrite (pl_chunks_of_app a t Ht), (pl_parse_chunks_app _ _ (pl_chunks_of_nonempty a)), Ec, Etc.
  split.
  - eexists; exists g, (l ++ [tc]). split; [reflexivity|]. cbn [pl_gen pl_ts]. split; [assumption|].
    rewrite pl_all_some_app, El. reflexivity.
  - unfold pl_run_with. cbn [pl_gen pl_ts]. rewrite Eg, pl_all_some_app, El. cbn [option_map].
    now rewrite pl_chain_app.
Qed.

(* -T followed by nothing, or by a chunk the transformation parser rejects *)
Theorem pl_formula_step_error a t : noT t -> pl_wellformed a ->
  pl_parse_tchunk (map lit t) = PlErr \/ pl_parse_tchunk (map lit t) = PlOk None ->
  pl_formula (a ++ "-T"%string :: t) = FrErr.
Proof.
  intros Ht (c & g & l & Ec & Eg & El) Etc.
  unfold pl_formula, pl_formula_of_chunks, pl_formula_of_chunks_with.
  rewrite (pl_chunks_of_app a t Ht), (pl_parse_chunks_app _ _ (pl_chunks_of_nonempty a)), Ec.
  destruct Etc as [-> | ->]; [reflexivity|].
  unfold pl_run_with. cbn [pl_gen pl_ts]. now rewrite Eg, pl_all_some_app_none.
Qed.

(* a chain -T t1 ... -T tk is the left-to-right fold of the transformation models *)
Theorem pl_formula_chain : forall ts tcs a, pl_wellformed a -> Forall noT ts ->
  Forall2 (fun t tc => pl_parse_tchunk (map lit t) = PlOk (Some tc)) ts tcs ->
  pl_formula (a ++ flat_map (fun t => "-T"%string :: t) ts) = fold_left pl_step tcs (pl_formula a).
Proof.
  induction ts as [|t ts IH]; intros tcs a Wa Hn H2.
  - inversion H2; subst. cbn. now rewrite app_nil_r.
  - inversion H2 as [|? tc ? tcs' Et H2']; subst. inversion Hn; subst.
    cbn [flat_map fold_left].
    replace (a ++ ("-T"%string :: t) ++ flat_map (fun t0 => "-T"%string :: t0) ts)
      with ((a ++ "-T"%string :: t) ++ flat_map (fun t0 => "-T"%string :: t0) ts)
      by (rewrite <- app_assoc; reflexivity).
    destruct (pl_formula_step a t tc) as [W E]; try assumption.
    rewrite (IH tcs' _ W); [|assumption|assumption]. now rewrite E.
Qed.

(* ------------------------------------------------------------------ *)
(* every formula the pipeline hands to the writer has its literals in range *)
(* ------------------------------------------------------------------ *)
Definition pl_good (r : pl_fres) : Prop :=
  match r with
  | FrOk n F => 0 <= n /\ lits_in_range n F = true
  | FrErr => True
  | FrCrash => False
  | FrOutside => False
  end.

Lemma In_upto x m : In x (upto m) <-> 1 <= x <= m.
Proof. unfold upto. rewrite C03_UtilFacts.In_zrange. lia. Qed.

Lemma lit_ok_range n l : l <> 0 -> Z.abs l <= n -> nonzero l && (Z.abs l <=? n) = true.
Proof. intros H1 H2. apply andb_true_iff. split; [now apply nonzero_spec|lia]. Qed.

Lemma clause_range n c : (forall l, In l c -> l <> 0 /\ Z.abs l <= n) ->
  forallb (fun l => nonzero l && (Z.abs l <=? n)) c = true.
Proof. intros H. apply forallb_forall. intros l Hl. destruct (H l Hl). now apply lit_ok_range. Qed.

Lemma pl_or_range p n : 0 <= p -> 0 <= n -> lits_in_range (p + n) (to_cnf (pl_or_ir p n)) = true.
Proof.
  intros Hp Hn. unfold pl_or_ir, to_cnf. cbn [flat_map ir_cnf app]. unfold lits_in_range. cbn [forallb].
  rewrite andb_true_r. apply clause_range. intros l Hl. apply in_app_or in Hl as [Hl|Hl].
  - apply In_upto in Hl. lia.
  - apply in_map_iff in Hl as (v & <- & Hv). apply In_upto in Hv. lia.
Qed.

Lemma to_cnf_clauses (F : cnf) : to_cnf (map IClause F) = F.
Proof. unfold to_cnf. induction F as [|c F IH]; cbn; [reflexivity|now rewrite IH]. Qed.

Lemma pl_and_range p n : 0 <= p -> 0 <= n -> lits_in_range (p + n) (to_cnf (pl_and_ir p n)) = true.
Proof.
  intros Hp Hn. unfold pl_and_ir.
  replace (map (fun v => IClause [v]) (upto p) ++ map (fun v => IClause [- (p + v)]) (upto n))
    with (map IClause (map (fun v => [v]) (upto p) ++ map (fun v => [- (p + v)]) (upto n)))
    by (rewrite map_app, !map_map; reflexivity).
  rewrite to_cnf_clauses. unfold lits_in_range. apply forallb_forall. intros c Hc.
  apply in_app_or in Hc as [Hc|Hc]; apply in_map_iff in Hc as (v & <- & Hv); apply In_upto in Hv;
    apply clause_range; intros l [<-|[]]; lia.
Qed.

Lemma pl_of_c3_good r : (forall nv f, r = C3Ok nv f -> 0 <= nv /\ lits_in_range nv (to_cnf f) = true) ->
  (forall e, r = C3Err e -> e = C3ValueError) -> pl_good (pl_of_c3 to_cnf r).
Proof.
  intros H1 H2. destruct r as [nv f|e]; cbn.
  - now apply H1.
  - rewrite (H2 e eq_refl). exact I.
Qed.

Lemma half_nonneg n : 0 <= n -> 0 <= n * (n - 1) / 2.
Proof. intros H. apply Z.div_pos; nia. Qed.

Lemma stone_only_value_error D R e : stone_formula D R = C3Err e -> e = C3ValueError.
Proof.
  unfold stone_formula, sstone_formula. destruct (negb (dag_ok D)); [now inversion 1|].
  destruct (R <? 0); [now inversion 1|]. destruct (negb (len (complete_bip (List.length D) R) =? len D)); [now inversion 1|discriminate].
Qed.

(* what the parsers guarantee about the graphs inside a command *)
Definition pl_cmd_wf (c : pl_fcmd) : Prop :=
  match c with
  | FcKcolor _ n E | FcTiling n E | FcDomset _ _ n E => graph_wf n E = true
  | FcKclique _ _ n _ => 0 <= n
  | FcGop nb _ _ _ _ => graph_ok nb = true
  | _ => True
  end.

Lemma pl_of_opt_good nv o : (forall l, o = Some l -> 0 <= nv /\ lits_in_range nv (to_cnf l) = true) -> pl_good (pl_of_opt to_cnf nv o).
Proof. intros H. destruct o as [l|]; cbn; [now apply H|exact I]. Qed.

Theorem pl_build_good c : pl_cmd_wf c -> pl_good (pl_build c).
Proof.
  intros W. unfold pl_build. destruct c; cbn [pl_build_with]; cbn [pl_cmd_wf] in W.
  - (* php *) destruct (php_valid m n) eqn:V; cbn; [|exact I]. unfold php_valid in V.
    split; [unfold php_numvar; nia|apply php_range].
  - (* bphp *) destruct (bphp_valid m n) eqn:V; cbn; [|exact I]. unfold bphp_valid in V.
    split; [|apply bphp_range]. rewrite bphp_numvar_doc. pose proof (Z.log2_up_nonneg n). nia.
  - (* rphp *) destruct (rphp_valid p r h) eqn:V; cbn; [|exact I].
    split; [|now apply rphp_range]. unfold rphp_valid in V. rewrite rphp_numvar_doc. nia.
  - (* count *) destruct (count_valid M p) eqn:V; cbn; [|exact I].
    split; [unfold count_numvar; apply len_nonneg|apply count_range].
  - (* cliquecoloring *) destruct (cc_valid n k c) eqn:V; cbn; [|exact I].
    split; [|now apply cliquecol_range]. unfold cc_valid in V. rewrite cliquecol_numvar_doc by lia.
    pose proof (half_nonneg n). nia.
  - (* op *) apply pl_of_c3_good.
    + intros nv f E. split; [|eapply op_in_range; eauto].
      pose proof (op_numvar_doc _ _ _ _ _ _ _ E) as D. unfold op_formula in E.
      destruct (Z.ltb_spec n 0); [discriminate|]. subst nv. destruct smart; [now apply half_nonneg|nia].
    + intros e E. unfold op_formula in E. destruct (n <? 0); [now inversion E|discriminate].
  - (* ram *) apply pl_of_c3_good.
    + intros nv f E. split; [|eapply ram_in_range; eauto].
      pose proof (ram_numvar_doc _ _ _ _ _ E) as D. unfold ram_formula in E.
      destruct ((N <? 0) || (s <? 1) || (k <? 1)) eqn:B; [discriminate|]. subst nv. apply half_nonneg. lia.
    + intros e E. unfold ram_formula in E. destruct ((N <? 0) || (s <? 1) || (k <? 1)); [now inversion E|discriminate].
  - (* vdw *) apply pl_of_c3_good.
    + intros nv f E. split; [|eapply vdw_spec_in_range; eauto].
      unfold vdw_spec_formula in E. destruct (vdw_args_ok N ks) eqn:B; [|discriminate]. cbn in E.
      inversion E; subst. unfold vdw_args_ok in B. unfold vdw_numvar.
      destruct ks as [|k1 [|k2 [|k3 ks']]]; try lia; pose proof (len_nonneg (k1 :: k2 :: k3 :: ks')); nia.
    + intros e E. unfold vdw_spec_formula in E. destruct (vdw_args_ok N ks); cbn in E; [discriminate|now inversion E].
  - (* ptn *) apply pl_of_c3_good.
    + intros nv f E. split; [|eapply ptn_in_range; eauto].
      unfold ptn_formula in E. destruct (Z.ltb_spec N 0); [discriminate|]. now inversion E; subst.
    + intros e E. unfold ptn_formula in E. destruct (N <? 0); [now inversion E|discriminate].
  - (* cpls *) apply pl_of_c3_good.
    + intros nv f E. split; [|eapply cpls_in_range; eauto].
      pose proof (cpls_numvar_doc _ _ _ _ _ E) as D. apply cpls_ok_args in E as [Ha [Hb [Hc _]]].
      pose proof (Z.log2_up_nonneg b). pose proof (Z.log2_up_nonneg c). subst nv. nia.
    + intros e E. unfold cpls_formula in E.
      destruct ((a <? 1) || (b <? 1) || (c <? 1)); [now inversion E|].
      destruct (negb (is_pow2 b) || negb (is_pow2 c)); [now inversion E|discriminate].
  - (* and *) destruct ((0 <=? p) && (0 <=? n)) eqn:V; cbn; [|exact I].
    split; [lia|apply pl_and_range; lia].
  - (* or *) destruct ((0 <=? p) && (0 <=? n)) eqn:V; cbn; [|exact I].
    split; [lia|apply pl_or_range; lia].
  - (* true *) cbn. split; [lia|reflexivity].
  - (* false *) cbn. split; [lia|reflexivity].
  - (* kcolor *) apply pl_of_opt_good. intros l E0. destruct (graph_wf_parts n E W) as [Hn HE].
    split; [|eapply kcolor_in_range; eauto]. unfold kcolor_ir in E0. destruct (Z.ltb_spec k 0); [discriminate|].
    unfold kcolor_numvar. nia.
  - (* ec *) apply pl_of_opt_good. intros l E0. split; [unfold ec_numvar; apply len_nonneg|eapply ec_in_range; eauto].
  - (* tiling *) destruct (graph_wf_parts n E W) as [Hn HE]. cbn [pl_good]. split; [unfold tiling_numvar; lia|now apply tiling_in_range].
  - (* matching *) cbn [pl_good]. split; [unfold matching_numvar; apply len_nonneg|apply matching_range].
  - (* kclique *) apply pl_of_opt_good. intros l E0. split; [|eapply kclique_in_range; eauto].
    unfold kclique_ir in E0. destruct (Z.ltb_spec k 0); [discriminate|]. unfold kclique_numvar. nia.
  - (* kcliquebin *) apply pl_of_opt_good. intros l E0. split; [|eapply kcliquebin_in_range; eauto].
    unfold kcliquebin_ir in E0. destruct ((k <? 1) || (n <? 1)) eqn:B; [discriminate|].
    rewrite kcliquebin_numvar_doc. pose proof (Z.log2_up_nonneg n). nia.
  - (* domset *) apply pl_of_opt_good. intros l E0. destruct (graph_wf_parts n E W) as [Hn HE].
    split; [|eapply domset_in_range; eauto]. unfold domset_ir in E0. destruct (Z.leb_spec d 0); [discriminate|].
    rewrite domset_numvar_doc. nia.
  - (* tseitin *) cbn [pl_good]. split; [unfold tseitin_numvar; apply len_nonneg|apply tseitin_in_range].
  - (* gphp *) cbn [pl_good]. split; [unfold gphp_numvar; apply len_nonneg|apply gphp_range].
  - (* subsetcard *) cbn [pl_good]. split; [unfold subsetcard_numvar; apply len_nonneg|apply subsetcard_range].
  - (* gop *) apply pl_of_c3_good.
    + intros nv f E0. split; [|eapply gop_in_range; eauto].
      pose proof (gop_numvar_doc _ _ _ _ _ _ _ E0) as D. subst nv. pose proof (len_nonneg nb).
      destruct smart; [now apply half_nonneg|nia].
    + intros e E0. unfold gop_formula in E0. discriminate.
  - (* peb *) apply pl_of_c3_good.
    + intros nv f E0. split; [|eapply peb_in_range; eauto]. rewrite (peb_numvar_doc _ _ _ E0). apply len_nonneg.
    + intros e E0. unfold peb_formula in E0. destruct (dag_ok D); [discriminate|now inversion E0].
  - (* stone *) apply pl_of_c3_good.
    + intros nv f E0. split; [|eapply stone_in_range; eauto]. rewrite (stone_numvar_doc _ _ _ _ E0).
      unfold stone_formula in E0. destruct (negb (dag_ok D)); [discriminate|]. destruct (Z.ltb_spec s 0); [discriminate|].
      pose proof (len_nonneg D). nia.
    + intros e E0. exact (stone_only_value_error _ _ _ E0).
Qed.

(* ------------------------------------------------------------------ *)
(* transformations keep the literals in range                          *)
(* ------------------------------------------------------------------ *)
Lemma pl_composes_good r nv F dec : 0 <= nv -> composes r nv F dec -> pl_good (pl_of_tres r).
Proof. intros Hn (out & -> & R & _). cbn [pl_of_tres pl_good]. now split. Qed.

Lemma pl_block_good N k F g dec : 0 <= N -> lits_in_range N F = true ->
  (1 <= k -> composes (block_subst N k F g) (k * N) F dec) -> pl_good (pl_of_tres (block_subst N k F g)).
Proof.
  intros HN HF H. destruct (Z.lt_ge_cases k 1) as [Hk|Hk].
  - rewrite block_subst_rejects by assumption. exact I.
  - apply (pl_composes_good _ (k * N) F dec); [nia|now apply H].
Qed.

Theorem pl_transform_good t n F : 0 <= n -> lits_in_range n F = true -> pl_good (pl_transform t n F).
Proof.
  intros Hn HF. destruct t; cbn [pl_transform].
  - (* none *) cbn. now split.
  - (* flip *) destruct (flip_spec_correct n F Hn HF) as (E1 & _ & E3). cbv zeta. cbn [pl_good]. rewrite E1. now split.
  - (* ite *) destruct (ite_substitution_correct n F Hn HF) as (E1 & E2 & _). cbv zeta. cbn [pl_good]. rewrite E1. split; [lia|assumption].
  - (* xor *) apply (pl_block_good n k F _ (dec_xor k) Hn HF). intros Hk. now apply xor_substitution_correct.
  - (* or *) apply (pl_block_good n k F _ (dec_or k) Hn HF). intros Hk. now apply or_substitution_correct.
  - (* eq *) apply (pl_block_good n k F _ (dec_eq k false) Hn HF). intros Hk. now apply all_equal_substitution_correct.
  - (* neq *) apply (pl_block_good n k F _ (dec_eq k true) Hn HF). intros Hk. now apply all_equal_substitution_correct.
  - (* maj *) apply (pl_block_good n k F _ (dec_maj k) Hn HF). intros Hk. now apply majority_substitution_correct.
  - (* one *) apply (pl_block_good n k F _ (dec_one k) Hn HF). intros Hk. now apply exactly_one_substitution_correct.
  - (* lift *) destruct (Z.lt_ge_cases k 1) as [Hk|Hk].
    + rewrite formula_lifting_rejects by assumption. exact I.
    + destruct (formula_lifting_correct n k F Hk Hn HF) as (out & -> & R & _). cbn [pl_of_tres pl_good]. split; [nia|assumption].
  - (* linear *) apply (pl_block_good n N F _ (dec_linear N o K) Hn HF). intros Hk. now apply linear_substitution_correct.
Qed.

Lemma pl_step_good acc t : pl_good acc -> pl_good (pl_step acc t).
Proof. destruct acc as [n F| | |]; cbn [pl_step]; intros H; try assumption. destruct H. now apply pl_transform_good. Qed.

Lemma pl_chain_good : forall ts start, pl_good start -> pl_good (pl_chain start ts).
Proof.
  unfold pl_chain. induction ts as [|t ts IH]; intros start H; cbn [fold_left]; [assumption|].
  apply IH. now apply pl_step_good.
Qed.

(* ------------------------------------------------------------------ *)
(* the parsers return well-formed commands                             *)
(* ------------------------------------------------------------------ *)
Lemma pl_map_parsed_inv {A B} (f : A -> B) x c : pl_map_parsed f x = PlOk c -> exists a, x = PlOk a /\ c = f a.
Proof. destruct x as [a| |]; cbn; intros H; inversion H. now exists a. Qed.

Lemma pl_simple_arg_wf vs G : plg_graph_arg GSSimple vs = PlOk G -> graph_wf (io_n G) (io_edges G) = true.
Proof. intros H. apply plg_graph_arg_wf in H as [W K]. now apply plg_simple_graph_wf. Qed.

Lemma pl_parse_int_graph_inv flags longs ty g mk toks c : pl_parse_int_graph flags longs ty g mk toks = PlOk c ->
  exists cls x vs G, plg_graph_arg g vs = PlOk G /\ c = mk cls x G.
Proof.
  unfold pl_parse_int_graph. set (cls := map _ toks).
  destruct (existsb pl_is_out cls); [discriminate|]. destruct (existsb pl_is_unknown cls); [discriminate|].
  destruct (pl_one_plus cls) as [[tx vs]|]; [|discriminate]. destruct (gs_int tx) as [x|]; [|discriminate].
  destruct (argty_ok ty x); [|discriminate]. intros H. apply pl_map_parsed_inv in H as (G & E & ->).
  now exists cls, x, vs, G.
Qed.

Lemma pl_parse_graph_only_inv g mk toks c : pl_parse_graph_only g mk toks = PlOk c ->
  exists vs G, plg_graph_arg g vs = PlOk G /\ c = mk G.
Proof.
  unfold pl_parse_graph_only. set (cls := map _ toks).
  destruct (existsb pl_is_out cls); [discriminate|]. destruct (existsb pl_is_unknown cls); [discriminate|].
  destruct (pl_plus cls) as [vs|]; [|discriminate]. intros H. apply pl_map_parsed_inv in H as (G & E & ->).
  now exists vs, G.
Qed.

Lemma pl_with_ints_wf tys rest mk toks c : (forall zs c', mk zs = Some c' -> pl_cmd_wf c') ->
  pl_with_ints tys rest mk toks = PlOk c -> pl_cmd_wf c.
Proof.
  intros H. unfold pl_with_ints. destruct (pl_fixed tys rest toks) as [zs| |]; try discriminate.
  destruct (mk zs) as [c'|] eqn:E; [|discriminate]. intros E2. inversion E2; subst. now apply (H zs).
Qed.

Lemma pl_parse_php_wf toks c : pl_parse_php toks = PlOk c -> pl_cmd_wf c.
Proof.
  unfold pl_parse_php.
  repeat match goal with
         | |- (if ?b then _ else _) = PlOk _ -> _ => destruct b
         | |- match ?x with _ => _ end = PlOk _ -> _ => destruct x
         end; try discriminate; intros H; inversion H; exact I.
Qed.

Lemma pl_parse_op_wf toks c : pl_parse_op toks = PlOk c -> pl_cmd_wf c.
Proof.
  unfold pl_parse_op. set (cls := map _ toks). destruct (existsb pl_is_out cls); [discriminate|].
  destruct (pl_star cls) as [[|v0 vs]|]; try discriminate.
  destruct (negb (gs_float_ok v0)).
  - destruct (plg_graph_arg GSSimple (v0 :: vs)) as [G| |] eqn:E; try discriminate.
    destruct (_ || _); [discriminate|]. intros H. inversion H; subst. cbn [pl_cmd_wf].
    pose proof (pl_simple_arg_wf _ _ E) as W. destruct (graph_wf_parts _ _ W). now apply plg_nbrs_ok.
  - repeat match goal with
           | |- (if ?b then _ else _) = PlOk _ -> _ => destruct b
           | |- match ?x with _ => _ end = PlOk _ -> _ => destruct x
           end; try discriminate; intros H; inversion H; exact I.
Qed.

Lemma pl_parse_tseitin_wf toks c : pl_parse_tseitin toks = PlOk c -> pl_cmd_wf c.
Proof.
  unfold pl_parse_tseitin.
  repeat match goal with
         | |- (if ?b then _ else _) = PlOk _ -> _ => destruct b
         | |- match ?x with _ => _ end = PlOk _ -> _ => destruct x
         end; try discriminate; intros H; inversion H; exact I.
Qed.

Lemma pl_parse_subsetcard_wf toks c : pl_parse_subsetcard toks = PlOk c -> pl_cmd_wf c.
Proof.
  unfold pl_parse_subsetcard.
  repeat match goal with
         | |- (if ?b then _ else _) = PlOk _ -> _ => destruct b
         | |- match ?x with _ => _ end = PlOk _ -> _ => destruct x
         end; try discriminate; intros H; apply pl_map_parsed_inv in H as (G & _ & ->); exact I.
Qed.

Lemma pl_no_args_wf c0 toks c : pl_cmd_wf c0 -> pl_no_args c0 toks = PlOk c -> pl_cmd_wf c.
Proof. intros W. unfold pl_no_args. destruct (pl_fixed [] None toks); try discriminate. intros H. now inversion H; subst. Qed.

Ltac pl_ints_case := intros zs c' Hmk; destruct zs as [|? [|? [|? [|? ?]]]]; try discriminate; inversion Hmk; exact I.

Theorem pl_parse_formula_wf name toks c : pl_parse_formula name toks = PlOk c -> pl_cmd_wf c.
Proof.
  unfold pl_parse_formula.
  repeat match goal with |- (if pl_is name ?s then _ else _) = PlOk c -> _ => destruct (pl_is name s) end.
  all: try (apply pl_with_ints_wf; pl_ints_case).
  - apply pl_parse_php_wf.
  - apply pl_parse_op_wf.
  - (* kcolor *) intros H. apply pl_parse_int_graph_inv in H as (cls & x & vs & G & E & ->). cbn [pl_cmd_wf]. now apply (pl_simple_arg_wf vs).
  - (* kcliquebin *) intros H. apply pl_parse_int_graph_inv in H as (cls & x & vs & G & E & ->). exact I.
  - (* kclique *) intros H. apply pl_parse_int_graph_inv in H as (cls & x & vs & G & E & ->). cbn [pl_cmd_wf].
    pose proof (pl_simple_arg_wf vs G E) as W. now destruct (graph_wf_parts _ _ W).
  - (* domset *) intros H. apply pl_parse_int_graph_inv in H as (cls & x & vs & G & E & ->). cbn [pl_cmd_wf]. now apply (pl_simple_arg_wf vs).
  - (* stone *) intros H. apply pl_parse_int_graph_inv in H as (cls & x & vs & G & E & ->). exact I.
  - (* ec *) intros H. apply pl_parse_graph_only_inv in H as (vs & G & E & ->). exact I.
  - (* tiling *) intros H. apply pl_parse_graph_only_inv in H as (vs & G & E & ->). cbn [pl_cmd_wf]. now apply (pl_simple_arg_wf vs).
  - (* matching *) intros H. apply pl_parse_graph_only_inv in H as (vs & G & E & ->). exact I.
  - (* peb *) intros H. apply pl_parse_graph_only_inv in H as (vs & G & E & ->). exact I.
  - apply pl_parse_tseitin_wf.
  - apply pl_parse_subsetcard_wf.
  - now apply pl_no_args_wf.
  - now apply pl_no_args_wf.
  - destruct (gs_mem name pl_other_formulas); discriminate.
Qed.

Lemma pl_parse_main_wf : forall toks q v b o g, pl_parse_main q v b toks = PlOk (o, Some g) -> pl_cmd_wf g.
Proof.
  intros toks. remember (List.length toks) as k eqn:Hk. revert toks Hk.
  induction k as [k IHk] using lt_wf_ind. intros toks Hk q v b o g.
  destruct toks as [|t r]; cbn [pl_parse_main]; [discriminate|]. cbn [List.length] in Hk.
  destruct (_ || _).
  - destruct v; [discriminate|]. apply (IHk (List.length r)); [lia|reflexivity].
  - destruct (_ || _).
    + destruct q; [discriminate|]. apply (IHk (List.length r)); [lia|reflexivity].
    + destruct (_ || _).
      * destruct r as [|f r']; [discriminate|]. cbn [List.length] in Hk.
        destruct (pl_starts_dash f); [discriminate|].
        destruct (gs_teqb f (lit "dimacs")); [apply (IHk (List.length r')); [lia|reflexivity]|].
        destruct (gs_teqb f (lit "opb")); [apply (IHk (List.length r')); [lia|reflexivity]|].
        destruct (gs_teqb f (lit "latex")); discriminate.
      * destruct (pl_starts_dash t); [discriminate|].
        destruct (pl_parse_formula t r) as [c| |] eqn:E; try discriminate.
        intros H. inversion H; subst. now apply (pl_parse_formula_wf t r).
Qed.

Theorem pl_parse_chunks_wf chunks c g : pl_parse_chunks chunks = PlOk c -> pl_gen c = Some g -> pl_cmd_wf g.
Proof.
  destruct chunks as [|c0 rest]; cbn [pl_parse_chunks]; [discriminate|].
  destruct (pl_parse_chunk0 c0) as [[o g0]| |] eqn:E0; try discriminate.
  destruct (pl_parse_tchunks rest); try discriminate. intros H. inversion H; subst. cbn [pl_gen]. intros ->.
  unfold pl_parse_chunk0 in E0. destruct (negb _); [discriminate|]. now apply (pl_parse_main_wf c0 false false false o).
Qed.

Theorem pl_run_good c : (forall g, pl_gen c = Some g -> pl_cmd_wf g) -> pl_good (pl_run_with pl_build c).
Proof.
  intros W. unfold pl_run_with. destruct (pl_gen c) as [g|]; [|exact I]. destruct (pl_all_some (pl_ts c)); [|exact I].
  apply pl_chain_good, pl_build_good. now apply W.
Qed.

Theorem pl_formula_in_range argv n F : pl_formula argv = FrOk n F -> 0 <= n /\ lits_in_range n F = true.
Proof.
  unfold pl_formula, pl_formula_of_chunks, pl_formula_of_chunks_with.
  destruct (pl_parse_chunks (pl_chunks_of argv)) as [c| |] eqn:Ec; try discriminate.
  intros E. pose proof (pl_run_good c (fun g => pl_parse_chunks_wf _ c g Ec)) as G. rewrite E in G. exact G.
Qed.

Theorem pl_formula_no_crash argv : pl_formula argv <> FrCrash.
Proof.
  unfold pl_formula, pl_formula_of_chunks, pl_formula_of_chunks_with.
  destruct (pl_parse_chunks (pl_chunks_of argv)) as [c| |] eqn:Ec; try discriminate.
  intros E. pose proof (pl_run_good c (fun g => pl_parse_chunks_wf _ c g Ec)) as G. rewrite E in G. exact G.
Qed.

(* the model never returns the crash value *)
Theorem cnfgen_main_total argv :
  (exists text, cnfgen_main argv = POut text) \/ cnfgen_main argv = PCliError \/ cnfgen_main argv = POutside.
Proof.
  unfold cnfgen_main. pose proof (pl_formula_no_crash argv) as H.
  destruct (pl_formula argv) as [n F| | |]; cbn [pl_render].
  - destruct (pl_quiet_of argv); [left; eexists; reflexivity|right; right; reflexivity].
  - right; left; reflexivity.
  - contradiction.
  - right; right; reflexivity.
Qed.

Lemma opb_roundtrip_cnf_hypotheses_local n F : valid n F -> printable n -> printable (len F) ->
  opb_valid (FCnf n F) /\ opb_printable (FCnf n F).
Proof. intros V Pn Pm. exact (conj (cnf_opb_valid n F V) (cnf_opb_printable n F Pn Pm)). Qed.

(* a strict reader of the chosen format gets the formula back *)
Definition pl_reads_back (opb : bool) (text : text) (n : Z) (F : cnf) : Prop :=
  if opb then parse_opb text = OOk n (map clause_pbc F)
  else forall u, parse_dimacs u text = DOk n F.

Lemma pl_write_reads_back opb h n F : 0 <= n -> lits_in_range n F = true -> printable n -> printable (len F) ->
  pl_reads_back opb (pl_write opb h n F) n F.
Proof.
  intros Hn HR P1 P2. unfold pl_reads_back, pl_write. destruct opb.
  - destruct (opb_roundtrip_cnf_hypotheses_local n F (in_range_valid n F Hn HR) P1 P2) as [V P].
    exact (opb_roundtrip_proved h None (FCnf n F) V P).
  - intros u. now apply in_range_roundtrip.
Qed.

(* what is written is a DIMACS text of the formula, and a strict reader gets the formula back *)
Theorem cnfgen_main_roundtrip argv text :
  cnfgen_main argv = POut text ->
  exists n F, pl_formula argv = FrOk n F /\ text = pl_write (pl_opb_of argv) None n F /\
              0 <= n /\ lits_in_range n F = true /\
              (printable n -> printable (len F) -> pl_reads_back (pl_opb_of argv) text n F).
Proof.
  unfold cnfgen_main. destruct (pl_formula argv) as [n F| | |] eqn:E; cbn [pl_render]; try discriminate.
  destruct (pl_quiet_of argv); [|discriminate]. intros H. inversion H; subst.
  destruct (pl_formula_in_range argv n F E) as [Hn HR].
  exists n, F. repeat split; try assumption.
  intros P1 P2. now apply pl_write_reads_back.
Qed.

(* cnfgen_main depends on argv through its chunks only *)
Theorem pl_formula_of_join chunks : chunks <> [] -> Forall noT chunks ->
  pl_formula (join_T chunks) = pl_formula_of_chunks (map (map lit) chunks).
Proof. intros H1 H2. unfold pl_formula, pl_chunks_of. now rewrite split_join_T. Qed.
