(* Fam_cliquecol.v — cnfgen/families/cliquecoloring.py: CliqueColoring(n, k, c).
   Variables: e = new_combinations(n,2) (pairs u<v in lexicographic order, ids 1..n(n-1)/2),
   q = new_mapping(k,n), r = new_mapping(n,c).  Clauses in the order of the source.
   Definitions only. *)
From Coq Require Import ZArith List Bool.
From Cnfgen Require Import Sem Comb Linear IR FamTab.
Import ListNotations.
Open Scope Z_scope.

Definition cc_valid (n k c : Z) : bool := (0 <=? n) && (0 <=? k) && (0 <=? c).
Definition cc_etab (n : Z) : list ((Z * Z) * Z) := number 0 (pairs (upto n)).
Definition cc_ne (n : Z) : Z := len (pairs (upto n)).
Definition cc_numvar (n k c : Z) : Z := cc_ne n + k * n + n * c.
Definition cc_q (n : Z) (i u : Z) : Z := bvar (cc_ne n) n i u.
Definition cc_r (n k c : Z) (v l : Z) : Z := bvar (cc_ne n + k * n) c v l.
Definition cliquecol_ir (n k c : Z) : list ir :=
  let qo := cc_ne n in
  let ro := cc_ne n + k * n in
  cm_complete qo k n ++ cm_functional qo k n ++ cm_injective qo k n
  ++ flat_map (fun e =>
       flat_map (fun ij => [IClause [snd e; - cc_q n (fst ij) (fst (fst e)); - cc_q n (snd ij) (snd (fst e))];
                            IClause [snd e; - cc_q n (fst ij) (snd (fst e)); - cc_q n (snd ij) (fst (fst e))]])
                (pairs (upto k))) (cc_etab n)
  ++ cm_complete ro n c ++ cm_functional ro n c
  ++ flat_map (fun e => map (fun l => IClause [- snd e; - cc_r n k c (fst (fst e)) l; - cc_r n k c (snd (fst e)) l])
                            (upto c)) (cc_etab n).
