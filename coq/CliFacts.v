(* CliFacts.v — validated command lines never crash (C18); -T splitting (C17). *)
From Coq Require Import ZArith List Bool String Lia ZifyBool.
From Cnfgen Require Import Cli.
Import ListNotations.
Open Scope Z_scope.

Lemma gen_no_crash_table planted sc : In sc (table planted) -> forall zs, sc_gen sc zs <> OCrash.
Proof.
  intros H zs. cbn in H.
  repeat (destruct H as [H|H]; [subst sc; cbn [sc_gen] | ]); try contradiction;
    try (unfold always_formula; discriminate).
  - unfold gen_cpls. destruct zs as [|a [|b [|c [|? ?]]]]; try discriminate. destruct (is_pow2 b && is_pow2 c); discriminate.
  - unfold gen_randkcnf. destruct zs as [|k [|n [|m [|? ?]]]]; try discriminate.
    destruct (k >? n); [discriminate|]. destruct (m >? _); discriminate.
  - unfold gen_randkxor. destruct zs as [|k [|n [|m [|? ?]]]]; try discriminate.
    destruct (k >? n); [discriminate|]. destruct (m >? _); discriminate.
  - unfold gen_pitfall. destruct zs as [|v [|d [|ny [|nz [|k [|? ?]]]]]]; try discriminate.
    destruct ((d >=? v) || Z.odd (v * d)); [discriminate|]. destruct (nz <? 2); discriminate.
  - unfold gen_op. destruct zs as [|n [|? ?]]; try discriminate. destruct (n <? 0); discriminate.
  - unfold gen_php. destruct zs as [|a [|b [|c [|? ?]]]]; try discriminate. destruct (b <? c); discriminate.
Qed.

Theorem run_sub_no_crash planted sc args : In sc (table planted) -> run_sub sc args <> OCrash.
Proof.
  intros H. unfold run_sub. destruct (check_args _ _ args); [now apply (gen_no_crash_table planted)|discriminate].
Qed.

Lemma find_sub_in name t sc : find_sub name t = Some sc -> In sc t.
Proof.
  induction t as [|x t IH]; cbn; [discriminate|]. destruct (String.eqb (sc_name x) name).
  - intros E; inversion E; auto.
  - auto.
Qed.

Theorem run_cli_no_crash planted name args : run_cli (table planted) name args <> OCrash.
Proof.
  unfold run_cli. destruct (find_sub name (table planted)) eqn:E; [|discriminate].
  apply (run_sub_no_crash planted). eapply find_sub_in; eauto.
Qed.

(* what acceptance guarantees to the generators (guard => precondition) *)
Lemma check_args_types : forall tys rest args zs, check_args tys rest args = Some zs ->
  List.length zs = List.length args /\
  (forall i t, nth_error tys i = Some t -> exists z, nth_error zs i = Some z /\ argty_ok t z = true).
Proof.
  induction tys as [|t ts IH]; intros rest args zs H.
  - split.
    + revert zs H. induction args as [|[z|] more IHa]; intros zs H; cbn in H.
      * inversion H; reflexivity.
      * destruct rest as [ty|]; [|discriminate]. destruct (argty_ok ty z); [|discriminate].
        destruct (check_args [] (Some ty) more) eqn:E; [|discriminate]. inversion H; subst. cbn. f_equal. now apply IHa.
      * discriminate.
    + intros i t Hi. destruct i; discriminate.
  - destruct args as [|[z|] more]; cbn in H; try discriminate.
    destruct (argty_ok t z) eqn:Ez; [|discriminate].
    destruct (check_args ts rest more) eqn:E; [|discriminate]. inversion H; subst.
    destruct (IH rest more l E) as [L N]. split; [cbn; now f_equal|].
    intros i t' Hi. destruct i as [|i]; cbn in *.
    + inversion Hi; subst. exists z. auto.
    + now apply N.
Qed.

Theorem pitfall_accepted_precondition args :
  run_cli (table false) "pitfall" args = OFormula ->
  exists v d ny nz k, args = [Some v; Some d; Some ny; Some nz; Some k] /\
    1 <= d < v /\ Z.even (v * d) = true /\ 1 <= ny /\ 2 <= nz /\ 1 <= k /\ Z.even k = true.
Proof.
  unfold run_cli. cbn [find_sub table String.eqb sc_name]. cbn. unfold run_sub. cbn [sc_args sc_rest sc_gen].
  destruct args as [|[v|] [|[d|] [|[ny|] [|[nz|] [|[k|] [|? ?]]]]]]; cbn; try discriminate;
    repeat match goal with |- context [if ?b then _ else _] => destruct b eqn:? ; cbn; try discriminate end.
  intros _. exists v, d, ny, nz, k. split; [reflexivity|].
  rewrite <- Z.negb_odd. lia.
Qed.

(* the pinned tree does crash: `vdw 5 1 2` and `pitfall 4 3 2 1 2`, `pitfall 4 4 2 2 2` *)
Lemma as_found_vdw_crashes : run_cli (table_as_found false) "vdw" [Some 5; Some 1; Some 2] = OCrash.
Proof. vm_compute. reflexivity. Qed.
Lemma as_found_pitfall_crashes :
  run_cli (table_as_found false) "pitfall" [Some 4; Some 3; Some 2; Some 1; Some 2] = OCrash /\
  run_cli (table_as_found false) "pitfall" [Some 4; Some 4; Some 2; Some 2; Some 2] = OCrash.
Proof. vm_compute. split; reflexivity. Qed.

(* ---- -T splitting ---- *)
Lemma split_T_aux_join : forall argv cur,
  join_T (split_T_aux cur argv) = rev cur ++ argv.
Proof.
  induction argv as [|a more IH]; intros cur; cbn [split_T_aux].
  - cbn. now rewrite app_nil_r.
  - destruct (String.eqb a "-T") eqn:E.
    + apply String.eqb_eq in E. subst a. cbn [join_T]. f_equal.
      specialize (IH []). cbn [rev app] in IH.
      destruct (split_T_aux [] more) as [|c cs] eqn:E2.
      * destruct more; cbn in E2; [discriminate|]. destruct (String.eqb s "-T"); discriminate.
      * cbn [flat_map]. cbn [join_T] in IH. rewrite <- IH. reflexivity.
    + rewrite IH. cbn [rev]. now rewrite <- app_assoc.
Qed.

Theorem join_split_T argv : join_T (split_T argv) = argv.
Proof. unfold split_T. now rewrite split_T_aux_join. Qed.

Lemma split_T_aux_no_T : forall argv cur chunk, In chunk (split_T_aux cur argv) ->
  ~ In "-T"%string cur -> ~ In "-T"%string chunk.
Proof.
  induction argv as [|a more IH]; intros cur chunk H Hc; cbn [split_T_aux] in H.
  - destruct H as [<-|[]]. now rewrite <- in_rev.
  - destruct (String.eqb a "-T") eqn:E.
    + destruct H as [<-|H]; [now rewrite <- in_rev|]. apply (IH [] chunk H). intros [].
    + apply (IH (a :: cur) chunk H). intros [->|Hin]; [|contradiction].
      rewrite String.eqb_refl in E. discriminate.
Qed.
Theorem split_T_chunks_have_no_T argv chunk : In chunk (split_T argv) -> ~ In "-T"%string chunk.
Proof. intros H. apply (split_T_aux_no_T argv [] chunk H). intros []. Qed.
