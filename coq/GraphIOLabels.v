(* GraphIOLabels.v -- cnfgen's own step after the networkx gml/dot readers: (dot: turn the labels into integers
   when they all are integers,) sort the node labels, relabel 1..n, from_networkx.
   Current code: identity for every size (dot_labels_identity).  As found, decimal strings were sorted
   lexicographically: defect D9 (dot_labels_refuted, dot_labels_partial on the *_as_found functions). *)
From Coq Require Import ZArith List Bool Lia ZifyBool Ascii.
From Cnfgen Require Import GText GraphIO GTextFacts GraphIOFacts GraphIOMatrix GraphIODimacs.
Import ListNotations.
Open Scope Z_scope.

(* ---------- generic: relabelling and rebuilding ---------- *)
Lemma from_nx_identity {A} (ltb eqb : A -> A -> bool) (lab : Z -> A) G nodes :
  gio_wf G -> io_kind G <> GioBipartite -> Z.of_nat (length nodes) = io_n G ->
  (forall u, 1 <= u <= io_n G -> gio_index eqb (lab u) (gio_sort ltb nodes) 1 = Some u) ->
  gio_from_nx ltb eqb (io_kind G) (io_name G) nodes (map (fun e => (lab (fst e), lab (snd e))) (io_edges G)) = Some (GOk G).
Proof.
  intros (Hn & Hr & Hk & Hs & Hf) HK Hlen Hidx. specialize (Hk HK). unfold gio_from_nx.
  assert (Hrel : gio_relabel eqb (gio_sort ltb nodes) (map (fun e => (lab (fst e), lab (snd e))) (io_edges G)) = Some (io_edges G)).
  { clear Hs. induction (io_edges G) as [|[u v] t IH]; [reflexivity|]. inversion Hf as [|x y Hx Hy]; subst.
    cbn [map gio_relabel fst snd].
    assert (Hu : 1 <= u <= io_n G /\ 1 <= v <= io_n G).
    { unfold edge_stored_ok in Hx. cbn [fst snd] in Hx. destruct (io_kind G); [lia|lia|congruence]. }
    rewrite !Hidx by lia. rewrite (IH Hy). reflexivity. }
  rewrite Hrel, Hlen, new_ok by lia. cbn [gio_bind]. f_equal.
  rewrite add_edges_ok.
  - cbn [io_kind io_edges]. unfold gio_with_edges. cbn [io_kind io_name io_n io_r]. f_equal.
    replace (map (edge_norm (io_kind G)) (io_edges G)) with (io_edges G).
    + rewrite insert_all_self by exact Hs. destruct G; cbn in *; now subst.
    + symmetry. rewrite <- (map_id (io_edges G)) at 2. apply map_ext_in. intros e He. rewrite Forall_forall in Hf.
      now destruct (stored_norm G e (Hf e He)).
  - eapply Forall_impl; [|exact Hf]. intros e He. destruct (stored_norm G e He) as [_ Hok].
    unfold edge_ok in *. cbn [io_kind io_n io_r]. rewrite Hk in Hok. exact Hok.
Qed.

(* ---------- gml: integer ids sort numerically, every size ---------- *)
Lemma sort_zseq : forall len a, gio_sort Z.ltb (zseq a len) = zseq a len.
Proof.
  induction len as [|len IH]; intros a; [reflexivity|]. rewrite zseq_S. unfold gio_sort. cbn [fold_right].
  fold (gio_sort Z.ltb (zseq (a + 1) len)). rewrite IH. destruct len as [|len']; [reflexivity|].
  rewrite zseq_S. cbn [gio_sort_insert]. replace (a <? a + 1) with true by lia. reflexivity.
Qed.
Lemma index_zseq : forall len a u i, a <= u < a + Z.of_nat len -> gio_index Z.eqb u (zseq a len) i = Some (i + (u - a)).
Proof.
  induction len as [|len IH]; intros a u i H; [lia|]. rewrite zseq_S. cbn [gio_index].
  destruct (u =? a) eqn:E; [f_equal; lia|]. rewrite IH by lia. f_equal. lia.
Qed.

Theorem gml_labels_identity G : gio_wf G -> io_kind G <> GioBipartite -> gio_gml_roundtrip G = Some (GOk G).
Proof.
  intros Hwf HK. unfold gio_gml_roundtrip. destruct Hwf as (Hn & Hwf').
  assert (Hnodes : map (fun v => v - 1) (gt_range1 (io_n G)) = zseq 0 (Z.to_nat (io_n G))).
  { rewrite range1_zseq.
    replace (zseq 1 (Z.to_nat (io_n G))) with (map (fun j => j + 1) (zseq 0 (Z.to_nat (io_n G)))) by (symmetry; apply (zseq_shift 0 1)).
    rewrite map_map. rewrite <- (map_id (zseq 0 _)) at 2. apply map_ext. intros; lia. }
  rewrite Hnodes. apply (from_nx_identity Z.ltb Z.eqb (fun v => v - 1)); auto.
  - split; assumption.
  - unfold zseq. rewrite map_length, seq_length. lia.
  - intros u Hu. rewrite sort_zseq, index_zseq by lia. f_equal. lia.
Qed.

(* ---------- dot, current code: every label is an integer, sorted as numbers, every size ---------- *)
Lemma filter_all_true {A} (p : A -> bool) : forall l, (forall x, In x l -> p x = true) -> filter p l = l.
Proof.
  induction l as [|x t IH]; intros H; [reflexivity|]. cbn [filter]. rewrite (H x (or_introl eq_refl)). f_equal.
  apply IH. intros y Hy. apply H. now right.
Qed.
Lemma nodup_zseq : forall len a, gio_nodup_Z (zseq a len) = zseq a len.
Proof.
  induction len as [|len IH]; intros a; [reflexivity|]. rewrite zseq_S. cbn [gio_nodup_Z]. rewrite IH. f_equal.
  apply filter_all_true. intros y Hy. apply zseq_In in Hy. lia.
Qed.

Lemma combine_fst_snd {A B} (l : list (A * B)) : combine (map fst l) (map snd l) = l.
Proof. induction l as [|[a b] t IH]; [reflexivity|]. cbn [map combine fst snd]. now rewrite IH. Qed.

Theorem dot_labels_identity G : gio_wf G -> io_kind G <> GioBipartite -> gio_dot_roundtrip G = Some (GOk G).
Proof.
  intros Hwf HK. unfold gio_dot_roundtrip, gio_dot_normalize, gio_dot_nodes, gio_dot_edges. pose proof Hwf as (Hn & _).
  rewrite ints_print. rewrite !map_map. cbn [fst snd].
  rewrite <- (map_map fst gt_print_Z), <- (map_map snd gt_print_Z), !ints_print, combine_fst_snd.
  rewrite range1_zseq, nodup_zseq.
  rewrite <- (map_id (io_edges G)) at 1.
  replace (map (fun x => x) (io_edges G)) with (map (fun e => ((fun u : Z => u) (fst e), (fun u : Z => u) (snd e))) (io_edges G))
    by (apply map_ext; intros [a b]; reflexivity).
  apply (from_nx_identity Z.ltb Z.eqb (fun u => u)); auto.
  - unfold zseq. rewrite map_length, seq_length. lia.
  - intros u Hu. rewrite sort_zseq, index_zseq by lia. f_equal. lia.
Qed.

(* a label that is not an integer: nothing is relabelled, the current code and the code as found agree *)
Lemma dot_normalize_non_numeric k name nodes edges : gt_ints nodes = None ->
  gio_dot_normalize k name nodes edges = gio_dot_normalize_as_found k name nodes edges.
Proof. intros H. unfold gio_dot_normalize. now rewrite H. Qed.

(* ---------- dot as found (D9): decimal strings ---------- *)
Definition g12 : iograph := mkIOG GioSimple [] 12 0 [(2, 10)].

Lemma g12_wf : gio_wf g12.
Proof.
  unfold gio_wf, g12. cbn. split; [lia|]. split; [lia|]. split; [reflexivity|]. split.
  - constructor; [constructor|]. intros y [].
  - constructor; [cbn; lia|constructor].
Qed.

(* edge (2,10) of a 12-vertex graph comes back as (2,5) *)
Lemma dot_g12 : gio_dot_roundtrip_as_found g12 = Some (GOk (mkIOG GioSimple [] 12 0 [(2, 5)])).
Proof. vm_compute. reflexivity. Qed.

Theorem dot_labels_refuted : exists G, gio_wf G /\ io_kind G = GioSimple /\ gio_dot_roundtrip_as_found G <> Some (GOk G).
Proof. exists g12. split; [exact g12_wf|]. split; [reflexivity|]. rewrite dot_g12. discriminate. Qed.

Lemma dot_index_small n u : 0 <= n <= 9 -> 1 <= u <= n ->
  gio_index gt_str_eqb (gt_print_Z u) (gio_sort gt_str_ltb (gio_dot_nodes n)) 1 = Some u.
Proof.
  intros Hn Hu.
  assert (Cn : n = 0 \/ n = 1 \/ n = 2 \/ n = 3 \/ n = 4 \/ n = 5 \/ n = 6 \/ n = 7 \/ n = 8 \/ n = 9) by lia.
  assert (Cu : u = 1 \/ u = 2 \/ u = 3 \/ u = 4 \/ u = 5 \/ u = 6 \/ u = 7 \/ u = 8 \/ u = 9) by lia.
  repeat (destruct Cn as [->|Cn]); try subst n; repeat (destruct Cu as [->|Cu]); try subst u; try lia; vm_compute; reflexivity.
Qed.

(* up to nine vertices the labels are single digits and the dot round trip is the identity *)
Theorem dot_labels_partial G : gio_wf G -> io_kind G <> GioBipartite -> io_n G <= 9 -> gio_dot_roundtrip_as_found G = Some (GOk G).
Proof.
  intros Hwf HK H9. unfold gio_dot_roundtrip_as_found, gio_dot_normalize_as_found, gio_dot_edges. pose proof Hwf as (Hn & _).
  apply (from_nx_identity gt_str_ltb gt_str_eqb gt_print_Z); auto.
  - unfold gio_dot_nodes. rewrite map_length, range1_length. lia.
  - intros u Hu. apply dot_index_small; lia.
Qed.

(* the same 12-vertex graph under the current code *)
Lemma dot_g12_now : gio_dot_roundtrip g12 = Some (GOk g12).
Proof. vm_compute. reflexivity. Qed.
