(* Property C02 — graph-problem families are satisfiable exactly when the graph has the property.
   ONLY statements; every proof is `exact <lemma>`.  Draft: completed below as lemmas land. *)
From Coq Require Import ZArith List Bool.
From Cnfgen Require Import Sem Comb Linear IR IRFacts C02Common C02CommonFacts
  Fam_tseitin Fam_tseitin_Facts Fam_coloring Fam_coloring_Facts Fam_domset Fam_domset_Facts
  Fam_iso Fam_iso_Facts Fam_subgraph Fam_subgraph_Facts.
Import ListNotations.
Open Scope Z_scope.

Theorem C02_tseitin_T1 : forall a n E ch,
  irs_hold a (tseitin_ir n E ch) = true <->
  forall v, 1 <= v <= n -> parity_of a (incident E v) = tseitin_charge ch v.
Proof. exact tseitin_char. Qed.
Print Assumptions C02_tseitin_T1.
