(* Property C02 — graph-problem families are satisfiable exactly when the graph has the
   documented property.  ONLY statements; every proof is `exact <lemma>`.

   Reading guide.  A simple graph is (n, E): order and list of edges (u,v), u < v
   ([graph_wf n E = true] is what every cnfgen.Graph satisfies; most theorems need less, e.g.
   [edges_ok n E = true]: every edge lies in 1..n, or nothing at all).  A family is a function into
   the list of builder calls the Python generator makes (coq/Fam_*.v, [None] = ValueError);
   [irs_hold a l] is the arithmetic meaning of such a list.  C02_transfer moves every statement to
   the CNF clauses [to_cnf l] and to the pseudo-Boolean constraints [to_opb l] cnfgen produces
   (C02_families_ok gives its hypothesis).
   T1 = characterisation of the satisfying assignments, T2 = satisfiable iff the witness exists /
   bijection between models and witnesses, T3 = classical criterion. *)
From Coq Require Import ZArith List Bool.
From Cnfgen Require Import Sem Comb Linear IR IRFacts C02Common C02CommonFacts
  Fam_tseitin Fam_tseitin_Facts Fam_tseitin_Forest Fam_tseitin_Conv Fam_tseitin_Count Fam_tseitin_Labels
  Fam_coloring_Euler Fam_coloring Fam_coloring_Facts Fam_domset Fam_domset_Facts
  Fam_iso Fam_iso_Facts Fam_subgraph Fam_subgraph_Facts Fam_c02_Facts.
Import ListNotations.
Open Scope Z_scope.

(* ------------------------------------------------------------------ *)
(* transfer to the two renderings                                      *)
(* ------------------------------------------------------------------ *)
Theorem C02_transfer : forall a l, irs_ok l = true ->
  cnf_sat a (to_cnf l) = irs_hold a l /\ opb_sat a (to_opb l) = irs_hold a l.
Proof. exact c02_transfer. Qed.
Print Assumptions C02_transfer.

(* its hypothesis holds for every family *)
Theorem C02_families_ok :
  (forall n E ch, irs_ok (tseitin_ir n E ch) = true) /\
  (forall n E k fn l, edges_ok n E = true -> kcolor_ir n E k fn = Some l -> irs_ok l = true) /\
  (forall n E l, ec_ir n E = Some l -> irs_ok l = true) /\
  (forall n E d alt l, graph_wf n E = true -> domset_ir n E d alt = Some l -> irs_ok l = true) /\
  (forall n E, edges_ok n E = true -> irs_ok (tiling_ir n E) = true) /\
  (forall n1 E1 n2 E2, irs_ok (iso_ir n1 E1 n2 E2) = true) /\
  (forall n E, irs_ok (auto_ir n E) = true) /\
  (forall n1 E1 n2 E2, irs_ok (iso_nontrivial_ir n1 E1 n2 E2) = true) /\
  (forall N EG k EH ind sb, irs_ok (subgraph_ir N EG k EH ind sb) = true) /\
  (forall N E k sb l, kclique_ir N E k sb = Some l -> irs_ok l = true) /\
  (forall N E k sb l, kcliquebin_ir N E k sb = Some l -> irs_ok l = true) /\
  (forall N E k s sb l, ramlb_as_is N E k s sb = Some l -> irs_ok l = true) /\
  (forall N E k s sb l, 0 <= N -> ramlb_spec N E k s sb = Some l -> irs_ok l = true).
Proof. exact c02_families_ok. Qed.
Print Assumptions C02_families_ok.

(* ------------------------------------------------------------------ *)
(* Tseitin                                                             *)
(* ------------------------------------------------------------------ *)
(* T1: at every vertex the chosen incident edges have the parity of the charge
   (variable i = i-th edge; [incident E v] = identifiers of the edges at v) *)
Theorem C02_tseitin_T1 : forall a n E ch,
  irs_hold a (tseitin_ir n E ch) = true <->
  forall v, 1 <= v <= n -> parity_of a (incident E v) = tseitin_charge ch v.
Proof. exact tseitin_char. Qed.
Print Assumptions C02_tseitin_T1.

Theorem C02_tseitin_T1_cnf : forall a n E ch,
  cnf_sat a (to_cnf (tseitin_ir n E ch)) = true <->
  forall v, 1 <= v <= n -> Z.odd (count_true a (incident E v)) = tseitin_charge ch v.
Proof. exact tseitin_cnf_char. Qed.
Print Assumptions C02_tseitin_T1_cnf.

(* double counting, for an arbitrary assignment of the edge variables (reused for Pitfall) *)
Theorem C02_incidence_xor_zero : forall a n E (S : Z -> bool),
  edges_ok n E = true -> closed_under_edges S E ->
  xsum (fun v => S v && parity_of a (incident E v)) (rng n) = false.
Proof. exact incidence_xor_zero. Qed.
Print Assumptions C02_incidence_xor_zero.

(* T3 (one direction): a union S of connected components with odd total charge => unsatisfiable *)
Theorem C02_tseitin_unsat_of_odd_component : forall n E ch (S : Z -> bool) a,
  edges_ok n E = true -> closed_under_edges S E -> charge_parity ch S n = true ->
  irs_hold a (tseitin_ir n E ch) = false.
Proof. exact tseitin_unsat_of_odd_component. Qed.
Print Assumptions C02_tseitin_unsat_of_odd_component.

Theorem C02_tseitin_unsat_of_odd_total : forall n E ch a,
  edges_ok n E = true -> charge_parity ch (fun _ => true) n = true ->
  irs_hold a (tseitin_ir n E ch) = false.
Proof. exact tseitin_unsat_of_odd_total. Qed.
Print Assumptions C02_tseitin_unsat_of_odd_total.

Theorem C02_tseitin_cnf_unsat_of_odd_component : forall n E ch (S : Z -> bool) a,
  edges_ok n E = true -> closed_under_edges S E -> charge_parity ch S n = true ->
  cnf_sat a (to_cnf (tseitin_ir n E ch)) = false.
Proof. exact tseitin_cnf_unsat_of_odd_component. Qed.
Print Assumptions C02_tseitin_cnf_unsat_of_odd_component.

(* T3, the converse: if every union of connected components has even total charge the formula is
   satisfiable (Fam_tseitin.tseitin_sat_of_even_components_statement, spelled out) *)
Theorem C02_tseitin_sat_of_even_components : forall n E ch, graph_wf n E = true ->
  (forall S, closed_under_edges S E -> charge_parity ch S n = false) ->
  exists a, irs_hold a (tseitin_ir n E ch) = true.
Proof. exact tseitin_sat_of_even_components. Qed.
Print Assumptions C02_tseitin_sat_of_even_components.

(* T3, both directions *)
Theorem C02_tseitin_sat_iff : forall n E ch, edges_ok n E = true ->
  ((exists a, irs_hold a (tseitin_ir n E ch) = true) <->
   forall S, closed_under_edges S E -> charge_parity ch S n = false).
Proof. exact tseitin_sat_iff. Qed.
Print Assumptions C02_tseitin_sat_iff.

(* connectivity is decided by a union-find over the edge list (Fam_tseitin_Forest.uf): two vertices get
   the same representative iff no union of components separates them *)
Theorem C02_connected_spec : forall E u w,
  connected E u w = true <-> forall S, closed_under_edges S E -> S u = S w.
Proof. exact connected_spec. Qed.
Print Assumptions C02_connected_spec.

(* T3 with the components enumerated: "the charges of every connected component sum to even",
   and the same as an executable test *)
Theorem C02_tseitin_sat_iff_components : forall n E ch, edges_ok n E = true ->
  ((exists a, irs_hold a (tseitin_ir n E ch) = true) <->
   forall x, 1 <= x <= n -> charge_parity ch (fun v => connected E v x) n = false).
Proof. exact tseitin_sat_iff_components. Qed.
Print Assumptions C02_tseitin_sat_iff_components.
Theorem C02_tseitin_sat_decide : forall n E ch, edges_ok n E = true ->
  ((exists a, irs_hold a (tseitin_ir n E ch) = true) <-> tseitin_components_even n E ch = true).
Proof. exact tseitin_sat_decide. Qed.
Print Assumptions C02_tseitin_sat_decide.

(* MODEL COUNT as a bijection.  [free_edges E] are the identifiers of the edges outside a spanning forest
   (those that close a cycle when the edges are inserted one by one); there are |E| - |V| + c of them,
   c = number of connected components ([uf_components]: the vertices that represent their class).  For a
   satisfiable formula every choice of values on the free edges extends to a model, and two models that
   agree on the free edges agree on all the variables: models <-> boolean vectors of length |E|-|V|+c. *)
Theorem C02_tseitin_models_bijection : forall n E ch, 0 <= n -> edges_ok n E = true ->
  (exists a, irs_hold a (tseitin_ir n E ch) = true) ->
  (forall g : Z -> bool, exists a, irs_hold a (tseitin_ir n E ch) = true /\ forall i, In i (free_edges E) -> a i = g i) /\
  (forall a b, irs_hold a (tseitin_ir n E ch) = true -> irs_hold b (tseitin_ir n E ch) = true ->
     (forall i, In i (free_edges E) -> a i = b i) -> forall i, 1 <= i <= tseitin_numvar E -> a i = b i) /\
  NoDup (free_edges E) /\ (forall i, In i (free_edges E) -> 1 <= i <= tseitin_numvar E) /\
  len (free_edges E) = len E - n + uf_components n E.
Proof. exact tseitin_models_bijection. Qed.
Print Assumptions C02_tseitin_models_bijection.

(* ... and the number of models found by brute force over the 2^|E| assignments, for EVERY graph *)
Theorem C02_tseitin_model_count : forall n E ch, 0 <= n -> edges_ok n E = true ->
  (exists a, irs_hold a (tseitin_ir n E ch) = true) ->
  count_models (tseitin_numvar E) (tseitin_ir n E ch) = 2 ^ (len E - n + uf_components n E).
Proof. exact tseitin_model_count_uf. Qed.
Print Assumptions C02_tseitin_model_count.

(* the component count by label propagation (Fam_tseitin.num_components, n rounds of "both ends of every
   edge take the smaller label") is the same number, so the count holds exactly as it was first stated
   (Fam_tseitin.tseitin_model_count_statement, spelled out) *)
Theorem C02_num_components_uf : forall n E, 0 <= n -> edges_ok n E = true -> num_components n E = uf_components n E.
Proof. exact num_components_uf. Qed.
Print Assumptions C02_num_components_uf.
Theorem C02_tseitin_model_count_statement : forall n E ch, graph_wf n E = true ->
  (exists a, irs_hold a (tseitin_ir n E ch) = true) ->
  count_models (tseitin_numvar E) (tseitin_ir n E ch) = 2 ^ (len E - n + num_components n E).
Proof. exact tseitin_model_count. Qed.
Print Assumptions C02_tseitin_model_count_statement.

(* the next example only shows the statements are about the right numbers *)
Example C02_tseitin_count_examples :
  (* triangle, charges (1,1,0): 2^(3-3+1) models; default charge: none *)
  count_models 3 (tseitin_ir 3 [(1,2);(1,3);(2,3)] (Some [true; true; false])) = 2 ^ (3 - 3 + num_components 3 [(1,2);(1,3);(2,3)]) /\
  count_models 3 (tseitin_ir 3 [(1,2);(1,3);(2,3)] None) = 0 /\
  (* two components + an isolated vertex, even charges: 2^(4-6+3) *)
  num_components 6 [(1,2);(1,3);(2,3);(4,5)] = 3 /\
  count_models 4 (tseitin_ir 6 [(1,2);(1,3);(2,3);(4,5)] (Some [false; true; true; true; true])) = 2 /\
  (* the same graph through the union-find: 3 classes, edge 1 = (1,2) closes the triangle (the head of the list is
     inserted last), the charges are even on every component; the default charge on a triangle is not *)
  uf_components 6 [(1,2);(1,3);(2,3);(4,5)] = 3 /\ free_edges [(1,2);(1,3);(2,3);(4,5)] = [1] /\
  connected [(1,2);(1,3);(2,3);(4,5)] 2 3 = true /\ connected [(1,2);(1,3);(2,3);(4,5)] 3 4 = false /\
  tseitin_components_even 6 [(1,2);(1,3);(2,3);(4,5)] (Some [false; true; true; true; true]) = true /\
  tseitin_components_even 3 [(1,2);(1,3);(2,3)] None = false.
Proof. vm_compute. repeat split. Qed.

(* ------------------------------------------------------------------ *)
(* k-colouring, even colouring                                         *)
(* ------------------------------------------------------------------ *)
(* T1: x_{v,c} = variable (v-1)*k+c; every vertex has a colour (at most one when functional),
   no edge is monochromatic *)
Theorem C02_kcolor_T1 : forall a n E k fn l, edges_ok n E = true -> kcolor_ir n E k fn = Some l ->
  (irs_hold a l = true <->
   rel_total (rel_of a 0 k) n k /\ (fn = true -> rel_functional (rel_of a 0 k) n k) /\ rel_proper (rel_of a 0 k) E k).
Proof. exact kcolor_rel. Qed.
Print Assumptions C02_kcolor_T1.

Theorem C02_kcolor_functional_T1 : forall a n E k l, edges_ok n E = true -> kcolor_ir n E k true = Some l ->
  (irs_hold a l = true <-> exists phi, graph_of (rel_of a 0 k) phi n k /\ proper_coloring n E k phi).
Proof. exact kcolor_functional_char. Qed.
Print Assumptions C02_kcolor_functional_T1.

(* T2: satisfiable iff the graph is k-colourable, for both values of the flag *)
Theorem C02_kcolor_T2 : forall n E k fn l, edges_ok n E = true -> kcolor_ir n E k fn = Some l ->
  ((exists a, irs_hold a l = true) <-> exists phi, proper_coloring n E k phi).
Proof. exact kcolor_sat_iff. Qed.
Print Assumptions C02_kcolor_T2.

(* model count (functional): decoding and encoding are mutually inverse between models and colourings *)
Theorem C02_kcolor_bijection : forall n E k l, 0 <= n -> edges_ok n E = true -> kcolor_ir n E k true = Some l ->
  (forall a, irs_hold a l = true -> proper_coloring n E k (dec_map a 0 k)) /\
  (forall phi, proper_coloring n E k phi -> irs_hold (enc_map 0 k phi) l = true) /\
  (forall phi, proper_coloring n E k phi -> forall v, 1 <= v <= n -> dec_map (enc_map 0 k phi) 0 k v = phi v) /\
  (forall a, irs_hold a l = true -> forall x, 1 <= x <= kcolor_numvar n k -> enc_map 0 k (dec_map a 0 k) x = a x).
Proof. exact kcolor_bijection. Qed.
Print Assumptions C02_kcolor_bijection.

(* even colouring: defined iff all degrees are even; T1: half of the edges at every vertex *)
Theorem C02_ec_defined : forall n E,
  (exists l, ec_ir n E = Some l) <-> forall v, 1 <= v <= n -> Z.even (degree E v) = true.
Proof. exact ec_defined_iff. Qed.
Print Assumptions C02_ec_defined.
Theorem C02_ec_T1 : forall a n E l, ec_ir n E = Some l ->
  (irs_hold a l = true <-> forall v, 1 <= v <= n -> 2 * count_true a (incident E v) = degree E v).
Proof. exact ec_char. Qed.
Print Assumptions C02_ec_T1.

(* T3, the documented direction ("satisfiable only on graphs with an even number of edges in each
   connected component"): a union S of components with an odd number of edges => unsatisfiable. *)
Theorem C02_ec_unsat_of_odd_component : forall a n E (S : Z -> bool) l,
  edges_ok n E = true -> closed_under_edges S E -> ec_ir n E = Some l ->
  Z.odd (len (filter (fun e => S (fst e)) E)) = true -> irs_hold a l = false.
Proof. exact ec_unsat_of_odd_component. Qed.
Print Assumptions C02_ec_unsat_of_odd_component.

(* T3, the converse (Fam_coloring.ec_sat_of_even_components_statement, spelled out): all degrees even and an
   even number of edges in every union of components => satisfiable (closed trails, coloured alternately) *)
Theorem C02_ec_sat_of_even_components : forall n E l, graph_wf n E = true -> ec_ir n E = Some l ->
  (forall S, closed_under_edges S E -> Z.even (len (filter (fun e => S (fst e)) E)) = true) ->
  exists a, irs_hold a l = true.
Proof. exact ec_sat_of_even_components. Qed.
Print Assumptions C02_ec_sat_of_even_components.
Theorem C02_ec_sat_iff : forall n E l, graph_wf n E = true -> ec_ir n E = Some l ->
  ((exists a, irs_hold a l = true) <->
   forall S, closed_under_edges S E -> Z.even (len (filter (fun e => S (fst e)) E)) = true).
Proof. exact ec_sat_iff. Qed.
Print Assumptions C02_ec_sat_iff.

(* ------------------------------------------------------------------ *)
(* dominating set (both encodings), tiling                             *)
(* ------------------------------------------------------------------ *)
Theorem C02_domset_T1 : forall a n E d alt l, graph_wf n E = true -> domset_ir n E d alt = Some l ->
  (irs_hold a l = true <->
   (if alt then dom_alt_inj a n d /\ dom_alt_fun a n d
    else rel_injective (rel_of a n d) n d /\ rel_nondecreasing (rel_of a n d) n d /\ dom_link a n d) /\
   dom_active a n d /\ dom_cover a n E).
Proof. exact domset_char. Qed.
Print Assumptions C02_domset_T1.

(* T3: satisfiable iff a dominating set of size at most d exists *)
Theorem C02_domset_sat_iff : forall n E d alt l, graph_wf n E = true -> domset_ir n E d alt = Some l ->
  ((exists a, irs_hold a l = true) <-> exists S, dominating_set n E d S).
Proof. exact domset_sat_iff. Qed.
Print Assumptions C02_domset_sat_iff.

(* tiling: variable v = vertex v; exactly one chosen vertex in every closed neighbourhood
   (the variables are the witness itself) *)
Theorem C02_tiling_T1 : forall a n E,
  irs_hold a (tiling_ir n E) = true <-> forall v, 1 <= v <= n -> count_true a (closed_nbhd E v) = 1.
Proof. exact tiling_char. Qed.
Print Assumptions C02_tiling_T1.
Theorem C02_closed_nbhd : forall E u v, In u (closed_nbhd E v) <-> dominates E u v = true.
Proof. exact In_closed_nbhd. Qed.
Print Assumptions C02_closed_nbhd.

(* ------------------------------------------------------------------ *)
(* isomorphism, automorphism                                           *)
(* ------------------------------------------------------------------ *)
Theorem C02_iso_T1 : forall a n1 E1 n2 E2,
  irs_hold a (iso_ir n1 E1 n2 E2) = true <->
  exists phi, graph_of (rel_of a 0 n2) phi n1 n2 /\ isomorphism n1 E1 n2 E2 phi.
Proof. exact iso_char. Qed.
Print Assumptions C02_iso_T1.

Theorem C02_iso_T2 : forall n1 E1 n2 E2,
  (exists a, irs_hold a (iso_ir n1 E1 n2 E2) = true) <-> exists phi, isomorphism n1 E1 n2 E2 phi.
Proof. exact iso_sat_iff. Qed.
Print Assumptions C02_iso_T2.

(* number of models = number of isomorphisms, as a bijection *)
Theorem C02_iso_bijection : forall n1 E1 n2 E2, 0 <= n1 ->
  (forall a, irs_hold a (iso_ir n1 E1 n2 E2) = true -> isomorphism n1 E1 n2 E2 (dec_map a 0 n2)) /\
  (forall phi, isomorphism n1 E1 n2 E2 phi -> irs_hold (enc_map 0 n2 phi) (iso_ir n1 E1 n2 E2) = true) /\
  (forall phi, isomorphism n1 E1 n2 E2 phi -> forall u, 1 <= u <= n1 -> dec_map (enc_map 0 n2 phi) 0 n2 u = phi u) /\
  (forall a, irs_hold a (iso_ir n1 E1 n2 E2) = true ->
     forall v, 1 <= v <= iso_numvar n1 n2 -> enc_map 0 n2 (dec_map a 0 n2) v = a v).
Proof. exact iso_bijection. Qed.
Print Assumptions C02_iso_bijection.

Theorem C02_auto_T1 : forall a n E,
  irs_hold a (auto_ir n E) = true <->
  exists phi, graph_of (rel_of a 0 n) phi n n /\ isomorphism n E n E phi /\ exists u, 1 <= u <= n /\ phi u <> u.
Proof. exact auto_char. Qed.
Print Assumptions C02_auto_T1.
Theorem C02_auto_T2 : forall n E,
  (exists a, irs_hold a (auto_ir n E) = true) <->
  exists phi, isomorphism n E n E phi /\ exists u, 1 <= u <= n /\ phi u <> u.
Proof. exact auto_sat_iff. Qed.
Print Assumptions C02_auto_T2.

(* GraphIsomorphism(..., nontrivial=True): the code never reads the flag, so its formula is [iso_ir]
   and the documented meaning fails (refuted on one vertex); the documented variant carries the theorem *)
Theorem C02_iso_nontrivial_refuted :
  irs_hold (fun v => v =? 1) (iso_ir 1 [] 1 []) = true /\
  ~ (exists phi, isomorphism 1 [] 1 [] phi /\ exists u, 1 <= u <= Z.min 1 1 /\ phi u <> u).
Proof. exact iso_nontrivial_ignored_witness. Qed.
Print Assumptions C02_iso_nontrivial_refuted.
Theorem C02_iso_nontrivial_spec_T2 : forall n1 E1 n2 E2,
  (exists a, irs_hold a (iso_nontrivial_ir n1 E1 n2 E2) = true) <->
  exists phi, isomorphism n1 E1 n2 E2 phi /\ exists u, 1 <= u <= Z.min n1 n2 /\ phi u <> u.
Proof. exact iso_nontrivial_sat_iff. Qed.
Print Assumptions C02_iso_nontrivial_spec_T2.

(* ------------------------------------------------------------------ *)
(* subgraph, k-clique (unary and binary)                               *)
(* ------------------------------------------------------------------ *)
Theorem C02_subgraph_T1 : forall a N EG k EH ind sb,
  irs_hold a (subgraph_ir N EG k EH ind sb) = true <->
  exists phi, graph_of (rel_of a 0 N) phi k N /\ embedding N EG k EH ind phi /\ (sb = true -> increasing k phi).
Proof. exact subgraph_char. Qed.
Print Assumptions C02_subgraph_T1.
Theorem C02_subgraph_T2 : forall N EG k EH ind sb,
  (exists a, irs_hold a (subgraph_ir N EG k EH ind sb) = true) <->
  exists phi, embedding N EG k EH ind phi /\ (sb = true -> increasing k phi).
Proof. exact subgraph_sat_iff. Qed.
Print Assumptions C02_subgraph_T2.

(* model count: models <-> embeddings (increasing ones when symbreak) *)
Theorem C02_subgraph_bijection : forall N EG k EH ind sb, 0 <= k ->
  let P := fun phi => embedding N EG k EH ind phi /\ (sb = true -> increasing k phi) in
  let F := subgraph_ir N EG k EH ind sb in
  (forall a, irs_hold a F = true -> P (dec_map a 0 N)) /\
  (forall phi, P phi -> irs_hold (enc_map 0 N phi) F = true) /\
  (forall phi, P phi -> forall i, 1 <= i <= k -> dec_map (enc_map 0 N phi) 0 N i = phi i) /\
  (forall a, irs_hold a F = true -> forall v, 0 < v <= 0 + k * N -> enc_map 0 N (dec_map a 0 N) v = a v).
Proof. exact subgraph_bijection. Qed.
Print Assumptions C02_subgraph_bijection.

Theorem C02_kclique_T1 : forall a N E k sb l, kclique_ir N E k sb = Some l ->
  (irs_hold a l = true <->
   exists phi, graph_of (rel_of a 0 N) phi k N /\ homogeneous N E k true phi /\ (sb = true -> increasing k phi)).
Proof. exact kclique_char. Qed.
Print Assumptions C02_kclique_T1.
(* T2, with and without symmetry breaking: satisfiable iff G has a k-clique *)
Theorem C02_kclique_T2 : forall N E k sb l, kclique_ir N E k sb = Some l ->
  ((exists a, irs_hold a l = true) <-> exists S, homogeneous_set N E k true S).
Proof. exact kclique_sat_iff. Qed.
Print Assumptions C02_kclique_T2.

(* model count: models <-> ordered k-cliques (k-cliques listed increasingly when symbreak) *)
Theorem C02_kclique_bijection : forall N E k sb l, kclique_ir N E k sb = Some l ->
  let P := fun phi => homogeneous N E k true phi /\ (sb = true -> increasing k phi) in
  (forall a, irs_hold a l = true -> P (dec_map a 0 N)) /\
  (forall phi, P phi -> irs_hold (enc_map 0 N phi) l = true) /\
  (forall phi, P phi -> forall i, 1 <= i <= k -> dec_map (enc_map 0 N phi) 0 N i = phi i) /\
  (forall a, irs_hold a l = true -> forall v, 0 < v <= 0 + k * N -> enc_map 0 N (dec_map a 0 N) v = a v).
Proof. exact kclique_bijection. Qed.
Print Assumptions C02_kclique_bijection.

(* binary encoding: [bin_vertex a N i] = 1 + the number written by the bits of member i *)
Theorem C02_kcliquebin_T1 : forall a N E k sb l, kcliquebin_ir N E k sb = Some l ->
  (irs_hold a l = true <->
   homogeneous N E k true (bin_vertex a N) /\ (sb = true -> increasing k (bin_vertex a N))).
Proof. exact kcliquebin_char. Qed.
Print Assumptions C02_kcliquebin_T1.
Theorem C02_kcliquebin_T2 : forall N E k sb l, kcliquebin_ir N E k sb = Some l ->
  ((exists a, irs_hold a l = true) <-> exists S, homogeneous_set N E k true S).
Proof. exact kcliquebin_sat_iff. Qed.
Print Assumptions C02_kcliquebin_T2.

(* ------------------------------------------------------------------ *)
(* Ramsey witness                                                      *)
(* ------------------------------------------------------------------ *)
(* the code as it is: s does not occur on the right-hand side *)
Theorem C02_ramlb_as_is_T1 : forall a N E k s sb l, ramlb_as_is N E k s sb = Some l ->
  (irs_hold a l = true <->
   exists phi, graph_of (rel_of a 1 N) phi k N /\ homogeneous N E k (a 1) phi /\ (sb = true -> increasing k phi)).
Proof. exact ramlb_as_is_char. Qed.
Print Assumptions C02_ramlb_as_is_T1.
Theorem C02_ramlb_as_is_T2 : forall N E k s sb l, ramlb_as_is N E k s sb = Some l ->
  ((exists a, irs_hold a l = true) <->
   (exists S, homogeneous_set N E k true S) \/ (exists S, homogeneous_set N E k false S)).
Proof. exact ramlb_as_is_sat_iff. Qed.
Print Assumptions C02_ramlb_as_is_T2.

(* the documented statement fails for the code as it is (D15) ... *)
Theorem C02_ramlb_refuted : exists N E k s sb l,
  ramlb_as_is N E k s sb = Some l /\ (exists a, irs_hold a l = true) /\
  ~ ((exists S, homogeneous_set N E k true S) \/ (exists S, homogeneous_set N E s false S)).
Proof. exact ramlb_refuted. Qed.
Print Assumptions C02_ramlb_refuted.
(* ... and holds exactly under k = s *)
Theorem C02_ramlb_partial : forall N E k s sb l, k = s -> ramlb_as_is N E k s sb = Some l ->
  ((exists a, irs_hold a l = true) <->
   (exists S, homogeneous_set N E k true S) \/ (exists S, homogeneous_set N E s false S)).
Proof. exact ramlb_partial. Qed.
Print Assumptions C02_ramlb_partial.

(* the documented behaviour (model variant ramlb_spec) carries the full theorem *)
Theorem C02_ramlb_spec_T1 : forall a N E k s sb l, 0 <= N -> ramlb_spec N E k s sb = Some l -> irs_hold a l = true ->
  (a 1 = true -> exists phi, graph_of (rel_of a 1 N) phi k N /\ homogeneous N E k true phi /\ (sb = true -> increasing k phi)) /\
  (a 1 = false -> exists psi, graph_of (rel_of a (1 + k * N) N) psi s N /\ homogeneous N E s false psi /\ (sb = true -> increasing s psi)).
Proof. exact ramlb_spec_witness. Qed.
Print Assumptions C02_ramlb_spec_T1.
Theorem C02_ramlb_spec_T2 : forall N E k s sb l, 0 <= N -> ramlb_spec N E k s sb = Some l ->
  ((exists a, irs_hold a l = true) <->
   (exists S, homogeneous_set N E k true S) \/ (exists S, homogeneous_set N E s false S)).
Proof. exact ramlb_spec_sat_iff. Qed.
Print Assumptions C02_ramlb_spec_T2.

(* ------------------------------------------------------------------ *)
(* non-vacuity: the hypotheses are met by ordinary graphs, and the formulas are the expected ones *)
(* ------------------------------------------------------------------ *)
Example C02_nonvacuous :
  let C4 := [(1,2);(1,4);(2,3);(3,4)] in
  graph_wf 4 C4 = true /\ edges_ok 4 C4 = true /\
  to_cnf (tseitin_ir 3 [(1,2);(2,3)] None) = [[1]; [1; -2]; [-1; 2]; [-2]] /\
  opt_hold (enc_map 0 2 (fun v => if Z.odd v then 1 else 2)) (kcolor_ir 4 C4 2 true) = true /\
  opt_hold (fun v => (v =? 1) || (v =? 4)) (ec_ir 4 C4) = true /\
  ec_ir 3 [(1,2)] = None /\
  opt_hold (domset_assignment 4 2 [1; 3]) (domset_ir 4 C4 2 false) = true /\
  opt_hold (domset_assignment 4 2 [1; 3]) (domset_ir 4 C4 2 true) = true /\
  domset_ir 4 C4 0 false = None /\
  unique_nbhds 4 [(1,2);(3,4)] = [[1; 2]; [3; 4]] /\
  irs_hold (enc_map 0 4 (fun v => v mod 4 + 1)) (iso_ir 4 C4 4 C4) = true /\
  irs_hold (enc_map 0 4 (fun v => v mod 4 + 1)) (auto_ir 4 C4) = true /\
  opt_hold (enc_map 0 4 (fun v => v)) (kclique_ir 4 C4 2 true) = true /\
  opt_hold (enc_bits 2 (fun v => v)) (kcliquebin_ir 4 C4 2 true) = true /\
  kcliquebin_ir 4 C4 0 true = None /\
  (* a path on 3 vertices has neither a triangle nor three pairwise non-adjacent vertices: no assignment of the 10 variables *)
  forallb (fun bs => negb (opt_hold (assignment_of bs) (ramlb_as_is 3 [(1,2);(2,3)] 3 3 true))) (bool_vectors 10) = true /\
  (* ... but two non-adjacent ones: the documented ramlb 3 2 is satisfied by C = false and the set {1,3} *)
  opt_hold (fun v => if v <=? 13 then false else enc_map 13 4 (fun i => 2 * i - 1) v) (ramlb_spec 4 C4 3 2 true) = true.
Proof. vm_compute. repeat split. Qed.
