(* FamRange_Util.v — the literal-range half of C10, per family: shared lemmas.
   [lits_bounded n l]: every literal handed to a builder call of [l] is a variable of
   1..n or its negation.  [bounded_to_cnf] transfers it to the CNF rendering (through
   IRRange.ir_cnf_from: the rendering of a builder call uses only the literals of the
   call, possibly negated).  [cnf_bounded] is the same notion for a clause list.
   Lemmas only; the statements are in Prop_C10_families.v. *)
From Coq Require Import ZArith List Bool Lia ZifyBool.
From Cnfgen Require Import Sem Comb Linear SemFacts LinearFacts IR IRFacts IRRange.
Import ListNotations.
Open Scope Z_scope.

Definition lit_bounded (n x : Z) : Prop := 1 <= Z.abs x <= n.
Definition lits_bounded (n : Z) (l : list ir) : Prop :=
  forall i x, In i l -> In x (ir_lits i) -> 1 <= Z.abs x <= n.
Definition cnf_bounded (n : Z) (F : cnf) : Prop :=
  forall c x, In c F -> In x c -> 1 <= Z.abs x <= n.

(* ---- transfer to the renderings ---- *)
Theorem cnf_bounded_in_range n F : cnf_bounded n F -> lits_in_range n F = true.
Proof.
  intros H. unfold lits_in_range. apply forallb_forall. intros c Hc. apply forallb_forall. intros x Hx.
  specialize (H c x Hc Hx). apply andb_true_iff. split; [apply nonzero_spec; lia|lia].
Qed.

Theorem bounded_to_cnf n l : lits_bounded n l -> lits_in_range n (to_cnf l) = true.
Proof.
  intros H. apply cnf_bounded_in_range. intros c x Hc Hx.
  unfold to_cnf in Hc. apply in_flat_map in Hc as [i [Hi Hc]].
  destruct (ir_cnf_from i c Hc x Hx) as [E|E]; specialize (H i _ Hi E); lia.
Qed.

(* the boolean certificate of IR.v follows too *)
Lemma bounded_ok n l : lits_bounded n l -> irs_ok l = true.
Proof.
  intros H. unfold irs_ok. apply forallb_forall. intros i Hi. unfold ir_ok, lits_ok. apply forallb_forall.
  intros x Hx. specialize (H i x Hi Hx). apply nonzero_spec. lia.
Qed.

(* ---- structure ---- *)
Lemma lits_bounded_nil n : lits_bounded n []. Proof. intros i x []. Qed.
Lemma lits_bounded_app n l1 l2 : lits_bounded n l1 -> lits_bounded n l2 -> lits_bounded n (l1 ++ l2).
Proof. intros H1 H2 i x Hi. apply in_app_or in Hi as [Hi|Hi]; eauto. Qed.
Lemma lits_bounded_cons n i l :
  (forall x, In x (ir_lits i) -> 1 <= Z.abs x <= n) -> lits_bounded n l -> lits_bounded n (i :: l).
Proof. intros H1 H2 j x [<-|Hj]; eauto. Qed.
Lemma lits_bounded_map {A} n (f : A -> ir) l :
  (forall y x, In y l -> In x (ir_lits (f y)) -> 1 <= Z.abs x <= n) -> lits_bounded n (map f l).
Proof. intros H i x Hi Hx. apply in_map_iff in Hi as [y [<- Hy]]. eauto. Qed.
Lemma lits_bounded_flat_map {A} n (f : A -> list ir) l :
  (forall y, In y l -> lits_bounded n (f y)) -> lits_bounded n (flat_map f l).
Proof. intros H i x Hi Hx. apply in_flat_map in Hi as [y [Hy Hi]]. exact (H y Hy i x Hi Hx). Qed.
Lemma lits_bounded_if n (b : bool) l : lits_bounded n l -> lits_bounded n (if b then l else []).
Proof. destruct b; [auto|intros _; apply lits_bounded_nil]. Qed.
Lemma lits_bounded_if2 n (b : bool) l1 l2 : lits_bounded n l1 -> lits_bounded n l2 -> lits_bounded n (if b then l1 else l2).
Proof. destruct b; auto. Qed.
Lemma lits_bounded_mono n n' l : n <= n' -> lits_bounded n l -> lits_bounded n' l.
Proof. intros Hn H i x Hi Hx. specialize (H i x Hi Hx). lia. Qed.

Lemma cnf_bounded_nil n : cnf_bounded n []. Proof. intros c x []. Qed.
Lemma cnf_bounded_app n F G : cnf_bounded n F -> cnf_bounded n G -> cnf_bounded n (F ++ G).
Proof. intros H1 H2 c x Hc. apply in_app_or in Hc as [Hc|Hc]; eauto. Qed.
Lemma cnf_bounded_cons n c F : (forall x, In x c -> 1 <= Z.abs x <= n) -> cnf_bounded n F -> cnf_bounded n (c :: F).
Proof. intros H1 H2 d x [<-|Hd]; eauto. Qed.
Lemma cnf_bounded_map {A} n (f : A -> list Z) l :
  (forall y x, In y l -> In x (f y) -> 1 <= Z.abs x <= n) -> cnf_bounded n (map f l).
Proof. intros H c x Hc Hx. apply in_map_iff in Hc as [y [<- Hy]]. eauto. Qed.
Lemma cnf_bounded_flat_map {A} n (f : A -> cnf) l :
  (forall y, In y l -> cnf_bounded n (f y)) -> cnf_bounded n (flat_map f l).
Proof. intros H c x Hc Hx. apply in_flat_map in Hc as [y [Hy Hc]]. exact (H y Hy c x Hc Hx). Qed.
Lemma cnf_bounded_if n (b : bool) F : cnf_bounded n F -> cnf_bounded n (if b then F else []).
Proof. destruct b; [auto|intros _; apply cnf_bounded_nil]. Qed.
Lemma cnf_bounded_mono n n' F : n <= n' -> cnf_bounded n F -> cnf_bounded n' F.
Proof. intros Hn H c x Hc Hx. specialize (H c x Hc Hx). lia. Qed.

(* a clause list seen as builder calls *)
Lemma lits_bounded_clauses n (F : cnf) : cnf_bounded n F -> lits_bounded n (map IClause F).
Proof. intros H. apply lits_bounded_map. intros c x Hc Hx. cbn [ir_lits] in Hx. eauto. Qed.

(* literal lists *)
Lemma abs_opp_bounded n x : 1 <= Z.abs x <= n -> 1 <= Z.abs (- x) <= n.
Proof. lia. Qed.
Lemma in_cons_bounded n (a : Z) t x :
  1 <= Z.abs a <= n -> (In x t -> 1 <= Z.abs x <= n) -> In x (a :: t) -> 1 <= Z.abs x <= n.
Proof. intros Ha Ht [<-|H]; auto. Qed.
