(* Fam_tseitin.v — model of cnfgen/families/tseitin.py : TseitinFormula(G, charges).
   Variables: new_graph_edges(G) (edge number i of the sorted edge list has
   identifier i).  One add_parity call per vertex v = 1..n, on the identifiers of the
   edges at v in the order of G.neighbors(v), with the charge of v.
   charges = None  -> odd charge on vertex 1 only; a charge list shorter than n is
   padded with even charges, a longer one is cut (zip): both are what
   [nth (v-1) charges false] does.  Abstracted: description, bool() cast of charges.
   Definitions only. *)
From Coq Require Import ZArith List Bool.
From Cnfgen Require Import Sem Comb Linear IR C02Common.
Import ListNotations.
Open Scope Z_scope.

Definition tseitin_charge (ch : option (list bool)) (v : Z) : bool :=
  match ch with
  | None => v =? 1
  | Some c => nth (Z.to_nat (v - 1)) c false
  end.

Definition tseitin_ir (n : Z) (E : list (Z * Z)) (ch : option (list bool)) : list ir :=
  map (fun v => IParity (incident E v) (b2z (tseitin_charge ch v))) (rng n).
Definition tseitin_numvar (E : list (Z * Z)) : Z := len E.

(* total charge of the vertices selected by S, modulo 2 *)
Definition charge_parity (ch : option (list bool)) (S : Z -> bool) (n : Z) : bool :=
  fold_right xorb false (map (fun v => S v && tseitin_charge ch v) (rng n)).

(* ---------- executable notions used only in the full statements below and in examples ---------- *)
(* connected components by label propagation: every vertex starts with its own number, one round
   gives both ends of every edge the smaller label; n rounds suffice; a component is counted at the
   vertex that keeps its own number *)
Fixpoint set_nth (l : list Z) (i : nat) (x : Z) : list Z :=
  match l, i with
  | [], _ => []
  | _ :: t, O => x :: t
  | y :: t, S j => y :: set_nth t j x
  end.
Definition relax_edge (lab : list Z) (e : Z * Z) : list Z :=
  let iu := Z.to_nat (fst e - 1) in
  let iw := Z.to_nat (snd e - 1) in
  let m := Z.min (nth iu lab 0) (nth iw lab 0) in
  set_nth (set_nth lab iu m) iw m.
Fixpoint relax_rounds (fuel : nat) (E : list (Z * Z)) (lab : list Z) : list Z :=
  match fuel with
  | O => lab
  | S f => relax_rounds f E (fold_left relax_edge E lab)
  end.
Definition component_labels (n : Z) (E : list (Z * Z)) : list Z := relax_rounds (Z.to_nat n) E (rng n).
Definition num_components (n : Z) (E : list (Z * Z)) : Z :=
  len (filter (fun p => fst p =? snd p) (combine (rng n) (component_labels n E))).

(* all boolean vectors of length nv, and the number of them that satisfy a list of builder calls
   (variable i is read at position i-1) *)
Fixpoint bool_vectors (nv : nat) : list (list bool) :=
  match nv with
  | O => [[]]
  | S k => map (cons false) (bool_vectors k) ++ map (cons true) (bool_vectors k)
  end.
Definition assignment_of (bs : list bool) : Z -> bool := fun v => nth (Z.to_nat (v - 1)) bs false.
Definition count_models (nv : Z) (l : list ir) : Z :=
  len (filter (fun bs => irs_hold (assignment_of bs) l) (bool_vectors (Z.to_nat nv))).

(* the converse direction and the model count, stated here with the executable notions above; proved in
   Fam_tseitin_Conv.v (tseitin_sat_of_even_components) and Fam_tseitin_Labels.v (tseitin_model_count),
   and also tested by enumeration in harness/c02.py *)
Definition tseitin_sat_of_even_components_statement : Prop :=
  forall n E ch, graph_wf n E = true ->
    (forall S, closed_under_edges S E -> charge_parity ch S n = false) ->
    exists a, irs_hold a (tseitin_ir n E ch) = true.
Definition tseitin_model_count_statement : Prop :=
  forall n E ch, graph_wf n E = true ->
    (exists a, irs_hold a (tseitin_ir n E ch) = true) ->
    count_models (tseitin_numvar E) (tseitin_ir n E ch) = 2 ^ (len E - n + num_components n E).
