(* Fam_tseitin.v — model of cnfgen/families/tseitin.py : TseitinFormula(G, charges).
   Variables: new_graph_edges(G) (edge number i of the sorted edge list has
   identifier i).  One add_parity call per vertex v = 1..n, on the identifiers of the
   edges at v in the order of G.neighbors(v), with the charge of v.
   charges = None  -> odd charge on vertex 1 only; a charge list shorter than n is
   padded with even charges, a longer one is cut (zip): both are what
   [nth (v-1) charges false] does.  Abstracted: description, bool() cast of charges.
   Definitions only. *)
From Coq Require Import ZArith List Bool.
From Cnfgen Require Import Sem Comb Linear IR C02Common.
Import ListNotations.
Open Scope Z_scope.

Definition tseitin_charge (ch : option (list bool)) (v : Z) : bool :=
  match ch with
  | None => v =? 1
  | Some c => nth (Z.to_nat (v - 1)) c false
  end.

Definition tseitin_ir (n : Z) (E : list (Z * Z)) (ch : option (list bool)) : list ir :=
  map (fun v => IParity (incident E v) (b2z (tseitin_charge ch v))) (rng n).
Definition tseitin_numvar (E : list (Z * Z)) : Z := len E.

(* total charge of the vertices selected by S, modulo 2 *)
Definition charge_parity (ch : option (list bool)) (S : Z -> bool) (n : Z) : bool :=
  fold_right xorb false (map (fun v => S v && tseitin_charge ch v) (rng n)).
(* S is a union of connected components: no edge leaves S *)
Definition closed_under_edges (S : Z -> bool) (E : list (Z * Z)) : Prop :=
  forall e, In e E -> S (fst e) = S (snd e).
